"""C22 - Concurrent threads do not interfere through shared process state."""
import itertools, json, random
import vlib
from vlib import Corr, Search, Failure

ID = 'C22'
LEVEL = 'proof'
PROPS = ['Props/C22.v', 'Findings/C22.v']
TRUSTED = [
    'hand-written models Model/C22Memo.v (get / compute / set protocol of the process-wide set-only caches), Model/C22Key.v (translator cache key and lookup) and Model/C22Sched.v '
    '(Query._get_translator: get, compare fixed_param_values, pop(key, None), translate, set; decision table of the cross-session guards); tied on '
    'every run by replaying every enumerated schedule on real threads through an instrumented dict subclass installed in place of '
    'db._translator_cache / db._constructed_sql_cache / core.string2ast_cache / core.adapted_sql_cache / decompiling.ast_cache / asttranslation.extractors_cache / utils.lambda_args_cache, and comparing per-thread results, the log '
    'of dict operations and the final cache with the model inside Coq (vm_compute)',
    'the harness (tools/c22_driver.py): deterministic scheduler (one managed thread runs at a time, one dict operation per grant; hard timeouts only report a hang, they classify nothing; all threads are drained and joined)',
    'a single dict operation (get / __setitem__ / __delitem__) is atomic under the GIL; threading.local gives each thread its own db2cache',
    'key soundness (equal keys imply equal computed values) is a hypothesis of C22_setonly; it is the subject of C05 for each cache',
]
ASSUMPTIONS = [
    'thread switches are modelled at the access points of the shared dict; everything between two accesses is thread-local (translation, parsing)',
    'all threads of the translator experiment use the same query key and differ only in the parameter value the translation depends on '
    '(string slicing with a parameter bound, `p.name[x:]`)',
    'cross-thread object use: thread B runs inside its own db_session and operates on an object of thread A\'s live session; '
    'reading the primary key and using the object as a query parameter (only the primary key is read) are outside the table',
]
RULE = ('exhaustive: translator cache - every (warm value, two thread values) x every interleaving of 3 dict operations per thread, plus seeded '
        'schedules of three threads; set-only caches (string2ast, adapt_sql, decompile, extractors, lambda_args, constructed_sql) - input combinations with equal and different keys x every '
        'interleaving of two threads and seeded (thorough: all) interleavings of three threads; cross-thread guard table - every (operation, loaded?) pair; non-trivial = at least two threads '
        'touched the dict between the first and last operation of some thread (a real interleaving) or a guard decision; distinct = distinct cases')

XOPS = ['XReadAttr', 'XReadLazyAttr', 'XAssignAttr', 'XObjSet', 'XDelete', 'XObjLoad', 'XToDict', 'XCollLen', 'XCollIter', 'XCollAdd',
        'XAssignRelation', 'XCreateWith']


def interleavings(lens):
    def rec(rem):
        if not any(rem):
            yield []
            return
        for i, r in enumerate(rem):
            if r:
                rem[i] -= 1
                for t in rec(rem): yield [i] + t
                rem[i] += 1
    return rec(list(lens))


def gen_cases(ctx, deep=False):
    big = ctx.thorough
    rng = random.Random(ctx.seed * 65537 + 22)
    cases = []
    two = list(interleavings([3, 3]))
    for warm in (None, 0, 1):
        for xs in ([1, 2], [2, 1], [1, 1], [2, 2]) if big or deep else ([1, 2], [1, 1]):
            for sched in two:
                cases.append({'kind': 'translator', 'warm': warm, 'xs': xs, 'sched': sched})
    for warm, xs in ((1000, [1000, 1000]), (1000, [1000, 2]), (None, [1000, 1000])):      # equal values that are distinct int objects
        for sched in two:
            cases.append({'kind': 'translator', 'warm': warm, 'xs': xs, 'sched': sched})
    three = list(interleavings([3, 3, 3]))
    for warm, xs in ((0, [1, 2, 3]), (None, [1, 2, 1]), (0, [1, 1, 2]), (1, [1, 2, 2])):
        scheds = three if big else rng.sample(three, 120 if deep else 25)
        for sched in scheds:
            cases.append({'kind': 'translator', 'warm': warm, 'xs': xs, 'sched': sched})
    for cache in ('string2ast', 'adapt_sql', 'decompile', 'extractors', 'lambda_args', 'constructed_sql'):
        for inputs in ([0, 2], [0, 1], [0, 0], [1, 3]):
            for sched in interleavings([2, 2]):
                cases.append({'kind': 'setonly', 'cache': cache, 'inputs': inputs, 'sched': sched})
        three2 = list(interleavings([2, 2, 2]))
        for inputs in ([0, 2, 1], [0, 2, 0], [0, 1, 3]):
            for sched in (three2 if big else rng.sample(three2, 40 if deep else 15)):
                cases.append({'kind': 'setonly', 'cache': cache, 'inputs': inputs, 'sched': sched})
    cases.append({'kind': 'cross'})
    return cases


_cache = {}
_variant = [None]
_key_shape = [None]

def case_key(c):
    return json.dumps(c, sort_keys=True)

class DriverProblem(Exception):
    def __init__(self, what, case):
        Exception.__init__(self, str(what)); self.what = what; self.case = case

def run_real(cases):
    todo = [c for c in cases if case_key(c) not in _cache]
    if todo:
        out = vlib.run_impl('c22_driver.py', {'cases': todo}, timeout=1500)
        _variant[0] = out.get('variant')
        _key_shape[0] = out.get('key_shape')
        for c, r in zip(todo, out['results']):
            _cache[case_key(c)] = r
        if out.get('error') or out.get('stuck'):
            k = len(out['results'])
            raise DriverProblem(out.get('stuck') or out.get('error'), todo[k] if k < len(todo) else None)
        if out.get('threads_alive'):
            raise DriverProblem('%d scheduled threads still alive at the end' % out['threads_alive'], None)
    return [_cache[case_key(c)] for c in cases]


# ------------------------------------------------------------------------------------------------ Coq serialisation

class Unmodelled(Exception): pass

DOP = {'get': 'DGet', 'del': 'DDel', 'set': 'DSet'}

def cnats(xs):
    return '(' + '[' + '; '.join(str(x) for x in xs) + ']' + '%nat : list nat)' if xs else '(@nil nat)'

def clog(log):
    return '[' + '; '.join('(%d, %s)' % (t, DOP[op]) for t, op in log) + ']' if log else '(@nil (nat * dop))'

def copt(v):
    return 'None' if v is None else '(Some %d)' % v

def coq_case(c, r):
    if c['kind'] == 'translator':
        res = []
        for x in r['results']:
            if x['kind'] == 'got':
                if len(x['fixed']) != 1: raise Unmodelled('fixed_param_values = %r' % x['fixed'])
                res.append('(TGot %d)' % x['fixed'][0])
            elif x['kind'] == 'exc' and x['name'] == 'KeyError': res.append('TKeyError')
            elif x['kind'] == 'unfinished': res.append('TNone')
            else: raise Unmodelled('thread ended with %s' % x.get('name'))
        if len(r['cache']) > 1 or any(len(v) != 1 for v in r['cache']): raise Unmodelled('cache content %r' % r['cache'])
        cache = copt(r['cache'][0][0] if r['cache'] else None)
        return 'toutcome_eqb (toutcome true %s %s %s) ([%s], %s, %s)' % (copt(c['warm']), cnats(c['xs']), cnats(c['sched']), '; '.join(res), clog(r['log']), cache)
    if c['kind'] == 'setonly':
        res = []
        for x in r['results']:
            if x['kind'] == 'got': res.append(copt(x['cls']) if x['cls'] >= 0 else '(Some 99)')
            elif x['kind'] == 'unfinished': res.append('None')
            else: raise Unmodelled('thread ended with %s' % x.get('name'))
        return 'moutcome_eqb (moutcome %s %s %s) ([%s], %s)' % (cnats(r['classes']), cnats(c['inputs']), cnats(c['sched']), '; '.join(res), clog(r['log']))
    raise ValueError(c['kind'])

HEADER = ('From Coq Require Import List Bool Arith.\nImport ListNotations.\nRequire Import PonyV.Model.C22Memo PonyV.Model.C22Sched.\n\n')


def run_bools(ctx, exprs, chunk=700):
    chunks = []
    for i in range(0, len(exprs), chunk):
        chunks.append('Definition cases : list bool := [\n' + ';\n'.join(exprs[i:i + chunk]) + '].\nEval vm_compute in (failing cases).\n')
    outs = vlib.coq_eval_many(ctx, HEADER, chunks)
    bad = []
    for k, out in enumerate(outs):
        vals = vlib.parse_eval_outputs(out)
        assert len(vals) == 1, out[-500:]
        inner = vals[0].strip().strip('[]').strip()
        if inner:
            for tok in inner.split(';'):
                bad.append(k * chunk + int(tok.strip().replace('%nat', '')))
    return bad


def interleaved(log):
    """some thread's operations are separated by another thread's operation"""
    last, seen_other = {}, set()
    for k, (t, op) in enumerate(log):
        if t in last and any(log[j][0] != t for j in range(last[t] + 1, k)): return True
        last[t] = k
    return False


def correspondence(ctx):
    cases = gen_cases(ctx)
    disagreements, samples = [], []
    dist = {'translator_2_threads': 0, 'translator_3_threads': 0, 'setonly': 0, 'cross_thread_table_entries': 0, 'KeyError_threads': 0,
            'dict_operations': 0, 'translator_variant': None}
    try:
        results = run_real(cases)
    except DriverProblem as e:
        return Corr(cases=len(_cache), disagreements=[{'what': 'real threads did not finish (deadlock or driver error)', 'input': e.case, 'impl': str(e.what)[:1500]}])
    dist['translator_variant'] = _variant[0]
    if _variant[0] != 'pop':
        disagreements.append({'what': 'Query._get_translator no longer invalidates with `_translator_cache.pop(query_key, None)` (source variant: %s)' % _variant[0], 'input': 'source'})
    want_shape = {'components': ['code_key', 'vartypes', 'left_join', 'filters'], 'looks_up_by_key': True, 'compares_fixed_values': True}
    dist['translator_key_shape'] = _key_shape[0]
    if _key_shape[0] != want_shape:
        disagreements.append({'what': 'the translator cache key / lookup no longer has the shape of Model/C22Key.v', 'input': 'source', 'impl': _key_shape[0], 'model': want_shape})
    exprs, meta, nontriv = [], [], set()
    for c, r in zip(cases, results):
        if c['kind'] == 'cross':
            for row in r['table']:
                dist['cross_thread_table_entries'] += 1
                if row['raised'] is None:
                    disagreements.append({'what': 'cross-thread scenario could not be prepared', 'input': row}); continue
                if row['raised'] and row.get('exc') != 'TransactionError':
                    disagreements.append({'what': 'cross-thread use ends in %s instead of the TransactionError of the guard' % row.get('exc'), 'input': row})
                exprs.append('Bool.eqb (guard %s %s) %s' % (row['op'], vlib.cbool(row['loaded']), vlib.cbool(row['raised'])))
                meta.append((row, row)); nontriv.add('cross:%s:%s' % (row['op'], row['loaded']))
            if r['lock_left_held']: disagreements.append({'what': 'write lock left held after the cross-thread scenarios', 'input': 'cross'})
            continue
        if c['kind'] == 'translator':
            dist['translator_%d_threads' % len(c['xs'])] += 1
            dist['KeyError_threads'] += sum(1 for x in r['results'] if x.get('name') == 'KeyError')
        else: dist['setonly'] += 1
        dist['dict_operations'] += len(r['log'])
        try:
            exprs.append(coq_case(c, r)); meta.append((c, r))
        except Unmodelled as e:
            disagreements.append({'what': 'implementation output outside the model: %s' % e, 'input': c, 'impl': r['results']})
            continue
        if interleaved(r['log']): nontriv.add(case_key(c))
    bad = run_bools(ctx, exprs) if exprs else []
    for i in bad[:20]:
        c, r = meta[i]
        disagreements.append({'what': 'model and real threads differ (results / dict operation log / final cache / guard decision)', 'input': c,
                              'impl': r if 'op' in r else {'results': r['results'], 'log': r['log'], 'cache': r.get('cache')}, 'coq_case': exprs[i][:1500]})
    for c, r in [x for x in zip(cases, results) if x[0]['kind'] == 'translator' and any(y.get('name') == 'KeyError' for y in x[1]['results'])][:1] + \
                [x for x in zip(cases, results) if x[0]['kind'] == 'setonly'][5:6]:
        samples.append({'case': c, 'results': [{k: v for k, v in y.items() if k != 'text'} for y in r['results']], 'log': r['log']})
    return Corr(cases=len(exprs), nontrivial=len(nontriv), disagreements=disagreements, samples=samples, distribution=dist,
                note='every case: one Coq bool = outcome_eqb (model outcome of the schedule) (real outcome), evaluated by vm_compute')


# ------------------------------------------------------------------------------------------------ search (property oracle)

def oracle(c, r):
    """C22 checked directly on the real runs: every thread gets what it gets running alone, no spurious error;
       an object of another thread's live session is rejected."""
    bad = []
    if c['kind'] == 'translator':
        for t, (x, y) in enumerate(zip(c['xs'], r['results'])):
            if y['kind'] == 'exc':
                key = 'translator-cache:KeyError:concurrent-del' if y['name'] == 'KeyError' else 'translator-cache:%s' % y['name']
                bad.append((key, 'thread %d (x=%d) of %r under schedule %r raised %s; dict operations %r' % (t, x, c['xs'], c['sched'], y['name'], r['log'])))
            elif y['kind'] == 'got' and (y['fixed'] != [x] or not y['rows_ok']):
                bad.append(('translator-cache:wrong-data', 'thread %d (x=%d) got a translator for %r / rows ok = %r' % (t, x, y['fixed'], y['rows_ok'])))
    elif c['kind'] == 'setonly':
        for t, (i, y) in enumerate(zip(c['inputs'], r['results'])):
            if y['kind'] == 'exc':
                bad.append(('setonly:%s:%s' % (c['cache'], y['name']), 'thread %d raised %s: %s' % (t, y['name'], y['text'])))
            elif y['kind'] == 'got' and y['cls'] != r['classes'][i]:
                bad.append(('setonly:%s:wrong-data' % c['cache'], 'thread %d (input %d) received the value of input class %d' % (t, i, y['cls'])))
    else:
        for row in r['table']:
            if row['raised'] and row.get('exc') != 'TransactionError':
                bad.append(('cross-thread:%s:%s:wrong-error:%s' % (row['op'], 'loaded' if row['loaded'] else 'unloaded', row.get('exc')),
                            'thread B used an object of thread A\'s live session (%s): not rejected by the guard, it failed later with %s' % (row['op'], row['detail'])))
            if row['raised'] is False:
                bad.append(('cross-thread:%s:%s' % (row['op'], 'loaded' if row['loaded'] else 'unloaded'),
                            'thread B used an object of thread A\'s live session (%s, data %s in A\'s cache) and no error was raised: %s'
                            % (row['op'], 'already' if row['loaded'] else 'not yet', row['detail'])))
    return bad


def search(ctx, deep):
    cases = gen_cases(ctx, deep)
    failures, nontriv, seen_keys = [], set(), {}
    dist = {'cases': len(cases), 'reused_from_correspondence': sum(1 for c in cases if case_key(c) in _cache)}
    try:
        results = run_real(cases)
    except DriverProblem as e:
        return Search(evaluations=len(_cache), failures=[Failure('deadlock-or-driver-error', 'real threads did not finish: %s' % str(e.what)[:500], {'case': e.case})],
                      distribution=dist)
    for c, r in zip(cases, results):
        for key, what in oracle(c, r):
            if seen_keys.setdefault(key, 0) < 1:
                failures.append(Failure(key, what, {'case': c, 'key': key}))
            seen_keys[key] += 1
        if c['kind'] != 'cross' and interleaved(r['log']): nontriv.add(case_key(c))
    dist['failing_cases_by_key'] = seen_keys
    return Search(evaluations=len(cases), failures=failures, nontrivial=0 if dist['reused_from_correspondence'] == len(cases) else len(nontriv),
                  distribution=dist, exhaustive=True,
                  samples=[{'oracle': 'each thread: result = result of running alone, no exception; cross-thread use of an object raises'}])


def replay(ctx, data):
    c = data['case']
    if c is None: return None
    _cache.pop(case_key(c), None)
    try:
        r = run_real([c])[0]
    except DriverProblem as e:
        return Failure('deadlock-or-driver-error', str(e.what)[:500], data)
    bad = oracle(c, r)
    want = data.get('key')
    for key, what in bad:
        if want is None or key == want: return Failure(key, what, data)
    return None


LEVEL_TEXT = ('Machine-checked proof (Coq 8.16.1): (1) generic memo theorem - for any key-sound get/compute/set cache, ANY number of clients and '
              'EVERY schedule, each client receives compute(its input) (instance: Pony\'s process-wide set-only caches); (2) translator cache '
              '(Query._get_translator as coded: get, compare fixed values, pop(key, None), translate, set): under every schedule every thread ends '
              'with a translator for its own parameter value and no schedule raises (the former `del` race - KeyError on get/get/del/del - was '
              'repaired in the repo, commit e8266c3); the key as coded - (code_key, vartypes, left_join, filters) plus the comparison of the recorded fixed parameter '
              'values at every lookup - is proved sound under the read-set hypothesis of C05 (C22_translator_key_sound; the key components and lookup lines are read from the source on every run); (3) cross-thread object use as a guard decision table, proved on the exact complement '
              'of 12 recorded unguarded cases. Every run replays all schedules of two threads and seeded schedules of three threads on real threads '
              'through an instrumented dict and compares results, operation logs and final caches with the model by vm_compute.')
LEVEL_NOTE = ('Partial: pre-emption inside one dict operation is the GIL\'s business (trusted); key soundness of each set-only cache is a hypothesis of C22_setonly (C05); for the translator cache the key tuple is proved sound relative to the read-set hypothesis; func_vartypes (queries calling user functions) is a further lookup comparison not modelled; '
              'all seven process-wide dict caches are replayed (utils.codeobjects, a write-once id registry, is not); the guard table '
              'is a finite decision table tied by execution, not derived from source. Trusted: Coq kernel + vm_compute; the scheduler harness.')
TECHNIQUE = 'Coq invariant proofs over all schedules (generic memo table; translator cache protocol); vm_compute correspondence with real threads under a deterministic dict-level scheduler; property oracle search'
DESIGN_REF = 'DESIGN.md section 5, C22'
