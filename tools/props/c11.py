"""C11 - One in-memory object per primary key per session; unique-key indexes consistent with the objects."""
import session_check as chk
import session_flags

ID = 'C11'
LEVEL = 'proof'
PROPS = ['Props/C11.v', 'Findings/C11.v']
GEN = [('Gen/SessionFlags.v', session_flags.generate)]     # Tie A: which shape three repaired / repairable pieces of core.py have (read from /repo on every run)
TRUSTED = [
    'hand-written model coq/Model/Session*.v of pony/orm/core.py (SessionCache indexes / objects_to_save, Attribute.__set__/db_set, '
    'Set/SetInstance, Entity.__init__/_delete_/set/_db_set_/_save_*, EntityMeta._find_in_cache_/_fetch_objects), Stage 1 schema space',
    'history fuzzer tools/session_fuzz.py / session_impl.py / session_coq.py / session_check.py: generator, handle table, canonical results, '
    'row dumps through a separate sqlite3 connection',
    'reference semantics of the SQLite tables Pony creates (coq/Model/SessionDb.v: PRIMARY KEY, UNIQUE, NOT NULL, REFERENCES with '
    'ON DELETE CASCADE / SET NULL, AUTOINCREMENT), validated by the row dumps and error classes of every run',
    'optimistic checks / rbits, query result cache, multiple concurrent sessions are not modelled (single writer)',
]
ASSUMPTIONS = [
    'Stage 1 schemas (wf_schema): single integer primary key, int/str attributes, unique scalars, many-to-one / one-to-many with Pony\'s default cascade_delete; '
    'one-to-one and many-to-many relationships and composite keys (Stage 2) are covered by the implementation-side oracles only (half of the search histories use them; the Coq model and the '
    'correspondence do not); composite primary keys and inheritance are not generated',
    'theorems hold for histories that reach no dirty site of the model (s_dirty = 0): sites 1-8 are known findings / legitimate partial failures of the code, '
    'sites 20-28 are assertion sites believed unreachable (a hit in the correspondence run is reported as a broken tie)',
    'steps the model declines (a deleted object used as a reference value, Entity.set mixing reference and collection arguments, insertion order that depends on '
    'Python set iteration) end the comparison of that history',
]
RULE = ('seeded generator of (schema, op list): 1-3 entities, 1-3 scalar attributes each, 1-3 relationships (search: also many-to-many, one-to-one, composite_key), 10-40 ops, ~85 % valid ops; '
        'non-trivial = at least three successful mutating ops; distinct = distinct canonical (schema, ops)')


def correspondence(ctx): return chk.correspondence(ctx, ID)
def _scenarios(cases=None):
    """tools/session_scenarios.py: fixed multi-step scenarios the history fuzzer does not generate (see its docstring)."""
    import vlib
    out = vlib.run_impl('session_scenarios.py', {'family': 'c11', 'cases': cases}, timeout=600)['results']
    return [vlib.Failure('c11-scenario:' + r['case'], 'a unique key value does not map to the object that holds it (%s): %s' % (r['case'], r['detail'][:700]), {'scenario_case': r['case']})
            for r in out if not r['ok']], len(out)


def search(ctx, deep):
    s = chk.search(ctx, deep, ID)
    fails, n = _scenarios()
    s.failures = fails + list(s.failures)
    s.evaluations += n
    s.distribution['fixed_scenarios'] = n
    return s


def replay(ctx, data):
    if 'scenario_case' in data:
        fails, _ = _scenarios([data['scenario_case']])
        return fails[0] if fails else None
    return chk.replay(ctx, data, ID)


LEVEL_TEXT = ('Machine-checked proof (Coq 8.16.1) over an executable mechanism-level model of Pony\'s session cache, Stage 1 schema space (single integer primary key, '
              'int/str attributes, unique attributes, many-to-one/one-to-many): for every well-formed schema and EVERY operation history (create, assign, Entity.set, '
              'delete with cascades, collection add/remove/assign, loading reads, Entity[pk]/get/select, flush/commit/rollback/new session) the index invariant '
              'Inv_idx (an index entry exists exactly for the live object holding that key value) holds and the identity map is functional, provided no dirty site '
              'was reached; the two defect sites relevant to C11 (failed Entity.set, failed creation) have witnesses in Findings/C11.v that refute the invariant for the OLD shape of the code; both are repaired in /repo (cd0fda9, 751c8a4), the witnesses are stated under the source-derived flags entity_set_registers_undo / failed_create_unregisters (vacuous on HEAD) and the findings are recorded as fixed; the model still treats a failed creation as dirty site 1 (it claims nothing after it). '
              'In addition fixed scenarios (tools/session_scenarios.py, family c11; implementation side, every run): a placeholder reached through a relationship gets a pending write of one or two unique attributes and its row is then loaded with flushing disabled (Entity.set / a reverse assignment of an unloaded to-one attribute) or after a flush (attribute read, query): every unique value must map to the object holding it, get() must find it, a second holder must be refused, the vacated value must be reusable. '
              'Tie: history fuzzer compares per-op results and per-commit rows of the model (vm_compute) with real Pony+SQLite on every run. '
              'Stage 2/3 (one-to-one, many-to-many, composite keys, inheritance) are outside the theorems; one-to-one, many-to-many and composite_key are covered on the implementation side only '
              '(half of the search histories; the composite index is checked like a simple one) - that search found a third defect: a creation that succeeds with two live objects holding one unique value.')
LEVEL_NOTE = ('Trusted: Coq kernel + vm_compute; the hand-written model (tied by differential runs only); the fuzzer harness; the SQLite reference semantics. '
              'Optimistic checks, the query result cache and concurrent sessions are not modelled.')
TECHNIQUE = 'Coq inductive invariant over an executable session model (all histories, fold_left); vm_compute correspondence with real Pony+SQLite on generated histories; property-oracle search with ddmin shrinking'
DESIGN_REF = 'DESIGN.md section 5, C11 and Appendix A'
