"""C16 - Flush emits writes in an order the database accepts."""
import collections, json, os, random, re
import vlib
from vlib import Corr, Search, Failure
import c13_impl as B, c13_gen as G, c16_impl as I

ID = 'C16'
LEVEL = 'proof'
PROPS = ['Props/C16.v', 'Findings/C16.v']
TRUSTED = [
    'hand-written model coq/Model/C16Flush.v of SessionCache.flush / Entity._save_ / _save_principal_objects_ (queue order, recursive saving of referenced new '
    'objects with the shared dependent_objects list, link-row removals first and additions last) and of a database that checks foreign keys per statement; '
    'tied to /repo on every run: the pending set (objects_to_save with status and foreign-key columns, modified many-to-many pairs) is read from the real '
    'session right before each commit, the committed rows through a separate sqlite3 connection, and the statements of the real flush (sqlite3 trace '
    'callback) must be the model\'s statement list (object statements in exactly the same order, link rows as bags in their phase), with the same '
    'outcome (accepted / UnresolvableCyclicDependency); the pending set must satisfy the theorem\'s hypothesis wf_pending (evaluated by vm_compute); the ON DELETE SET NULL action of a column is read from the real mapping and is part of the model\'s column id',
    'SQLite enforces Pony\'s foreign keys immediately (the harness runs with PRAGMA foreign_keys=ON as Pony sets it); the model applies SET NULL actions and treats CASCADE as NO ACTION (conservative)',
    'the harness tools/c16_impl.py and the history generator tools/c13_gen.py',
]
ASSUMPTIONS = [
    '"can be ordered" = there is a rank on the new objects that decreases along every reference to a new object (optional references included: Pony does not '
    'break a cycle by inserting NULL first), bounded by the queue length',
    'one id space for all tables; only foreign-key columns are modelled; uniqueness / NOT NULL violations are outside (C14, C08)',
    'the pending set is taken as the session holds it (its well-formedness is established by C12/C13/C15 territory and re-checked here on every generated session)',
]
RULE = ('sessions = scenario histories (chains and cycles of new objects, updates that point at new objects, deletes with cleared / cascaded references, link-row changes) + '
        'seeded random histories over 5 schemas with several commits each; every commit is one case; non-trivial = the flush emitted at least two statements; '
        'distinct = distinct (schema, op list prefix up to the commit)')

SCEN = [
    # _delete_ of an object whose one-to-one partner (cascaded) clears its back reference: the object is queued twice (see c16_impl.pending)
    ('delete-requeues-object', 'S3', [["new", 0, 1, []], ["new", 5, 1, [[1, ["o", 0]]]], ["new", 1, 1, [[1, ["os", [0]]]]], ["commit"], ["del", 0], ["commit"]]),
    # an object that is already queued as 'modified' and is then deleted must move to the end of the queue (its old slot is vacated): its
    # dependents - deleted explicitly (no ON DELETE action), cascaded (ON DELETE CASCADE) or detached (ON DELETE SET NULL) - are written first
    ('modified-parent-deleted-after-children', 'S2', [["new", 0, 1, [[8, ["i", 0]]]], ["new", 1, 1, [[1, ["o", 0]]]], ["commit"], ["set", 0, 3, ["i", 1]],
                                                      ["del", 1], ["del", 0], ["commit"]]),
    ('modified-parent-deleted-with-cascade', 'S1', [["new", 0, 1, [[5, ["i", 0]]]], ["new", 4, 1, [[1, ["o", 0]]]], ["commit"], ["set", 0, 3, ["i", 1]],
                                                    ["del", 0], ["commit"]]),
    ('modified-parent-deleted-children-detached', 'S2', [["new", 0, 1, [[8, ["i", 0]]]], ["new", 5, 1, []], ["new", 5, 2, [[3, ["o", 1]]]], ["commit"],
                                                         ["set", 1, 1, ["o", 0]], ["del", 1], ["commit"]]),
    # chains of new objects created in the "wrong" order for the queue: the referenced object is created later / reached through an update
    ('chain-new-parent-after-child', 'S1', [["new", 0, 1, [[5, ["i", 0]]]], ["commit"], ["new", 4, 1, [[1, ["o", 0]]]], ["new", 0, 2, [[5, ["i", 1]]]],
                                             ["set", 1, 1, ["o", 2]], ["new", 6, 1, [[1, ["o", 1]]]], ["commit"]]),
    ('update-points-at-new-object', 'S1', [["new", 0, 1, [[5, ["i", 0]]]], ["new", 4, 1, [[1, ["o", 0]]]], ["commit"], ["new", 0, 2, [[5, ["i", 1]]]],
                                            ["new", 1, 1, []], ["set", 2, 6, ["o", 3]], ["set", 1, 1, ["o", 2]], ["commit"]]),
    ('delete-with-cleared-and-cascaded-references', 'S1', [["new", 0, 1, [[5, ["i", 0]]]], ["new", 1, 1, []], ["set", 0, 6, ["o", 1]], ["new", 4, 1, [[1, ["o", 0]]]],
                                                            ["new", 6, 1, [[1, ["o", 2]]]], ["new", 2, 1, [[1, ["os", [0]]]]], ["commit"], ["del", 1], ["commit"], ["del", 0], ["commit"]]),
    ('link-rows-of-new-and-deleted-objects', 'S1', [["new", 0, 1, [[5, ["i", 0]]]], ["new", 2, 1, [[1, ["os", [0]]]]], ["commit"], ["new", 2, 2, []], ["add", 0, 7, [2]],
                                                     ["rem", 0, 7, [1]], ["new", 0, 2, [[5, ["i", 0]], [7, ["os", [1, 2]]]]], ["commit"], ["del", 1], ["del", 3], ["commit"]]),
    ('s16-chain', 'S16', [["new", 1, 1, []], ["new", 3, 1, []], ["commit"], ["new", 2, 1, [[2, ["o", 1]]]], ["new", 1, 2, []], ["new", 0, 1, [[1, ["o", 3]], [3, ["o", 2]]]],
                          ["set", 0, 2, ["o", 4]], ["commit"]]),
    # an object deleted in the session is refused as a reference target / collection item (repo 907c292); the commit then goes through
    ('deleted-object-as-reference-target', 'S1', [["new", 0, 1, [[5, ["i", 0]]]], ["new", 1, 1, []], ["commit"], ["del", 1], ["set", 0, 6, ["o", 1]],
                                                   ["new", 2, 1, []], ["del", 2], ["add", 0, 7, [2]], ["new", 1, 2, []], ["del", 3], ["set", 0, 6, ["o", 3]], ["commit"]]),
    # known finding: set(ref=x, coll=[...]) where shrinking the collection cascade-deletes x
    ('set-overwrites-cascade', 'S16', [["new", 1, 1, []], ["new", 0, 1, [[1, ["o", 0]]]], ["setm", 0, [[2, ["o", 1]], [1, ["os", []]]]], ["commit"]]),
    # cycles between new objects
    ('s16-cycle-2', 'S16', [["new", 1, 1, []], ["new", 0, 1, [[1, ["o", 0]]]], ["set", 0, 2, ["o", 1]], ["commit"]]),
    ('s16-cycle-4', 'S16', [["new", 1, 1, []], ["new", 0, 1, [[1, ["o", 0]]]], ["new", 1, 2, [[2, ["o", 1]]]], ["new", 0, 2, [[1, ["o", 2]]]], ["set", 0, 2, ["o", 3]], ["commit"]]),
    ('s16-cycle-behind-saved-root', 'S16', [["new", 1, 1, []], ["new", 3, 1, []], ["new", 2, 1, [[2, ["o", 1]]]], ["commit"], ["new", 1, 2, []], ["new", 0, 1, [[1, ["o", 3]]]],
                                            ["set", 3, 2, ["o", 4]], ["set", 2, 1, ["o", 4]], ["commit"]]),
]


def gen_history(sname, rng, length):
    """ops of a random history (generated against an in-memory run so that the generator knows which creations succeeded)"""
    schema = I.SCHEMAS[sname]
    r = B.Runner(schema)
    class Stop(object):
        def __init__(s): s.dead = False
        def step(s, op):
            ok = r.step(op)
            s.dead = r.dead or bool(r.viol)
            return ok
    try:
        ops = G.random_history(schema, rng, length, Stop(), faults=False)
    finally:
        r.close()
    return ops


def opt(x): return 'None' if x is None else '(Some %d)' % x
def cols_coq(cols): return '[' + '; '.join('(%d, %s)' % (j, opt(t)) for j, t in cols) + ']'


def flush_coq(name, fl):
    p = fl['pending']
    q = '; '.join('mkobj %d %s %s' % (h, st, cols_coq(cols)) for h, st, cols in p['queue'])
    pairs = lambda l: '[' + '; '.join('(%d, %d)' % (x, y) for x, y in l) + ']'
    rows = '; '.join('(%d, %s)' % (h, cols_coq(fks)) for h, fks in fl['rows'])
    real = '; '.join('(%d, %d, %d)' % tuple(t) for t in fl['stmts'])
    return ('Definition p_%s := mkpending [%s] %s %s.\nDefinition d_%s := mkdb [%s] [].\n'
            'Eval vm_compute in (check_flush d_%s p_%s [%s] %d [%s]).\n' % (
                name, q, pairs(p['added']), pairs(p['removed']), name, rows, name, name, '; '.join('%d' % h for h in p['silent']), fl['outcome'], real))


HEADER = ('From Coq Require Import List Bool Arith.\nImport ListNotations.\nRequire Import PonyV.Model.C16Flush PonyV.Model.C16Check.\n')


def usable(fl):
    if any(h is None for h, fks in fl['rows']): return False
    if any(t is None and False for h, fks in fl['rows'] for j, t in fks): return False
    if any(x is None or x == 'Z' for t in fl['stmts'] for x in t): return False
    for h, st, cols in fl['pending']['queue']:
        if h in (None, 'Z') or any(t == 'Z' for j, t in cols): return False
    return True


def collect(ctx, deep, stream):
    """-> list of (label, sname, ops prefix, flush record)"""
    cases = []
    for label, sname, ops in SCEN:
        out = I.run(sname, ops)
        k = 0
        for i, op in enumerate(ops):
            if op[0] == 'commit' and k < len(out['flushes']):
                cases.append(('scenario:' + label, sname, ops[:i + 1], out['flushes'][k])); k += 1
    n = (2500 if deep else 60)
    snames = ['S1', 'S2', 'S3', 'S16']
    for sname in snames:
        for i in range(n // len(snames)):
            rng = random.Random('%s/%s/%s/%d' % (ctx.seed, stream, sname, i))
            ops = gen_history(sname, rng, 16)
            if not any(op[0] == 'commit' for op in ops): ops.append(['commit'])
            out = I.run(sname, ops)
            k = 0
            for j, op in enumerate(ops):
                if op[0] == 'commit' and k < len(out['flushes']):
                    cases.append(('random:%s:%d' % (sname, i), sname, ops[:j + 1], out['flushes'][k])); k += 1
    return cases


def created_cycle(fl):
    """is there a reference cycle between the 'created' objects of the pending set?  (specification side, computed here in Python)"""
    created = {h: [t for j, t in cols if t is not None] for h, st, cols in fl['pending']['queue'] if st == 'Created'}
    state = {}
    def visit(h):
        if state.get(h) == 1: return True
        if state.get(h) == 2: return False
        state[h] = 1
        for t in created[h]:
            if t in created and visit(t): return True
        state[h] = 2
        return False
    return any(visit(h) for h in created)


def correspondence(ctx):
    cases = collect(ctx, ctx.thorough, 'corr')
    dist = collections.Counter()
    disagreements, samples, nontrivial = [], [], set()
    chunks, used = [], []
    for k, (label, sname, ops, fl) in enumerate(cases):
        dist['flushes'] += 1
        if not usable(fl): dist['skipped_unmapped_rows'] += 1; continue
        if fl['pending'].get('requeued'): dist['queues_with_a_repeated_object'] += 1
        chunks.append(flush_coq('c%d' % k, fl)); used.append((label, sname, ops, fl))
    per = max(20, min(120, (len(chunks) + 7) // 8))
    outs = vlib.coq_eval_many(ctx, HEADER, [''.join(chunks[i:i + per]) for i in range(0, len(chunks), per)], name='f')
    vals = []
    for o in outs: vals += vlib.parse_eval_outputs(o)
    assert len(vals) == len(used), (len(vals), len(used))
    for (label, sname, ops, fl), v in zip(used, vals):
        m = re.match(r'\((true|false), (true|false), (true|false), (\d+)\)$', v.replace(' ', '').replace(',', ', '))
        assert m, v
        wf, same_outcome, same_stmts, model_outcome = m.group(1) == 'true', m.group(2) == 'true', m.group(3) == 'true', int(m.group(4))
        dist['outcome_%d' % fl['outcome']] += 1
        dist['kind_' + label.split(':')[0]] += 1
        dist['statements'] += len(fl['stmts'])
        for h, st, cols in fl['pending']['queue']: dist['pending_' + st] += 1
        if len(fl['stmts']) >= 2: nontrivial.add(json.dumps([sname, ops]))
        inp = {'schema': sname, 'ops': ops, 'pending': fl['pending'], 'rows_before': fl['rows']}
        if fl['pending'].get('dead_refs'):
            dist['references_to_deleted_objects'] += 1
            if fl.get('dead_origin') == 'setm-ref+set': dist['known_set_overwrites_cascade'] += 1; continue      # judged by the search / known-findings path
        if not wf and fl['outcome'] == 0:
            deleted = set(h for h, st, cols in fl['pending']['queue'] if st == 'Deleted')
            if any(t in deleted and h != t for h, t in fl.get('on_delete_refs', [])):
                # a row that references a row being deleted through an ON DELETE CASCADE column is neither deleted nor updated earlier in the
                # queue (an object queued twice is deleted at its first slot, before its cascaded dependents): acceptable to the database only
                # through the CASCADE action, which the model treats as NO ACTION -> outside wf_pending; the real flush succeeded
                dist['relies_on_on_delete_cascade'] += 1
                continue
        if not wf:
            disagreements.append({'what': 'the pending set of a real session is outside wf_pending (hypothesis of C16_order) [%s]' % label, 'input': inp})
        if not same_outcome:
            disagreements.append({'what': 'flush outcome differs: implementation %d (%s), model %d (0 accepted, 1 cyclic dependency, 2 rejected statement) [%s]' % (
                fl['outcome'], fl['error'], model_outcome, label), 'input': inp})
        elif not same_stmts:
            disagreements.append({'what': 'the statements of the real flush are not the model\'s statement list [%s]' % label, 'input': inp, 'impl': fl['stmts']})
        if len(samples) < 3 and len(fl['stmts']) >= 4 and label.startswith('random'):
            samples.append({'schema': sname, 'ops': ops, 'pending': fl['pending'], 'traced_statements(kind,row,row)': fl['stmts'], 'outcome': fl['outcome']})
    return Corr(cases=len(used), nontrivial=len(nontrivial), disagreements=disagreements, samples=samples, distribution=dict(dist),
                note='per commit: wf_pending holds, same outcome, same statement list (vm_compute inside coqc); statement kinds 0 INSERT 1 UPDATE 2 DELETE 3 link INSERT 4 link DELETE')


def search(ctx, deep):
    """Property oracle on the implementation alone: a pending set without a reference cycle between new objects must be flushed and committed
    (foreign keys are enforced immediately by SQLite); with such a cycle the commit must raise UnresolvableCyclicDependency and change nothing."""
    cases = collect(ctx, deep, 'search')
    dist = collections.Counter()
    failures, seen, nontriv = [], set(), set()
    for label, sname, ops, fl in cases:
        cyc = created_cycle(fl)
        dist['cyclic' if cyc else 'orderable'] += 1
        if len(fl['stmts']) >= 2 or cyc: nontriv.add(json.dumps([sname, ops]))
        bad = None
        if fl['pending'].get('dead_refs') and fl['outcome'] != 0 and not cyc:
            bad = ('reference-to-deleted-object-after-%s' % (fl.get('dead_origin') or 'unknown'),
                   'a live object references an object deleted in this session %s (since a %s call); commit raised %s' % (
                       fl['pending']['dead_refs'][:2], fl.get('dead_origin'), fl['error']))
        elif not cyc and fl['outcome'] != 0:
            bad = ('orderable-pending-set-rejected:%s' % re.sub(r'[^A-Za-z]+', '-', (fl['error'] or ''))[:40], 'references can be ordered but commit raised %s' % fl['error'])
        elif cyc and fl['outcome'] != 1:
            bad = ('cycle-not-reported', 'a reference cycle between new objects: commit gave %s instead of UnresolvableCyclicDependency' % (fl['error'] or 'success'))
        elif fl['outcome'] != 0 and fl['unchanged_after_error'] is False:
            bad = ('failed-flush-left-rows', 'commit raised %s but the committed rows changed' % fl['error'])
        if bad and bad[0] not in seen:
            seen.add(bad[0])
            failures.append(Failure(bad[0], '%s %s: %s' % (sname, json.dumps(ops[-4:]), bad[1]), {'schema': sname, 'ops': ops}))
    return Search(evaluations=len(cases), failures=failures, nontrivial=len(nontriv), distribution=dict(dist), exhaustive=False,
                  samples=[{'oracle': 'no cycle between new objects => commit succeeds under immediate FK enforcement; cycle => UnresolvableCyclicDependency and unchanged rows'}])


def replay(ctx, data):
    out = I.run(data['schema'], data['ops'])
    if not out['flushes']: return None
    fl = out['flushes'][-1]
    cyc = created_cycle(fl)
    if fl['pending'].get('dead_refs') and fl['outcome'] != 0 and not cyc:
        return Failure('reference-to-deleted-object-after-%s' % (fl.get('dead_origin') or 'unknown'),
                       'a live object references an object deleted in this session %s; commit raised %s' % (fl['pending']['dead_refs'][:2], fl['error']), data)
    if not cyc and fl['outcome'] != 0:
        return Failure('orderable-pending-set-rejected', 'commit raised %s' % fl['error'], data)
    if cyc and fl['outcome'] != 1:
        return Failure('cycle-not-reported', 'commit gave %s' % (fl['error'] or 'success'), data)
    return None


LEVEL_TEXT = ('Machine-checked proof (Coq 8.16.1) over a model of flush: for every well-formed pending set whose references between new objects can be ranked, every emitted '
              'INSERT / UPDATE / DELETE / link-row statement passes the immediate foreign-key check and the commit succeeds (induction on the _save_principal_objects_ '
              'recursion; the fuel is discharged by the rank; a database that applies the declared ON DELETE SET NULL actions; queues with a repeated object included); flush never runs out of fuel; with a reference cycle between new objects flush reports the cycle error and the commit leaves the database '
              'unchanged. The model is compared with real Pony + SQLite on every run: pending sets are read from real sessions, the traced statements must be the '
              'model\'s statement list in the same order, outcomes must agree, and the theorem\'s hypothesis is evaluated on every real pending set.')
LEVEL_NOTE = ('C16_no_fuel: flush never runs out of fuel, so C16_cycle yields the cycle error itself. The database model applies ON DELETE SET NULL as generate_mapping declares it '
              '(column ids carry the action); ON DELETE CASCADE is treated as NO ACTION (conservative): commits that are acceptable only through a CASCADE action - an object queued '
              'twice is deleted at its first slot, before its cascaded dependents - are outside wf_pending, are only required to succeed on the real database and are counted. '
              'Queues that hold the same object twice are covered by C16_order (coherent_ids instead of distinct ids). "Can be ordered" counts optional references too: Pony raises '
              'UnresolvableCyclicDependency for a cycle that could be broken by inserting NULL first (noted, not a finding).')
TECHNIQUE = 'Coq proof by induction on the principal-saving recursion with a queue/database invariant + vm_compute correspondence of statement traces (sqlite3 trace callback) + property-oracle search'
DESIGN_REF = 'DESIGN.md section 5, C16; Appendix A'
