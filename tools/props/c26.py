"""C26 - Generated schemas are well formed and match the entity model."""
import json, os, random
import vlib
from vlib import Corr, Search, Failure
import c26_gen as gen

ID = 'C26'
LEVEL = 'proof'
PROPS = ['Props/C26.v', 'Findings/C26.v']
GEN = []
TRUSTED = [
    'hand-written model Model/C26Schema.v of DBAPIProvider.normalize_name (per dialect: max_name_len and case folding), get_default_entity_table_name / '
    'm2m_table_name / column_names / m2m_column_names / index_name / fk_name, the schema.tables + schema.names registry, Column registration and '
    'DBSchema.order_tables_to_create; tied on every run by vm_compute correspondence: (a) the real provider functions of sqlite/postgres/mysql/oracle on '
    'generated ASCII strings, (b) for every generated diagram that Pony accepts: the registration order of schema.names replayed through the model '
    'registry, every default index / foreign-key name recomputed from its ingredients, the column list of every single-entity table recomputed from '
    'the attributes, and order_tables_to_create recomputed from the sorted tables and their parent sets',
    'Model/C26Create.v: DBSchema.create_tables as a function of the set of existing object names, tied by histories on a SQLite file (create with model v1, '
    'drop indexes by raw SQL and/or declare more indexes in v2, generate_mapping(create_tables=True) again): the catalog afterwards must be the model\'s set',
    'case mapping is modelled for ASCII only (str.lower/upper on other characters can change the length); sorting of table names is Python\'s',
    'PostgreSQL / MySQL / Oracle providers are bound through the repo\'s pool mock-up: their DDL is generated and inspected, never executed; only '
    'SQLite executes the DDL (catalog introspection through sqlite_master and PRAGMA table_info / index_list / index_info / foreign_key_list)',
]
ASSUMPTIONS = [
    'explicit names (_table_, column=, index=, table=) are the user\'s; C26_names bounds them only when they are within the limit (Pony does not check: recorded finding)',
    'acyclicity of the foreign-key graph is stated as the existence of a rank function decreasing along table -> parent edges',
    'entity and attribute names are ASCII in the theorems',
    'only SQLite executes DDL',
]
RULE = ('seeded random entity diagrams (1-4 entities; names short / at the length limits of each dialect / differing only by case / colliding with default '
        'm2m names / non-ASCII; explicit table, column and index names; int and str primary keys, auto keys, composite primary keys, composite keys and '
        'indexes, unique and indexed attributes, nullable strings, single-table inheritance, one-to-many, one-to-one and many-to-many relationships incl. '
        'self references, with and without table=/column=), each on sqlite, postgres, mysql, oracle; non-trivial = Pony accepted the diagram and at least '
        'two tables or one relationship exist; distinct = distinct (provider, source text); plus evolved-database histories on a SQLite file (v1 created, '
        'indexes dropped by raw SQL and/or added in v2, create_tables again; non-trivial = the second run had to create something)')

CORPUS = [
    # case-differing attribute names: SQLite column names are case-insensitive
    {'entities': [{'name': 'A', 'table': None, 'base': None, 'attrs': [
        {'name': 'name', 'kind': 'Required', 'type': 'str', 'opts': {}}, {'name': 'Name', 'kind': 'Required', 'type': 'str', 'opts': {}}],
        'ckeys': [], 'cindexes': [], 'cpk': None}], 'rels': []},
    # two many-to-many relationships between the same long-named entities: '_2' appended after truncation
    {'entities': [{'name': 'L' * 31 + 'a', 'table': None, 'base': None, 'attrs': [
        {'name': 'xs', 'kind': 'Set', 'type': 'M' * 31 + 'b', 'opts': {'reverse': 'ys'}}, {'name': 'zs', 'kind': 'Set', 'type': 'M' * 31 + 'b', 'opts': {'reverse': 'ws'}}],
        'ckeys': [], 'cindexes': [], 'cpk': None},
                  {'name': 'M' * 31 + 'b', 'table': None, 'base': None, 'attrs': [
        {'name': 'ys', 'kind': 'Set', 'type': 'L' * 31 + 'a', 'opts': {'reverse': 'xs'}}, {'name': 'ws', 'kind': 'Set', 'type': 'L' * 31 + 'a', 'opts': {'reverse': 'zs'}}],
        'ckeys': [], 'cindexes': [], 'cpk': None}], 'rels': []},
    # an entity named like the default many-to-many table of two earlier entities
    {'entities': [{'name': 'A', 'table': None, 'base': None, 'attrs': [{'name': 'bs', 'kind': 'Set', 'type': 'B', 'opts': {'reverse': 'as_'}}], 'ckeys': [], 'cindexes': [], 'cpk': None},
                  {'name': 'B', 'table': None, 'base': None, 'attrs': [{'name': 'as_', 'kind': 'Set', 'type': 'A', 'opts': {'reverse': 'bs'}}], 'ckeys': [], 'cindexes': [], 'cpk': None},
                  {'name': 'A_B', 'table': None, 'base': None, 'attrs': [{'name': 'v', 'kind': 'Required', 'type': 'int', 'opts': {}}], 'ckeys': [], 'cindexes': [], 'cpk': None}],
     'rels': []},
    # entity names differing only by case
    {'entities': [{'name': 'Item', 'table': None, 'base': None, 'attrs': [], 'ckeys': [], 'cindexes': [], 'cpk': None},
                  {'name': 'ITEM', 'table': None, 'base': None, 'attrs': [], 'ckeys': [], 'cindexes': [], 'cpk': None}], 'rels': []},
    # a required reference to an entity with a composite key, declared in a subclass of a single-table hierarchy
    {'entities': [{'name': 'Shelf', 'table': None, 'base': None, 'attrs': [{'name': 'room', 'kind': 'Required', 'type': 'int', 'opts': {}},
                                                                             {'name': 'pos', 'kind': 'Required', 'type': 'int', 'opts': {}},
                                                                             {'name': 'boxes', 'kind': 'Set', 'type': 'Box', 'opts': {'reverse': 'shelf'}}],
                   'ckeys': [], 'cindexes': [], 'cpk': ['room', 'pos']},
                  {'name': 'Item', 'table': None, 'base': None, 'attrs': [{'name': 'label', 'kind': 'Required', 'type': 'str', 'opts': {}}], 'ckeys': [], 'cindexes': [], 'cpk': None},
                  {'name': 'Box', 'table': None, 'base': 'Item', 'attrs': [{'name': 'shelf', 'kind': 'Required', 'type': 'Shelf', 'opts': {'reverse': 'boxes'}},
                                                                            {'name': 'weight', 'kind': 'Required', 'type': 'int', 'opts': {}}], 'ckeys': [], 'cindexes': [], 'cpk': None}],
     'rels': []},
    # cyclic foreign keys and a self reference
    {'entities': [{'name': 'A', 'table': None, 'base': None, 'attrs': [{'name': 'b', 'kind': 'Optional', 'type': 'B', 'opts': {'reverse': 'as_'}},
                                                                         {'name': 'boss', 'kind': 'Optional', 'type': 'A', 'opts': {'reverse': 'staff'}},
                                                                         {'name': 'staff', 'kind': 'Set', 'type': 'A', 'opts': {'reverse': 'boss'}},
                                                                         {'name': 'bs', 'kind': 'Set', 'type': 'B', 'opts': {'reverse': 'a'}}], 'ckeys': [], 'cindexes': [], 'cpk': None},
                  {'name': 'B', 'table': None, 'base': None, 'attrs': [{'name': 'as_', 'kind': 'Set', 'type': 'A', 'opts': {'reverse': 'b'}},
                                                                         {'name': 'a', 'kind': 'Optional', 'type': 'A', 'opts': {'reverse': 'bs'}}], 'ckeys': [], 'cindexes': [], 'cpk': None}],
     'rels': []},
]


def load_corpus():
    d = os.path.join(vlib.VERIF, 'corpus', 'C26')
    out = []
    if os.path.isdir(d):
        for f in sorted(os.listdir(d)):
            if f.endswith('.json'):
                j = json.load(open(os.path.join(d, f)))
                out.append(j.get('spec', j))
    return out


def cases_for(ctx, n_specs):
    rng = random.Random(ctx.seed * 104729 + 26)
    specs = list(CORPUS) + load_corpus()
    while len(specs) < n_specs: specs.append(gen.gen_spec(rng))
    cases, seen = [], set()
    for spec in specs:
        src = gen.source_of(spec)
        for p in gen.PROVIDERS:
            k = (p, src)
            if k in seen: continue
            seen.add(k)
            cases.append({'provider': p, 'source': src, 'spec': spec})
    return cases


_runs = {}

def run(ctx, n_specs, names=None):
    key = (n_specs, json.dumps(names, sort_keys=True) if names else None)
    if key not in _runs:
        cases = cases_for(ctx, n_specs)
        hs = histories_for(ctx, n_specs)
        res = vlib.run_impl('c26_driver.py', {'cases': cases, 'names': names or [], 'histories': hs}, timeout=1500)
        _runs[key] = (cases, res['cases'], res['names'])
        _hist[n_specs] = (hs, res['histories'])
    return _runs[key]


_hist = {}

HISTORY_CORPUS = [
    # second release adds index=True to an attribute of an existing table
    {'source_v1': 'class Person(db.Entity):\n    a0 = Required(str)\n    a1 = Optional(int)\n',
     'source_v2': 'class Person(db.Entity):\n    a0 = Required(str)\n    a1 = Optional(int, index=True)\n', 'drop': [], 'added': 1},
    # an index dropped by hand, create_tables again
    {'source_v1': 'class Person(db.Entity):\n    a0 = Required(str, index=\'ix_a0\')\n    a1 = Optional(int, index=True)\n    composite_index(a0, a1)\n',
     'source_v2': 'class Person(db.Entity):\n    a0 = Required(str, index=\'ix_a0\')\n    a1 = Optional(int, index=True)\n    composite_index(a0, a1)\n', 'drop': [0, 2], 'added': 0},
]


def histories_for(ctx, n_specs):
    rng = random.Random(ctx.seed * 7 + 2611)
    out = list(HISTORY_CORPUS)
    while len(out) < max(20, n_specs // 2): out.append(gen.gen_history(rng))
    return out


# ------------------------------------------------------------------------------------------------ Coq serialisation

DIALECT = {'sqlite': 'SQLite', 'postgres': 'PostgreSQL', 'mysql': 'MySQL', 'oracle': 'Oracle'}

def cs(s):
    return '[' + '; '.join(str(ord(c)) for c in s) + ']'
def cl(xs):
    return '[' + '; '.join(xs) + ']'
def cb(b):
    return 'true' if b else 'false'

HEADER = 'Require Import PonyV.Base.PyBase PonyV.Model.C26Schema PonyV.Model.C26Create.\nOpen Scope Z_scope.\n'


def run_bools(ctx, exprs, chunk=300):
    chunks = []
    for i in range(0, len(exprs), chunk):
        part = exprs[i:i + chunk]
        chunks.append('Definition cases : list bool := [\n' + ';\n'.join(part) + '].\nEval vm_compute in (failing cases).\n')
    outs = vlib.coq_eval_many(ctx, HEADER, chunks)
    bad = []
    for k, out in enumerate(outs):
        vals = vlib.parse_eval_outputs(out)
        assert len(vals) == 1, out[-500:]
        inner = vals[0].strip().strip('[]').strip()
        if inner:
            for tok in inner.split(';'):
                bad.append(k * chunk + int(tok.strip().replace('%nat', '')))
    return bad


def name_requests(ctx):
    rng = random.Random(ctx.seed * 31 + 2600)
    alpha = 'abcXYZ_09'
    def rs(lo=1, hi=70):
        n = rng.choice([rng.randint(lo, 8), rng.randint(lo, hi), rng.choice([29, 30, 31, 62, 63, 64, 65])])
        return ''.join(rng.choice(alpha) for _ in range(n))
    reqs = []
    for _ in range(ctx.scale(20, 400)):
        for p in gen.PROVIDERS:
            cols = [rs(1, 12) for _ in range(rng.randint(1, 3))]
            reqs.append({'provider': p, 'fn': 'normalize_name', 'args': [rs()]})
            reqs.append({'provider': p, 'fn': 'entity_table', 'args': [rs()]})
            reqs.append({'provider': p, 'fn': 'm2m_table', 'args': [rs(1, 40), rs(1, 40), rs(1, 10), rng.random() < 0.3]})
            reqs.append({'provider': p, 'fn': 'column_names', 'args': [rs(1, 40), rng.choice([None, cols[:1], cols])]})
            reqs.append({'provider': p, 'fn': 'm2m_column_names', 'args': [rs(1, 40), rng.choice([cols[:1], cols])]})
            reqs.append({'provider': p, 'fn': 'index_name', 'args': [rs(1, 40), cols, rng.random() < 0.2, rng.random() < 0.4, rng.random() < 0.2]})
            reqs.append({'provider': p, 'fn': 'fk_name', 'args': [rs(1, 40), rs(1, 10), cols]})
    return reqs


def name_expr(req, got):
    d = DIALECT[req['provider']]
    fn, a = req['fn'], req['args']
    if isinstance(got, dict): return None
    if fn == 'normalize_name': return 'str_eqb (normalize %s %s) %s' % (d, cs(a[0]), cs(got))
    if fn == 'entity_table': return 'str_eqb (default_entity_table %s %s) %s' % (d, cs(a[0]), cs(got))
    if fn == 'm2m_table':
        second = a[2] if a[3] else a[1]
        return 'str_eqb (default_m2m_table %s %s %s) %s' % (d, cs(a[0]), cs(second), cs(got))
    if fn == 'column_names':
        rp = 'None' if a[1] is None else '(Some %s)' % cl([cs(c) for c in a[1]])
        return 'strs_eqb (default_column_names %s %s %s) %s' % (d, cs(a[0]), rp, cl([cs(c) for c in got]))
    if fn == 'm2m_column_names':
        return 'strs_eqb (default_m2m_column_names %s %s %s) %s' % (d, cs(a[0]), cl([cs(c) for c in a[1]]), cl([cs(c) for c in got]))
    if fn == 'index_name':
        return 'str_eqb (default_index_name %s %s %s %s %s %s) %s' % (d, cs(a[0]), cl([cs(c) for c in a[1]]), cb(a[2]), cb(a[3]), cb(a[4]), cs(got))
    if fn == 'fk_name':
        return 'str_eqb (default_fk_name %s %s %s) %s' % (d, cs(a[0]), cl([cs(c) for c in a[2]]), cs(got))
    raise ValueError(fn)


def schema_exprs(case, o):
    """Coq booleans tying one accepted real schema to the model."""
    d = DIALECT[case['provider']]
    ex = gen.explicit_names(case['spec'])
    out = []
    tables = o['tables']
    if not all(gen.is_ascii(n) for n in o['names']): return out
    # order_tables_to_create
    names = sorted(tables)
    ix = {n: i for i, n in enumerate(names)}
    tl = cl(['(mktbl %d%%nat %s)' % (ix[n], cl(['%d%%nat' % ix[p] for p in tables[n]['parents']])) for n in names])
    out.append(('order', 'nats_eqb (map tid (order_tables %s)) %s' % (tl, cl(['%d%%nat' % ix[n] for n in o['order']]))))
    # default index / fk names
    for tn, t in tables.items():
        for name, cols, is_pk, is_unique in t['indexes']:
            if name is None or name in ex: continue
            m2m = t['m2m'] and not is_unique and not is_pk
            out.append(('index_name', 'str_eqb (default_index_name %s %s %s %s %s %s) %s' % (d, cs(tn), cl([cs(c) for c in cols]), cb(is_pk), cb(is_unique), cb(m2m), cs(name))))
        for name, cols, parent, pcols, on_delete in t['fks']:
            if name is None or name in ex: continue
            out.append(('fk_name', 'str_eqb (default_fk_name %s %s %s) %s' % (d, cs(tn), cl([cs(c) for c in cols]), cs(name))))
    # registry replay
    ops = []
    for n in o['names_in_order'] if 'names_in_order' in o else []:
        pass
    # columns of every entity table (a hierarchy shares one table: entities in definition order, each adding the attributes it declares)
    by_table = {}
    for en, er in o.get('attrs', {}).items():
        by_table.setdefault(er['table'], []).append((en, er))
    for tn, ents in by_table.items():
        t = tables.get(tn)
        if t is None or t['m2m'] or sorted(e for e, _ in ents) != t['entities']: continue
        roots = {er['root'] for _, er in ents}
        if len(roots) != 1: continue
        attrs = []
        for en, er in ents:
            for an, ar in er['attrs'].items():
                if ar.get('collection') or not ar['columns'] or ar['declared_in'] != en: continue
                attrs.append('(mkattr %s %s)' % (cl([cs(c) for c in ar['columns']]), cb(ar['nullable'])))
        cols = cl(['(%s, %s)' % (cs(c[0]), cb(c[2])) for c in t['columns']])
        out.append(('columns', 'opt_cols_eqb (build_columns %s) %s' % (cl(attrs), cols)))
    # the registry accepts exactly these names, pairwise distinct
    regops = cl(['(AddTable %s)' % cs(n) if n in tables else '(AddConstraint (Some %s))' % cs(n) for n in o['names']])
    out.append(('registry', 'match build empty_reg %s with Some r => Nat.eqb (length (r_names r)) %d | None => false end' % (regops, len(o['names']))))
    return out


def correspondence(ctx):
    reqs = name_requests(ctx)
    cases, res, names = run(ctx, ctx.scale(80, 1500), reqs)
    exprs, meta, disagreements = [], [], []
    dist = {'naming_function_calls': 0, 'order': 0, 'index_name': 0, 'fk_name': 0, 'columns': 0, 'registry': 0, 'accepted_schemas': 0}
    nontrivial = set()
    for r, got in zip(reqs, names):
        e = name_expr(r, got)
        if e is None:
            disagreements.append({'what': 'naming function raised', 'input': r, 'impl': got}); continue
        exprs.append(e); meta.append(('naming', r, got)); dist['naming_function_calls'] += 1
        nontrivial.add(json.dumps(r, sort_keys=True))
    for c, o in zip(cases, res):
        if o['outcome'] != 'ok': continue
        dist['accepted_schemas'] += 1
        for kind, e in schema_exprs(c, o):
            exprs.append(e); meta.append((kind, {'provider': c['provider'], 'source': c['source']}, o.get('order'))); dist[kind] += 1
    # create_tables on a database that already holds some of the objects: model = function of the set of existing object names
    hs, hres = _hist[ctx.scale(80, 1500)]
    dist['create_tables_histories'] = 0; dist['create_tables_histories_creating_objects'] = 0
    for h, o in zip(hs, hres):
        if o['outcome'] != 'ok': continue
        ids = {}
        def oid(n): return ids.setdefault(n.lower(), len(ids))
        lists = cl([cl(['%d%%nat' % oid(n) for _, n in objs]) for objs in o['object_lists']])
        before = cl(['%d%%nat' % oid(n) for n in o['before']])
        after = cl(['%d%%nat' % oid(n) for n in o['after']])
        exprs.append('opt_same_set (create_tables (fun _ => false) %s %s) %s' % (lists, before, after))
        meta.append(('create_tables', {'history': h}, {'before': o['before'], 'after': o['after'], 'object_lists': o['object_lists']}))
        dist['create_tables_histories'] += 1
        if set(o['after']) - set(o['before']): dist['create_tables_histories_creating_objects'] += 1; nontrivial.add(json.dumps(h, sort_keys=True))
    bad = run_bools(ctx, exprs)
    for i in bad[:20]:
        kind, inp, impl = meta[i]
        disagreements.append({'what': 'model and implementation differ (%s)' % kind, 'input': inp, 'impl': impl, 'coq_case': exprs[i][:1200]})
    return Corr(cases=len(exprs), nontrivial=len(nontrivial), disagreements=disagreements, distribution=dist,
                samples=[{'coq_case': exprs[0]}, {'coq_case': exprs[-1][:800]}],
                note='every case is a boolean computed by vm_compute inside Coq from the model and the serialised implementation output')


# ------------------------------------------------------------------------------------------------ search

def search(ctx, deep):
    reqs = name_requests(ctx)
    n = ctx.scale(80, 1500) if not deep else 1500
    cases, res, _ = run(ctx, n, reqs if n == ctx.scale(80, 1500) else None)
    failures, seen, nontriv = {}, {}, set()
    dist = {'outcomes': {}}
    for c, o in zip(cases, res):
        k = '%s:%s' % (c['provider'], o['outcome'])
        dist['outcomes'][k] = dist['outcomes'].get(k, 0) + 1
        if o['outcome'] == 'ok' and (len(o['tables']) >= 2 or c['spec']['rels']): nontriv.add((c['provider'], c['source']))
        for key, what in gen.judge(c, o):
            seen[key] = seen.get(key, 0) + 1
            if key not in failures or len(c['source']) < len(failures[key].data['source']):
                failures[key] = Failure(key, '%s: %s  [diagram:\n%s]' % (c['provider'], what, c['source'][:600]),
                                        {'provider': c['provider'], 'source': c['source'], 'spec': c['spec']})
    hs, hres = _hist[n]
    dist['histories'] = len(hs)
    for h, o in zip(hs, hres):
        k = 'history:%s' % o['outcome']
        dist['outcomes'][k] = dist['outcomes'].get(k, 0) + 1
        if o['outcome'] == 'ok' and set(o['after']) - set(o['before']): nontriv.add(('history', h['source_v2'], tuple(h['drop'])))
        for key, what in gen.judge_history(h, o):
            seen[key] = seen.get(key, 0) + 1
            if key not in failures or len(json.dumps(h)) < len(json.dumps(failures[key].data.get('history', h))) :
                failures[key] = Failure(key, 'sqlite file, create with v1 then generate_mapping(create_tables=True) with v2 (dropped before: %r): %s  [v2:\n%s]' % (
                    o.get('dropped'), what, h['source_v2'][:500]), {'history': h, 'key': key})
    dist['failing_cases_by_key'] = seen
    return Search(evaluations=len(cases) + len(hs), failures=list(failures.values()), nontrivial=len(nontriv), distribution=dist,
                  samples=[{'provider': cases[-1]['provider'], 'source': cases[-1]['source']}])


_replayed = {}

def replay(ctx, data):
    if 'history' in data:
        o = vlib.run_impl('c26_driver.py', {'histories': [data['history']]}, timeout=300)['histories'][0]
        for key, w in gen.judge_history(data['history'], o):
            if data.get('key') is None or key == data['key']: return Failure(key, w, data)
        return None
    case = {'provider': data['provider'], 'source': data['source'], 'spec': data['spec']}
    k = (data['provider'], data['source'])
    if k not in _replayed:
        # the first call runs every stored replay of the known findings in one interpreter (one start-up instead of nine)
        batch = [case]
        for f in vlib.known_for(ID):
            r = f.get('replay') or {}
            if 'source' in r and (r['provider'], r['source']) != k:
                batch.append({'provider': r['provider'], 'source': r['source'], 'spec': r['spec']})
        res = vlib.run_impl('c26_driver.py', {'cases': batch}, timeout=300)['cases']
        for c, o in zip(batch, res): _replayed[(c['provider'], c['source'])] = o
    o = _replayed[k]
    want = data.get('key')
    js = gen.judge(case, o)
    if not js: return None
    for key, w in js:
        if want is None or key == want: return Failure(key, w, data)
    return None


LEVEL_TEXT = ('Machine-checked proof (Coq 8.16.1) over a hand-written model of Pony\'s schema naming and ordering: every accepted schema has pairwise distinct '
              'object names (registry invariant by induction over the registrations) and every name produced by a default-name function is within the '
              'dialect\'s max_name_len, for all dialects and all ASCII entity / attribute / column names (C26_names, C26_normalize); '
              'order_tables_to_create returns a permutation and, when the foreign-key graph is acyclic, puts every table after its parents (C26_order, '
              'C26_order_parents_first); Column registration yields one column per mapped attribute column with the declared nullability (C26_columns); '
              'create_tables over a database holding any subset of the declared objects leaves all of them existing (C26_create_tables). '
              'One default name (sequence suffix of a repeated many-to-many table) is refuted. Tied to the implementation by vm_compute correspondence on '
              'four providers and by catalog introspection of the schemas SQLite actually creates.')
LEVEL_NOTE = ('The model covers naming, the registry, column registration and table ordering, not the whole of generate_mapping (which attribute gets which '
              'column is observed, not proved). PostgreSQL/MySQL/Oracle DDL is generated through the pool mock-up and never executed: only SQLite executes DDL. '
              'Case mapping is ASCII-only in the model.')
TECHNIQUE = 'Coq proof (registry invariant, permutation + rank argument for ordering) over a hand model; vm_compute correspondence; random diagrams with SQLite catalog introspection'
DESIGN_REF = 'DESIGN.md section 5, C26'
