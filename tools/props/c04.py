"""C04 - Outer-scope expressions inside a query are evaluated exactly as Python would (ast2src round trip)."""
import ast, copy, json, re, warnings
import vlib
from vlib import Corr, Search, Failure
import c04_gen as G
from py2coq import priority

warnings.filterwarnings('ignore', category=SyntaxWarning)

ID = 'C04'
LEVEL = 'proof'
PROPS = ['Props/C04.v', 'Findings/C04.v']
GEN = [('Gen/Priority.v', priority.generate)]
TRUSTED = [
    'py2coq scanner tools/py2coq/priority.py: the @priority(k) table, the `>=` rule of the decorator, the helpers receiver_src / joinedstr_body / formattedvalue_src and the '
    'layout of every post<Node> method of PythonTranslator are re-read from /repo on every run (bodies before and after the repairs 2e38fbd / 18f54e0 are recognised; any other '
    'change refuses to generate the model); its output is cross-checked by exact '
    'text equality of the model printer with the real ast2src on every generated tree',
    'hand-written printer model Model/C04Expr.v (layouts, token texts) tied to the real ast2src by that text equality (Tie B, vm_compute booleans)',
    'REFERENCE SEMANTICS, hand-written: Python\'s expression grammar as level tables prec/req and as the parser Model/C04Parse.v; validated on every run '
    'against CPython 3.12 ast.parse: (a) text of the reference printer and of the all-parentheses printer on every (parent, position, child) triple and on random '
    'deep trees parses back to the tree, also with random redundant parentheses; (b) the model parser agrees with ast.parse on the *wrongly* parenthesised '
    'output of the real printer (same tree or SyntaxError/None)',
    'Python mirrors of the Coq tables (tools/c04_gen.py) are compared entry by entry with the Coq definitions inside Coq on every run',
    'tokens are the unit of the parser model: lexing (e.g. `1.real`, nested quotes inside f-strings) is outside the model',
    'hand-written model Model/C04Ext.v of PreTranslator (external / constant marking, contexts of for-clause targets, lambda parameters and subquery targets, final pass) and of '
    'the extractor keys, tied on every run node for node to the real PreTranslator / create_extractors on generated query bodies (tools/c04_ext.py); the callee classification of '
    'postCall (an eval() of the dotted name in the caller\'s scope) is an oracle argument of the model',
    'REFERENCE SEMANTICS, hand-written: Model/C04Eval.v (integers, strings, tuples), validated against CPython on typed random trees on every run',
    'search oracles: eval(compile(tree)) vs eval(compile(ast2src(tree))) over recording values (tools/c04_eval.py); the marking property checked on the real PreTranslator; real '
    'extract_vars keys / values over integer scopes with closure cells; end-to-end route on in-memory SQLite (string and generator queries, the decompiler factored out); '
    'repeated execution of the same query code with changing outer values (warm translator cache) against a cold execution of the same query',
]
ASSUMPTIONS = [
    'trees are those ast.parse produces for the supported node kinds (36 kinds incl. conditional, lambda with positional parameters, calls with */** and keywords, '
    'subscripts with slices and index tuples, displays, f-strings with conversions and literal format specs); a negative numeric constant (only produced by '
    'constant folding) is covered by the table theorem and the search but not by the parser theorem (its reparse is a UnaryOp node)',
    'set/dict displays and generator expressions are in the marking model only (not printable by the printer / parser model); list/set/dict comprehensions, await/yield, walrus, '
    'matrix multiplication, lambda defaults and keyword-only parameters, nested format specs are outside the Coq model (see notes/C04.md)',
    'C04_print_parse is stated with existential fuel: for all sufficiently large fuel the parser returns the tree; C04_print_parse_unique: no fuel gives another tree',
    'C04_bound_value is stated for the value fragment of Model/C04Eval.v (integers, strings, tuples; names, literals, + - *, unary -, not, and/or, comparison chains, conditional, '
    'indexing) and for an external that is itself well-formed for the printer; the query body only needs the shape mwf',
    'extractors_cache (the marking of a code key is computed once, with the callee classification of the first call) and the normalisation of values in extract_vars are outside the model',
]
RULE = ('exhaustive: every allowed (parent kind, position class, child kind) triple in several contexts (first / middle / last operand); random: seeded deep trees '
        '(depth 1-5) over all node kinds; per tree one Coq term with a code per tie (text equality with ast2src, model parser vs ast.parse, reference text vs mirror, wf); '
        'query bodies `(p for p in P for q in Q if <tree>)` over trees with query variables, special / const calls, dict / set displays and subqueries: external set and extractor '
        'texts model vs real; typed trees for the evaluation semantics vs CPython. '
        'non-trivial = the tree contains a triple at which the grammar requires parentheses, or an f-string with spec/brace/conversion; distinct = distinct canonical trees')

HEADER = ('From Coq Require Import ZArith List Bool Arith.\nImport ListNotations.\n'
          'Require Import PonyV.Model.C04Expr PonyV.Model.C04Parse PonyV.Model.C04FStr PonyV.Model.C04Ext PonyV.Model.C04Eval PonyV.Gen.Priority.\n'
          'Open Scope Z_scope.\n'
          'Definition bools_eqb := list_eqb Bool.eqb.\nDefinition nats_eqb := list_eqb Nat.eqb.\n'
          'Definition fpart_eqb (a b : fpart) : bool := match a, b with FLit x, FLit y => str_eqb x y '
          '| FField s1 c1 p1, FField s2 c2 p2 => str_eqb s1 s2 && opt_eqb Z.eqb c1 c2 && opt_eqb str_eqb p1 p2 | _, _ => false end.\n'
          'Definition bit (b : bool) (n : nat) : nat := if b then 0%nat else n.\n'
          '(* all ties of one tree in one term (the tree literal is written once); the result is the sum of the codes of the ties that fail *)\n'
          'Definition tcase (t : expr) (real : str) (exp : option (option expr)) (reft fullt : option str) (wfx : option bool) (selfparse : bool) : nat :=\n'
          '  (bit (str_eqb (render pony_escape_braces (print pony_style t)) real) 1\n'
          '  + match exp with Some e => bit (opt_eqb expr_eqb (parse_auto (print pony_style t)) e) 2 | None => 0 end\n'
          '  + match reft with Some r => bit (str_eqb (render true (print ref_style t)) r) 4 | None => 0 end\n'
          '  + match fullt with Some r => bit (str_eqb (render true (print full_style t)) r) 8 | None => 0 end\n'
          '  + match wfx with Some w => bit (Bool.eqb (wf t) w) 16 | None => 0 end\n'
          '  + (if selfparse then bit (opt_eqb expr_eqb (parse_auto (print ref_style t)) (Some t)) 32 else 0))%nat.\n'
          'Definition path_eqb := list_eqb Nat.eqb.\nDefinition psub (a b : list path) := forallb (fun p => existsb (path_eqb p) b) a.\n'
          'Definition pset_eqb (a b : list path) := psub a b && psub b a.\n'
          'Definition srcs_eqb (m : list (option str)) (r : list str) : bool := forallb (fun o => match o with Some s => existsb (str_eqb s) r | None => false end) m\n'
          '  && forallb (fun s => existsb (fun o => match o with Some s1 => str_eqb s s1 | None => false end) m) r.\n'
          '(* the marking of one query body: external paths and extractor texts of the model vs the real PreTranslator / create_extractors *)\n'
          'Definition ecase (fc : list str -> callclass) (ctx : list str) (t : expr) (paths : list path) (srcs : list str) : nat :=\n'
          '  (bit (pset_eqb (externals fc ctx t) paths) 1 + bit (srcs_eqb (ext_srcs pony_style pony_escape_braces fc ctx t) srcs) 2)%nat.\n'
          'Definition nonzero (l : list nat) : list (nat * nat) := filter (fun p => negb (Nat.eqb (snd p) 0)) (combine (seq 0 (length l)) l).\n')

LEXICAL = re.compile(r'\d\.[A-Za-z_]')


def run_codes(ctx, exprs, chunk=400):
    """exprs: Coq terms of type nat (0 = every tie of the case holds). Returns [(index, code)] of the non-zero ones."""
    chunks = []
    for i in range(0, len(exprs), chunk):
        chunks.append('Definition cases : list nat := [\n' + ';\n'.join(exprs[i:i + chunk]) + '].\nEval vm_compute in (nonzero cases).\n')
    outs = vlib.coq_eval_many(ctx, HEADER, chunks)
    bad = []
    for k, out in enumerate(outs):
        vals = vlib.parse_eval_outputs(out)
        assert len(vals) == 1, out[-500:]
        for m in re.finditer(r'\((\d+)(?:%nat)?\s*,\s*(\d+)(?:%nat)?\)', vals[0]):
            bad.append((k * chunk + int(m.group(1)), int(m.group(2))))
    return bad


_tbl = {}

# the rule of the code as of 18f54e0; used ONLY to label failing inputs when the scanner refuses the current source (the oracle itself never uses it)
BASELINE_TABLE = {'bare_formatted_is_operand': False,
 'cmp': '>=',
 'default': 0,
 'escape': True,
 'keep_spec': True,
 'kind_ok': {'Add': True,
             'And': True,
             'Attribute': True,
             'BitAnd': True,
             'BitOr': True,
             'BitXor': True,
             'Call': True,
             'Compare': True,
             'Const': True,
             'Div': True,
             'FloorDiv': True,
             'Formatted': True,
             'IdxTuple': True,
             'IfExp': True,
             'Invert': True,
             'Joined': True,
             'Keyword': True,
             'LShift': True,
             'Lambda': True,
             'List': True,
             'Mod': True,
             'Mult': True,
             'Name': True,
             'NegConst': True,
             'Not': True,
             'Or': True,
             'Pow': True,
             'RShift': True,
             'Slice': True,
             'StarArg': True,
             'StarElt': True,
             'Sub': True,
             'Subscript': True,
             'Tuple': True,
             'UAdd': True,
             'USub': True},
 'own': {'Add': 6,
         'And': 13,
         'Attribute': 2,
         'BitAnd': 8,
         'BitOr': 10,
         'BitXor': 9,
         'Call': 2,
         'Compare': 11,
         'Const': 1,
         'Div': 5,
         'FloorDiv': 5,
         'Formatted': 0,
         'IdxTuple': 1,
         'IfExp': 15,
         'Invert': 4,
         'Joined': 0,
         'Keyword': 0,
         'LShift': 7,
         'Lambda': 16,
         'List': 1,
         'Mod': 5,
         'Mult': 5,
         'Name': 1,
         'NegConst': 4,
         'Not': 12,
         'Or': 14,
         'Pow': 3,
         'RShift': 7,
         'Slice': 0,
         'StarArg': 11,
         'StarElt': 11,
         'Sub': 6,
         'Subscript': 2,
         'Tuple': 1,
         'UAdd': 4,
         'USub': 4},
 'receiver': {'Attribute': True, 'Call': True, 'Subscript': True},
 'receiver_threshold': 2,
 'short_idx': True,
 'threshold': {'Add': 6,
               'And': 13,
               'Attribute': None,
               'BitAnd': 8,
               'BitOr': 10,
               'BitXor': 9,
               'Call': None,
               'Compare': 11,
               'Const': None,
               'Div': 5,
               'FloorDiv': 5,
               'Formatted': None,
               'IdxTuple': None,
               'IfExp': 15,
               'Invert': 4,
               'Joined': None,
               'Keyword': None,
               'LShift': 7,
               'Lambda': 16,
               'List': None,
               'Mod': 5,
               'Mult': 5,
               'Name': None,
               'NegConst': None,
               'Not': 12,
               'Or': 14,
               'Pow': 3,
               'RShift': 7,
               'Slice': None,
               'StarArg': 11,
               'StarElt': 11,
               'Sub': 6,
               'Subscript': None,
               'Tuple': None,
               'UAdd': 4,
               'USub': 4}}

def tables():
    if 'tbl' not in _tbl:
        try:
            _tbl['tbl'] = priority.scan()
        except vlib.TranslateError:
            _tbl['tbl'] = dict(BASELINE_TABLE, scan_failed=True)
        _tbl['pony'] = priority.pony_needs_fn(_tbl['tbl'])
    return _tbl['tbl'], _tbl['pony']


# ------------------------------------------------------------------------------------------------ classification of failing trees

def triple_key(p, i, c):
    if p in ('Attribute', 'Call', 'Subscript') and i == 0: return 'receiver-never-parenthesised:%s' % p
    if c == 'IfExp': return 'conditional-expression-never-parenthesised'
    if c == 'Lambda': return 'lambda-never-parenthesised'
    if (p, i, c) == ('Pow', 0, 'NegConst'): return 'negative-constant-as-power-base'
    if p == 'StarElt': return 'starred-element-operand-never-parenthesised'
    return 'paren-missing:%s.%d<-%s' % (p, i, c)


def defects(t):
    """keys of every way this tree leaves the fragment the real printer handles faithfully"""
    tbl, pony = tables()
    out = set()
    def go(t):
        k, d, cs = t
        for i, c in enumerate(cs):
            q = G.pos_of(k, i)
            if G.ref_needs(k, q, c[0]) and not pony(k, q, c[0]): out.add(triple_key(k, q, c[0]))
            go(c)
        if k == 'Formatted' and d[1] is not None and not tbl['keep_spec']: out.add('fstring-format-spec-dropped')
        if k == 'Joined' and any('{' in x or '}' in x for x in d) and not tbl['escape']: out.add('fstring-literal-brace-not-escaped')
        if k == 'IdxTuple' and len(cs) == 1 and not tbl.get('short_idx'): out.add('subscript-tuple-of-one-loses-comma')
        if k == 'IdxTuple' and len(cs) == 0 and not tbl.get('short_idx'): out.add('subscript-empty-tuple-syntax-error')
        if not tbl['kind_ok'].get(k, True): out.add('%s-operator-attribute-error' % k.lower())
    go(t)
    return out


def subtrees(t):
    """proper subtrees that are expressions (items are looked through)"""
    for c in t[2]:
        if G.expr_kind(c[0]): yield c
        else:
            for x in subtrees(c): yield x


def shrink(t, fails):
    """smallest failing subtree along one path (every child expression of the result passes)"""
    cur = t
    while True:
        nxt = None
        for c in subtrees(cur):
            if fails(c): nxt = c; break
        if nxt is None: return cur
        cur = nxt


def signature(t, depth=2):
    if depth == 0: return t[0]
    return t[0] + ('(' + ','.join(signature(c, depth - 1) for c in t[2]) + ')' if t[2] else '')


def failures_for(t, res, route):
    """Failure objects (one per defect key) for a tree on which the property failed with result `res`."""
    ds = sorted(defects(t))
    try: text = ast.unparse(G.to_ast(t))
    except Exception: text = G.render(G.print_tokens(t, G.ref_needs, keep_spec=True), True)
    if res.get('kind') == 'meaning-changed':
        g_, w_ = res['got'], res['want']
        if g_[1] == w_[1]:
            how = 'is regenerated as %r and evaluates differently: truth tests %s instead of %s (value %s)' % (res['src'], list(g_[2])[:4], list(w_[2])[:4], w_[1][:40])
        else:
            how = 'is regenerated as %r and evaluates differently: %s instead of %s' % (res['src'], g_[1][:80], w_[1][:80])
    elif res.get('kind') == 'source-does-not-compile':
        how = 'is regenerated as %r, which is not Python (SyntaxError)' % res['src']
    elif res.get('kind') == 'ast2src-raises':
        how = 'cannot be regenerated: ast2src raises %s' % res['exc']
    elif res.get('kind') == 'parameter-value-differs':
        how = 'inside a query is bound as %s, Python computes %s' % (res['params'], res['want'])
    elif res.get('kind') == 'query-raises':
        how = 'inside a query raises %s: %s' % (res['exc'], res['msg'][:100])
    else:
        how = json.dumps(res, default=str)[:200]
    if not ds: ds = ['unexplained:%s:%s' % (route if route != 'ast2src' else 'tree', signature(t))]
    return [Failure(k, '%s: `%s` %s' % (route, text, how), {'tree': t, 'route': route}) for k in ds]


# ------------------------------------------------------------------------------------------------ correspondence

def table_cases():
    tbl, pony = tables()
    exprs, meta = [], []
    b = lambda x: 'true' if x else 'false'
    for p in G.KINDS:
        triples = [(i, c) for i in range(3) for c in G.KINDS]
        for name, fn in (('ref_needs', G.ref_needs), ('allowed', G.allowed), ('pony_needs', pony)):
            exprs.append('bools_eqb [%s] [%s]' % ('; '.join('%s K%s %d K%s' % (name, p, i, c) for i, c in triples), '; '.join(b(fn(p, i, c)) for i, c in triples)))
            meta.append(('table:%s' % name, p, None))
        exprs.append('nats_eqb [prec K%s; npos K%s; req K%s 0; req K%s 1; req K%s 2; pos_of K%s 0; pos_of K%s 1; pos_of K%s 2; pos_of K%s 5]%%nat [%s]%%nat' % (
            (p,) * 9 + ('; '.join(str(x) for x in [G.PREC[p], G.npos(p)] + [G.req(p, i) for i in range(3)]
                                  + [G.pos_of(p, 0), G.pos_of(p, 1), G.pos_of(p, 2), G.pos_of(p, 5)]),)))
        meta.append(('table:levels', p, None))
    exprs.append('bools_eqb [pony_keep_spec; pony_escape_braces; pony_short_idx; pony_bare_formatted_is_operand] [%s; %s; %s; %s]' % (
        b(tbl['keep_spec']), b(tbl['escape']), b(tbl['short_idx']), b(tbl['bare_formatted_is_operand']))); meta.append(('table:flags', None, None))
    exprs.append('bools_eqb [%s] [%s]' % ('; '.join('pony_kind_ok K%s' % k for k in G.KINDS), '; '.join(b(tbl['kind_ok'].get(k, True)) for k in G.KINDS)))
    meta.append(('table:kind_ok', None, None))
    return exprs, meta


def corr_trees(ctx):
    tbl, pony = tables()
    trees, seen = [], set()
    def add(t, origin):
        j = G.tree_json(t)
        if j in seen: return
        seen.add(j); trees.append((t, origin))
    for p in G.KINDS:
        for i in range(3):
            for c in G.KINDS:
                if not G.allowed(p, i, c) or 'Other' in (p, c): continue
                child = G.minimal(c)
                if c == 'Const' and i == 0 and p in ('Attribute', 'Call', 'Subscript'): child = ('Const', "'s'", [])     # not an integer literal (lexical)
                for t in G.variants_for(p, i, child):
                    if G.wf(t, parse_model=False): add(t, 'triple')
    n = ctx.scale(500, 4500)
    g = G.Gen(ctx.rng, negconst=True, invert=tbl['kind_ok']['Invert'], short_idx=tbl['short_idx'], braces=True, specs=True)
    for _ in range(n):
        t = g.expr(ctx.rng.choice([1, 2, 2, 3, 3, 4, 5]))
        if G.wf(t, parse_model=False): add(t, 'random')
    g2 = G.Gen(ctx.rng, negconst=False, invert=tbl['kind_ok']['Invert'], short_idx=True, braces=False, specs=False)
    for _ in range(n // 10):
        t = g2.expr(ctx.rng.choice([2, 3]))
        if G.wf(t, parse_model=False): add(t, 'random-short-index')
    return trees


def cpy_parse(text):
    try:
        return ast.parse(text, mode='eval').body
    except SyntaxError:
        return None


def nontrivial_tree(t):
    if any(G.ref_needs(p, i, c) for p, i, c in G.triples_in(t)): return True
    return G.has_kind(t, {'Formatted'})


CODES = {1: 'text of the model printer (code style) differs from the real ast2src', 2: 'model parser and CPython read the real output differently',
         4: 'reference printer text differs from its Python mirror', 8: 'all-parentheses printer text differs from its Python mirror',
         16: 'Coq wf differs from its Python mirror', 32: 'model parser does not read the reference text back as the tree'}


def correspondence(ctx):
    import c04_eval as E
    tbl, pony = tables()
    texprs, tmeta = table_cases()
    exprs = ['bit (%s) 1' % e for e in texprs]
    meta = list(tmeta)
    ncases = len(exprs)
    dist = {'table_cases': len(exprs), 'tieB_text': 0, 'parser_vs_cpython_on_real_output': 0, 'reference_text_vs_mirror': 0, 'cpython_reparse_reference': 0,
            'cpython_reparse_all_parentheses': 0, 'cpython_reparse_random_extra_parentheses': 0, 'model_parse_reference': 0, 'wf_mirror': 0,
            'fstring_char_level': 0, 'skipped_lexical': 0, 'trees_triple_contexts': 0, 'trees_random': 0, 'depth_max': 0, 'real_printer_wrong_text': 0}
    disagreements, samples, nontrivial = [], [], set()
    all_needs = lambda p, i, c: G.expr_kind(c)
    some = lambda x: 'None' if x is None else '(Some %s)' % x
    first_tree_case = None
    for t, origin in corr_trees(ctx):
        if any(not tbl['kind_ok'].get(k, True) for k in G.kinds_in(t)):
            dist['skipped_unprintable_kind'] = dist.get('skipped_unprintable_kind', 0) + 1     # ~x: the code raises, nothing to compare (search reports it)
            continue
        T = G.coq_expr(t)
        dist['trees_triple_contexts' if origin == 'triple' else 'trees_random'] += 1
        dist['depth_max'] = max(dist['depth_max'], G.depth(t))
        if nontrivial_tree(t): nontrivial.add(G.tree_json(t))
        node = G.to_ast(t)
        want_dump = G.dump_norm(node)
        # Tie B: the model printer in the code's style gives exactly the text of the real ast2src
        try:
            real = E.real_src(node)
        except Exception as e:
            disagreements.append({'what': 'real ast2src raised on a tree of a printable kind', 'input': t, 'impl': '%s: %s' % (type(e).__name__, e)})
            continue
        dist['tieB_text'] += 1; ncases += 1
        mirror = G.render(G.print_tokens(t, pony, keep_spec=tbl['keep_spec'], short_idx=tbl['short_idx']), tbl['escape'])
        if mirror != real:
            disagreements.append({'what': 'Python mirror of the printer differs from the real ast2src', 'input': t, 'impl': real, 'model': mirror})
        if len(samples) < 4 and origin == 'random' and G.depth(t) >= 3: samples.append({'tree': t, 'ast2src': real})
        has_neg = G.has_kind(t, {'NegConst'})
        short_idx = _has_short_idx(t) and not tbl['short_idx']      # only a code that prints x[a,] as x[a] leaves the model's fragment here
        # the model parser reads the real output the way CPython does (also where the output is wrong)
        back = cpy_parse(real)
        if back is None or G.dump_norm(back) != want_dump: dist['real_printer_wrong_text'] += 1
        braces = not tbl['escape'] and _has_brace_lit(t)      # the token model keeps literal segments opaque: unescaped braces are a text-level matter (C04_fstring)
        if braces: dist['skipped_brace_text'] = dist.get('skipped_brace_text', 0) + 1
        exp = None
        # (index tuples of length < 2 are outside wf: their text `x[(..)]` is read by CPython as an index tuple again, the model parser keeps the display)
        if not has_neg and not braces and not short_idx:
            if back is None and LEXICAL.search(real):
                dist['skipped_lexical'] += 1
            else:
                try:
                    exp = 'None' if back is None else '(Some %s)' % G.coq_expr(G.from_ast(back))
                    dist['parser_vs_cpython_on_real_output'] += 1; ncases += 1
                except G.Unmodelled:
                    exp = None
        reft = fullt = wfx = None
        selfparse = False
        if short_idx:
            dist['skipped_short_index'] = dist.get('skipped_short_index', 0) + 1
        else:
            # reference printer: CPython reads its text back as the tree; so it does with redundant parentheses
            reft = G.render(G.print_tokens(t, G.ref_needs), True)
            fullt = G.render(G.print_tokens(t, all_needs), True)
            extrat = G.render(G.print_tokens(t, G.ref_needs, extra=lambda path: ctx.rng.choice([0, 0, 0, 1, 2])), True)
            for name, text in (('reference', reft), ('all_parentheses', fullt), ('random_extra_parentheses', extrat)):
                b2 = cpy_parse(text)
                dist['cpython_reparse_' + name] += 1; ncases += 1
                if b2 is None or G.dump_norm(b2) != want_dump:
                    disagreements.append({'what': 'CPython does not read the %s text back as the tree (reference rule wrong?)' % name, 'input': t, 'impl': text})
            dist['reference_text_vs_mirror'] += 2; ncases += 2
            wfx = False if has_neg else G.wf(t)
            dist['wf_mirror'] += 1; ncases += 1
            if wfx and origin != 'triple':
                selfparse = True; dist['model_parse_reference'] += 1; ncases += 1
        if first_tree_case is None: first_tree_case = len(exprs)
        exprs.append('tcase %s %s %s %s %s %s %s' % (T, G.cstr(real), some(exp), some(reft and G.cstr(reft)), some(fullt and G.cstr(fullt)),
                                                    some(None if wfx is None else ('true' if wfx else 'false')), 'true' if selfparse else 'false'))
        meta.append(('tree', t, real))

    # f-string bodies, character level: Coq print_f/parse_f vs CPython
    for v in fstring_values(ctx):
        body = fbody(v, True, True)
        cv = coq_fparts(v)
        parts = ['bit (str_eqb (print_f true true %s) %s) 1' % (cv, G.cstr(body))]
        got = cpy_fstring(body)
        if got != v:
            disagreements.append({'what': 'CPython reads the f-string body differently from the value it was printed from', 'input': v, 'impl': got, 'text': body})
        parts.append('bit (opt_eqb (list_eqb fpart_eqb) (parse_f %s) (Some %s)) 2' % (G.cstr(body), cv))
        loose = fbody(v, tbl['escape'], tbl['keep_spec'])
        got2 = cpy_fstring(loose)
        if got2 is not None and got2 != 'nested':      # (where CPython rejects the text because a would-be field is not an expression, the model, whose field sources are opaque, has no opinion)
            parts.append('bit (opt_eqb (list_eqb fpart_eqb) (parse_f %s) (Some %s)) 4' % (G.cstr(loose), coq_fparts(got2)))
        exprs.append('(fold_right Nat.add 0%nat [' + '; '.join(parts) + '])'); meta.append(('fstring', v, body))
        dist['fstring_char_level'] += len(parts) + 1; ncases += len(parts) + 1
        nontrivial.add(json.dumps(v))

    # PreTranslator / create_extractors: external set (node for node) and extractor texts, model vs implementation
    import c04_ext as X
    xg = X.ExtGen(ctx.rng, negconst=True, braces=True, specs=True)
    fc, cctx = X.coq_fclass(), '[' + ';'.join(G.cstr(v) for v in X.QUERY_VARS) + ']'
    dist.update({'marking_trees': 0, 'marking_externals': 0, 'marking_trees_with_query_vars': 0})
    xtrees = [G.from_ast(ast.parse(x, mode='eval').body) for x in MARKING_CORPUS]
    for _ in range(ctx.scale(350, 2500)):
        xtrees.append(xg.expr(ctx.rng.choice([1, 2, 3, 3, 4])))
    for t in xtrees:
        if not G.wf(t, parse_model=False): continue
        try:
            paths = X.real_externals(t)
            try:
                srcs, _g = X.real_extractor_srcs(t)
            except SyntaxError as e:
                chk = X.marking_check(t)
                if not (chk and chk['kind'] in ('external-is-not-an-expression', 'external-mentions-query-variable')): raise
                srcs = None          # a starred item / slice left in the set (known finding): its text does not compile; the set itself is still compared
                dist['marking_starred_external'] = dist.get('marking_starred_external', 0) + 1
        except Exception as e:
            disagreements.append({'what': 'real PreTranslator / create_extractors raised on a generated query body', 'input': t, 'impl': '%s: %s' % (type(e).__name__, e)})
            continue
        if srcs is not None and G.has_kind(t, {'Dict', 'Set'}):
            srcs = None; dist['marking_dict_or_set'] = dist.get('marking_dict_or_set', 0) + 1      # the printer model has no dict / set displays: compare the set only
        if G.has_kind(t, {'Gen'}): dist['marking_subqueries'] = dist.get('marking_subqueries', 0) + 1
        if srcs is not None and any(a != b and a == b[:len(a)] for a in paths for b in paths):
            # an external inside another external (only through the list / starred defect): ast2src caches node.src, and the text of the inner one
            # carries the parentheses its parent gave it iff the outer one was printed first - the set's iteration order decides. Compare the set only.
            srcs = None; dist['marking_nested_externals'] = dist.get('marking_nested_externals', 0) + 1
        if any(p and p[0] == '?' for p in paths):
            disagreements.append({'what': 'an external node of the real PreTranslator has no counterpart in the tree model', 'input': t, 'impl': sorted(map(str, paths))})
            continue
        dist['marking_trees'] += 1; dist['marking_externals'] += len(paths); ncases += 2 if srcs is not None else 1
        if G.has_kind(t, {'Name'}) and any(x in X.QUERY_VARS for x in _names(t)):
            dist['marking_trees_with_query_vars'] += 1; nontrivial.add('m' + G.tree_json(t))
        if srcs is None:
            exprs.append('bit (pset_eqb (externals %s %s %s) [%s]) 1' % (fc, cctx, G.coq_expr(t), ';'.join(X.coq_path(p) for p in sorted(paths))))
        else:
            exprs.append('ecase %s %s %s [%s] [%s]' % (fc, cctx, G.coq_expr(t), ';'.join(X.coq_path(p) for p in sorted(paths)), ';'.join(G.cstr(x) for x in sorted(srcs))))
        meta.append(('marking', t, {'paths': sorted(paths), 'srcs': None if srcs is None else sorted(srcs)}))
    # the evaluation semantics Model/C04Eval.v (reference, hand-written) vs CPython on typed trees of its fragment
    fg = G.FragGen(ctx.rng)
    cenv = G.coq_env(G.FragGen.SCOPE)
    dist.update({'eval_semantics_cases': 0, 'eval_semantics_python_raises': 0})
    for _ in range(ctx.scale(250, 1500)):
        fg.confused = False
        t = fg.gen(ctx.rng.choice(['int', 'int', 'str', 'tup']), ctx.rng.choice([1, 2, 3, 4]))
        try:
            v = eval(compile(G.fresh_ast(t), '<frag>', 'eval'), {'__builtins__': {}}, dict(G.FragGen.SCOPE))
            exp = '(Some %s)' % G.coq_pyv(v)
            if fg.confused:      # a typed tree with a deliberate type confusion may leave the fragment (e.g. int * str): then None is right, a value must still be Python's
                exprs.append('bit (match ceval %s %s with Some v => pyv_eqb v %s | None => true end) 1' % (cenv, G.coq_expr(t), G.coq_pyv(v)))
                meta.append(('eval-semantics', t, exp)); dist['eval_semantics_cases'] += 1; ncases += 1
                continue
        except (TypeError, IndexError):
            exp = 'None'; dist['eval_semantics_python_raises'] += 1
        except G.Unmodelled:
            continue
        exprs.append('bit (opt_eqb pyv_eqb (ceval %s %s) %s) 1' % (cenv, G.coq_expr(t), exp)); meta.append(('eval-semantics', t, exp))
        dist['eval_semantics_cases'] += 1; ncases += 1
    for i, code in run_codes(ctx, exprs)[:20]:
        kind, inp, impl = meta[i]
        why = '; '.join(w for c, w in CODES.items() if code & c) if kind == 'tree' else 'code %d' % code
        if kind == 'marking': why = '; '.join(w for c, w in ((1, 'set of external nodes differs'), (2, 'extractor source texts differ')) if code & c)
        disagreements.append({'what': 'model and implementation differ (%s: %s)' % (kind, why), 'input': inp, 'impl': impl, 'coq_case': exprs[i][:1500]})
    if first_tree_case is not None: samples.append({'coq_case': exprs[first_tree_case][:700]})
    return Corr(cases=ncases, nontrivial=len(nontrivial), disagreements=disagreements, samples=samples, distribution=dist,
                note='per tree one Coq term `tcase` evaluated by vm_compute (text equality with ast2src, model parser vs ast.parse on the real output, reference / all-parentheses '
                     'text vs mirror, wf vs mirror, model reparse of the reference text); cases counts the individual ties; CPython reparse checks of the reference texts run on the Python side')


def _names(t):
    out = {t[1]} if t[0] == 'Name' else set()
    for c in t[2]: out |= _names(c)
    return out


MARKING_CORPUS = ['p.x in (s.y for s in S if s.z == a + 1 and s.w == p.x)', 'count(s for s in S for t in s.items if t.x > a and s.y == b) > c', 'p.x == f({a: b})',
                  'p.x in {a, b + 1}', 'p.x == f({})', 'p.x == f({a: p.y})', 'p.x in (t for s, t in S if s == a)', 'p.x in [a, *b]', 'p.x == a + 1', 'p.x == f([p.y])', 'p.x in [a, p.y]', 'p.x == f(*[a, b])', 'a < p.x < b + c', 'p.x == (a if b else c) + q.y', '(lambda u: u + a)(p.x)',
                  'count(p.x) > a + b', 'p.d == date(2020, a, 1)', 'p.d == date(2020, 1, 1)', "p.s == f'{a}{p.x}'", "p.s == f'{a:>3}-{b!r}'", "p.s == f'{p.x:>3}'", 'p.x == a.b.c(d).e',
                  'p.x == x[a:b]', 'p.x == x[:]', 'p.x == f(k=a, j=p.y)', 'raw_sql(a) and p.x', 'getattr(p, a) == b', 'p.x == (a, (b, c))[0]', 'p.x == -a ** b', 'not p.x and not a']


def _has_brace_lit(t):
    if t[0] == 'Joined' and any('{' in x or '}' in x for x in t[1]): return True
    return any(_has_brace_lit(c) for c in t[2])


def _has_short_idx(t):
    if t[0] == 'IdxTuple' and len(t[2]) < 2: return True
    return any(_has_short_idx(c) for c in t[2])


# f-string bodies ---------------------------------------------------------------------------------

def fstring_values(ctx):
    r = ctx.rng
    out = [[['lit', '{x}']], [['lit', '{']], [['lit', '}}{{']], [['field', 'a', None, '>3']], [['field', 'a', 'r', None], ['field', 'b', None, '']],
           [['lit', 'x{'], ['field', 'ab', 's', '<4'], ['lit', '}']]]
    for _ in range(ctx.scale(120, 1200)):
        v, prev = [], False
        for _ in range(r.choice([1, 2, 3, 4])):
            if not prev and r.random() < 0.5:
                v.append(['lit', ''.join(r.choice('xy {}{}-=.,') for _ in range(r.choice([1, 2, 3])))]); prev = True
            else:
                v.append(['field', r.choice(['a', 'b', 'ab', 'c1', 'a + b', 'f(a)']), r.choice([None, None, 'r', 's', 'a']), r.choice([None, None, '>3', '', '<4', '05', ' '])])
                prev = False
        out.append(v)
    return out


def fbody(v, esc, keep):
    s = ''
    for p in v:
        if p[0] == 'lit': s += p[1].replace('{', '{{').replace('}', '}}') if esc else p[1]
        else: s += '{' + p[1] + ('' if p[2] is None else '!' + p[2]) + ('' if (p[3] is None or not keep) else ':' + p[3]) + '}'
    return s


def coq_fparts(v):
    def one(p):
        if p[0] == 'lit': return 'FLit %s' % G.cstr(p[1])
        return 'FField %s %s %s' % (G.cstr(p[1]), 'None' if p[2] is None else '(Some %d)' % ord(p[2]), 'None' if p[3] is None else '(Some %s)' % G.cstr(p[3]))
    return '[' + '; '.join(one(p) for p in v) + ']'


def cpy_fstring(body):
    """CPython's reading of an f-string body as a value (None: SyntaxError)"""
    try:
        n = ast.parse("f'" + body + "'", mode='eval').body
    except SyntaxError:
        return None
    if isinstance(n, ast.Constant): return [['lit', n.value]] if n.value else []
    out = []
    for x in n.values:
        if isinstance(x, ast.Constant): out.append(['lit', x.value])
        else:
            spec = None
            if x.format_spec is not None:
                if not all(isinstance(y, ast.Constant) for y in x.format_spec.values): return 'nested'
                spec = ''.join(y.value for y in x.format_spec.values)
            out.append(['field', ast.get_source_segment("f'" + body + "'", x.value) or ast.unparse(x.value), None if x.conversion == -1 else chr(x.conversion), spec])
    return out


# ------------------------------------------------------------------------------------------------ search

def search(ctx, deep):
    import c04_eval as E
    tbl, pony = tables()
    failures, seen_keys = [], {}
    evals, nontriv = 0, set()
    dist = {'ast2src_route': 0, 'ast2src_failing': 0, 'query_string_route': 0, 'query_generator_route': 0, 'query_skipped': 0, 'query_failing': 0,
            'failing_by_key': seen_keys, 'shrunk': 0}

    def record(fs):
        for f in fs:
            n = seen_keys.get(f.key, 0)
            if n < 1: failures.append(f)
            seen_keys[f.key] = n + 1

    def tree_fails(t):
        r = E.check_tree(t)
        return r is not None and 'skip' not in r

    # (a) exhaustive triple contexts + corpus of hand-written cases
    trees = []
    for p in G.KINDS:
        for i in range(3):
            for c in G.KINDS:
                if G.allowed(p, i, c) and 'Other' not in (p, c):
                    for t in G.variants_for(p, i, G.minimal(c))[:(3 if deep else 1)]:
                        if G.wf(t, parse_model=False): trees.append(t)
    for text in CORPUS:
        try: trees.append(G.from_ast(ast.parse(text, mode='eval').body))
        except G.Unmodelled: pass
    trees = corpus_trees() + trees           # minimised past failures first
    trees.append(('Pow', None, [('NegConst', '1', []), ('Name', 'y', [])]))
    trees.append(('Subscript', None, [('Name', 'x', []), ('IdxTuple', None, [('Name', 'a', [])])]))
    trees.append(('Subscript', None, [('Name', 'x', []), ('IdxTuple', None, [])]))
    # (b) random deep trees, all kinds including those the code cannot print
    g = G.Gen(ctx.rng, negconst=True, invert=True, short_idx=True, braces=True, specs=True)
    for _ in range(4000 if deep else 500):
        t = g.expr(ctx.rng.choice([1, 2, 2, 3, 3, 4]))
        if G.wf(t, parse_model=False): trees.append(t)
    for t in trees:
        evals += 1; dist['ast2src_route'] += 1
        res = E.check_tree(t)
        if res is None:
            if nontrivial_tree(t): nontriv.add(G.tree_json(t))
            continue
        if 'skip' in res: continue
        dist['ast2src_failing'] += 1
        small = shrink(t, tree_fails)
        if small is not t: dist['shrunk'] += 1
        record(failures_for(small, E.check_tree(small), 'ast2src'))

    # (c) end to end: the expression as external part of a query on SQLite; the bound parameter must be Python's value
    ig = G.IntGen(ctx.rng)
    qtrees = [G.from_ast(ast.parse(x, mode='eval').body) for x in QUERY_CORPUS]
    for _ in range(1500 if deep else 250):
        qtrees.append(ig.top(ctx.rng.choice([1, 2, 2, 3])))
    for t in qtrees:
        if not G.wf(t, parse_model=False): continue
        for route in ('query-string', 'query-generator'):
            if route == 'query-generator' and ctx.rng.random() < 0.5 and not deep: continue
            evals += 1; dist[route.replace('-', '_') + '_route'] += 1
            res = E.check_query(t, route=route)
            if res is None:
                nontriv.add(route + G.tree_json(t)); continue
            if 'skip' in res:
                dist['query_skipped'] += 1; continue
            dist['query_failing'] += 1
            # the same tree through ast2src alone explains most query failures; otherwise the failure belongs to the query route
            if tree_fails(t):
                small = shrink(t, tree_fails)
                fs = failures_for(small, E.check_tree(small), 'ast2src')
                for f in fs: f.what = '%s: `%s` %s | reduced: %s' % (route, res.get('text'), _short(res), f.what); f.data = {'tree': t, 'route': route}
                record(fs)
            else:
                fs = failures_for(t, res, route)
                if route == 'query-generator':
                    srcs = list(res.get('params', {})) + re.findall(r'`([^`]*)`', res.get('msg', ''))
                    gk = generator_key(res.get('text', ''), srcs)
                    if gk:
                        for f in fs: f.key = gk
                record(fs)
    # (d) constant folding on the generator route: a negative constant as base of a power
    for text, names in GENERATOR_CORPUS:
        evals += 1; dist['query_generator_route'] += 1
        f = generator_case(text, names)
        if f is not None: record([f])
        else: nontriv.add('gen' + text)
    # (e) the marking on the implementation: no external of the real PreTranslator may mention a query variable
    import c04_ext as X
    xg = X.ExtGen(ctx.rng, negconst=True, braces=True, specs=True)
    dist.update({'marking_route': 0, 'marking_failing': 0, 'extract_vars_route': 0, 'extract_vars_skipped': 0})
    mtrees = [G.from_ast(ast.parse(x, mode='eval').body) for x in MARKING_CORPUS] + [xg.expr(ctx.rng.choice([1, 2, 3, 3, 4])) for _ in range(3000 if deep else 300)]
    for t in mtrees:
        if not G.wf(t, parse_model=False): continue
        evals += 1; dist['marking_route'] += 1
        f = marking_failure(t)
        if f is None: nontriv.add('mk' + G.tree_json(t))
        else: dist['marking_failing'] += 1; record([f])
    # (f) extract_vars: keys (filter_num, src, code_key), values with closure cells laid over the locals
    ig2 = G.IntGen(ctx.rng)
    for i in range(600 if deep else 80):
        t = ('Compare', ['Eq'], [('Add', None, [('Attribute', 'x', [('Name', 'p', [])]), ig2.expr(2)]), ig2.expr(2)])
        evals += 1; dist['extract_vars_route'] += 1
        f = extract_failure(t, ctx.rng.choice([0, 1, 5]), ctx.rng.sample(['a', 'b', 'c', 'd', 'e'], ctx.rng.choice([0, 1, 2])), i)
        if f == 'skip': dist['extract_vars_skipped'] += 1
        elif f is None: nontriv.add('xv' + G.tree_json(t))
        else: record([f])
    # (g) the same query code executed repeatedly (warm translator cache) with changing outer values: each call must send the value of THAT call
    dist.update({'repeat_route': 0, 'repeat_calls': 0, 'repeat_skipped': 0})
    for template in sorted(E.REPEAT_TEMPLATES):
        for expr in (E.REPEAT_EXPRS if deep else ctx.rng.sample(E.REPEAT_EXPRS, 3)):
            calls = [(ctx.rng.randint(-3, 3), ctx.rng.randint(0, 2)) for _ in range(6 if deep else 4)]
            evals += 1; dist['repeat_route'] += 1; dist['repeat_calls'] += len(calls)
            f = repeat_failure(template, expr, calls)
            if f == 'skip': dist['repeat_skipped'] += 1
            elif f is None: nontriv.add('rp%s|%s' % (template, expr))
            else: record([f])
    return Search(evaluations=evals, failures=failures, nontrivial=len(nontriv), distribution=dist, exhaustive=False,
                  samples=[{'query': "select(p for p in P if p.x == ((a + b).bit_length()))", 'scope': E.INT_SCOPE}])


def corpus_trees():
    import glob, os
    out = []
    for f in sorted(glob.glob(os.path.join(vlib.VERIF, 'corpus', 'C04', '*.json'))):
        try: out.append(G.tree_from_json(json.load(open(f))['tree']))
        except Exception: pass
    return out


def marking_failure(t):
    import c04_ext as X
    res = X.marking_check(t)
    if res is None: return None
    text = ast.unparse(G.to_ast(t))
    if res['kind'] == 'external-mentions-query-variable':
        key = 'list-or-starred-item-marked-external' if X.has_dishonest_display(t) else 'unexplained:marking:%s' % signature(t)
        return Failure(key, 'marking: in `(p for p in P for q in Q if %s)` the subexpression `%s` is marked external (evaluated in the caller\'s scope) although it '
                       'mentions %s, bound inside the query (query variable / lambda parameter)' % (text, res['src'], ', '.join(res['names'])), {'marking_tree': t})
    if res['kind'] == 'external-is-not-an-expression':
        key = 'non-expression-item-extracted-as-parameter' if res['node'] in ('Starred', 'Slice') else 'unexplained:marking-item:%s' % res['node']
        return Failure(key, 'marking: in `(p for p in P for q in Q if %s)` the %s `%s` is left in the set of externals; it is not an expression, '
                       'create_extractors fails to compile it (SyntaxError)' % (text, res['node'], res['src']), {'marking_tree': t})
    return Failure('unexplained:pretranslator-raises:%s' % res['exc'], 'marking: PreTranslator raises %s on `%s`: %s' % (res['exc'], text, res['msg']), {'marking_tree': t})


def extract_failure(t, filter_num, cells, i=0):
    import c04_ext as X, c04_eval as E
    scope = dict(E.INT_SCOPE)
    try:
        res, srcs = X.extract_vars_check(t, scope, cells, filter_num, ('c04-extract', i))
    except SyntaxError:
        return 'skip'
    if res is None: return None
    if res['kind'] == 'extract_vars-raises':
        # an external whose evaluation raises in Python too is reported by Pony as ExprEvalError: that is Python's behaviour
        if res['exc'] in ('ExprEvalError', 'TypeError', 'NotImplementedError'): return 'skip'
    return Failure('unexplained:extract_vars:%s' % res['kind'], 'extract_vars: `%s` (filter_num %d, cells %s): %s' % (ast.unparse(G.to_ast(t)), filter_num, cells, json.dumps(res)[:200]),
                   {'extract_tree': t, 'filter_num': filter_num, 'cells': cells})


def repeat_failure(template, expr, calls):
    import c04_eval as E
    res = E.repeat_check(template, expr, [tuple(c) for c in calls])
    if res is None: return None
    if 'skip' in res: return 'skip'
    return Failure('repeated-execution:%s' % template,
                   'repeated execution: `%s` with E = `%s`: the call with (a, b) = %s returns %s after the calls %s with the same code object; a fresh execution of the same '
                   'query with these values returns %s (the outer-scope value of an earlier call was sent)' % (
                       res['src'].strip().split('return ')[1], expr, tuple(res['at']), res['warm'], res['history'][:-1], res['cold']),
                   {'repeat': template, 'expr': expr, 'calls': res['calls']})


def _short(res):
    if res.get('kind') == 'parameter-value-differs': return 'binds %s, Python computes %s' % (res['params'], res['want'])
    if res.get('kind') == 'query-raises': return 'raises %s' % res['exc']
    return res.get('kind', '')


CORPUS = ['(x + y).upper()', '(a if b else c) if d else e', 'x == (a if c else b) + 1', "f'{a:>3}'", "f'{{x}}'", '(lambda: a)()', 'a - (b - c)', '(a - b) - c',
          'a ** b ** c', '(a ** b) ** c', '-a ** b', '(-a) ** b', 'a ** -b', '~a', 'not (a and b)', 'a < (b < c)', 'f(*(a or b), **(c or d))', '[*(a | b)]',
          '[*(a or b)]', 'x[a:b, c]', 'x[(a, b):c]', 'a if (b if c else d) else e', '(a and b) or c', 'a and (b or c)', '(a, b)[0]', 'x[::2]',
          "f'{a!r:>3}{b}'", "f'{a}{{'", '(a or b).p', '(not a)(b)', '(a < b)[c]', '-(a + b)', '(a + b) * c', 'a * (b + c)', 'a / (b * c)', '(a if b else c).p',
          'lambda u: (lambda v: u)', '(lambda u: u)(a)', 'a if b else (c if d else e)', '(a, *b)', 'f(a, k=b, *c)', 'x[a, b:c]']

QUERY_CORPUS = ['(a + b).bit_length()', '(a - b).__abs__()', '(a if c else b) + 1', "len(f'{a:>3}')", '(a + b) * d', 'a - (b - e)', '(-a) ** b', '-a ** b',
                '[a, b, e][(a,)[0]]', '(a if c else b) if c else e', "f'{a:>3}'", "f'{{a}}'", "f'{a}{b!r}'", 'abs(a - e)', '(a or b).real', '(a and b) + (c or d)']

GENERATOR_CORPUS = [('(-1) ** y', {'y': 2}), ('(-2) ** y + a', {'y': 2}), ('2 ** y', {'y': 3}), ('(a + b) * y', {'y': 2}),
                    ("len(f'{w!r}')", {'w': 'ab'}), ("len(f'x{w!r}')", {'w': 'ab'}), ("len(f'{w}') + a", {'w': 'ab'})]

NEG_POW = re.compile(r'(^|[^\w)\]])-\d+(\.\d+)? \*\* ')


def generator_key(text, bound_srcs):
    """defect class of a failure on the generator route, from the source text and the regenerated parameter sources"""
    if any(NEG_POW.search(x) for x in bound_srcs) and '**' in text: return 'negative-constant-as-power-base'
    if "f'" in text and not any("f'" in x for x in bound_srcs): return 'bare-formatted-value-printed-as-operand'
    return None


def generator_case(text, extra=None):
    """`text` inside a generator-object query: Python's compiler folds -1 into a constant and compiles a one-field f-string to a bare
    FORMAT_VALUE; the decompiler hands Constant(-1) / a bare FormattedValue node to ast2src."""
    import c04_eval as E
    from pony import orm
    db, P = E.get_db()
    scope = dict(E.INT_SCOPE); scope['y'] = 2; scope['w'] = 'ab'; scope.update(extra or {})
    want = eval(text, dict(scope, len=len))
    g = dict(scope); g['P'] = P; g['orm'] = orm; g['len'] = len
    with orm.db_session:
        try:
            q = eval('orm.select(p for p in P if p.x == (%s))' % text, g)
            vals = {k[1]: v for k, v in q._vars.items() if k[1] not in ('P', '.0')}
        except Exception as e:
            srcs = re.findall(r'`([^`]*)`', str(e))
            key = generator_key(text, srcs) or 'unexplained:query-generator:%s' % type(e).__name__
            return Failure(key, 'query-generator: `%s` raises %s: %s' % (text, type(e).__name__, str(e)[:100]), {'generator_text': text, 'route': 'query-generator'})
    if len(vals) == 1 and list(vals.values())[0] != want:
        src = list(vals)[0]
        key = generator_key(text, [src]) or 'unexplained:query-generator:value'
        return Failure(key, 'query-generator: `%s` is decompiled and regenerated as `%s`, bound as %r; Python computes %r' % (text, src, vals[src], want),
                       {'generator_text': text, 'route': 'query-generator'})
    return None


def replay(ctx, data):
    import c04_eval as E
    if 'generator_text' in data:
        return generator_case(data['generator_text'])
    if 'repeat' in data:
        f = repeat_failure(data['repeat'], data['expr'], data['calls'])
        return None if f == 'skip' else f
    if 'marking_tree' in data:
        return marking_failure(G.tree_from_json(data['marking_tree']))
    if 'extract_tree' in data:
        f = extract_failure(G.tree_from_json(data['extract_tree']), data.get('filter_num', 0), data.get('cells', []))
        return None if f == 'skip' else f
    t = G.tree_from_json(data['tree'])
    route = data.get('route', 'ast2src')
    if route == 'ast2src':
        res = E.check_tree(t)
        if res is None or 'skip' in res: return None
        return failures_for(t, res, route)[0]
    res = E.check_query(t, route=route)
    if res is None or 'skip' in res: return None
    return failures_for(t, res, route)[0]


LEVEL_TEXT = ('Machine-checked proof (Coq 8.16.1). (A) ast2src: structural induction over expression trees of unbounded depth: for EVERY parenthesisation style that parenthesises at '
              'least where Python\'s grammar levels require and never parenthesises an item, a model of Python\'s expression grammar (precedence-climbing parser over tokens) reads the '
              'printed tokens back as exactly the tree (C04_print_parse, _unique); instantiated to PythonTranslator, whose @priority table, `>=` rule, receiver_src helper and f-string / '
              'index-tuple layouts are re-scanned from /repo on every run: EVERY well-formed tree is read back as itself (C04_ast2src, C04_table without exceptions); f-string bodies at '
              'character level (C04_fstring, C04_fstring_ast2src). (B) which parts are evaluated in the caller\'s scope: a model of PreTranslator\'s external / constant marking '
              '(contexts of for-clause and lambda names, call special cases through a callee oracle, the final pass over non-externalizable kinds) and of the extractor keys; theorems: '
              'soundness of the marking (an external mentions no query variable, enclosing lambda parameter or subquery target and contains no lambda; unconditional since 5e60a83; dict / set '
              'displays and nested generator expressions included), maximality as far as the code intends it, distinct keys per filter number, same text => same tree, and the first sentence of the property on an '
              'evaluation semantics over integers, strings and tuples (validated against CPython): Python\'s eval of the text ast2src prints for an external, in the caller\'s scope, is the value of that subexpression in place under any binding '
              'of the query variables (C04_bound_value). Ties on every run: printer text = real ast2src; grammar model and ref_needs vs CPython ast.parse; the model\'s external '
              'set and extractor texts = the real PreTranslator / create_extractors node for node on generated query bodies; real extract_vars keys and values over generated scopes. '
              'Search: eval(compile(tree)) vs eval(compile(ast2src(tree))) over recording values; the marking property on the real PreTranslator; external expressions of real queries on SQLite.')
LEVEL_NOTE = ('Trusted: Coq kernel + vm_compute; the source scanner; the hand-written grammar model (levels + parser), validated against CPython but not derived from it; '
              'tokens as the unit (lexing outside the model: integer-literal receivers, quote nesting in f-strings); wf excludes folded negative constants (their reparse is a '
              'UnaryOp node; covered by the table theorem, the text tie and the search); the theorem is about AST identity of the reparse, which implies equal meaning; '
              'the PreTranslator model is hand-written (tied node for node, not translated from source); the callee classification of postCall (eval of the dotted name) is an oracle '
              'argument; dict/set displays are in the marking model but not in the printer model; the value theorem is stated for the integer/string/tuple fragment of Model/C04Eval.v; '
              'C04_print_parse has existential fuel, C04_print_parse_unique shows no fuel gives another answer.')
TECHNIQUE = ('Coq proof by structural induction on rose trees (round trip printer -> precedence-climbing parser, generic in the parenthesisation table); finite table theorems by '
             'vm_compute + forallb_forall; table regenerated from source (py2coq scanner); vm_compute text correspondence with ast2src; CPython validation of the reference grammar; '
             'differential search with recording values and on SQLite')
DESIGN_REF = 'DESIGN.md section 5, C04'
