"""C36 - A forked process never uses its parent's database connection."""
import json
from concurrent.futures import ThreadPoolExecutor
import vlib
from vlib import Corr, Search, Failure
from py2coq import c36pool

ID = 'C36'
LEVEL = 'proof'
PROPS = ['Props/C36.v', 'Findings/C36.v']
GEN = [('Gen/C36Pool.v', c36pool.generate)]
TRUSTED = [
    'py2coq translator tools/py2coq/c36pool.py (+ core.py): Pool.connect and OraPool.connect are re-translated from /repo on every run (Gen/C36Pool.v); '
    'the exact shapes of Pool.release / drop / disconnect / __init__, SQLitePool.__init__ / drop and OraPool.__init__ are re-checked (fail-closed)',
    'hand-written process/fork model Model/C36Fork.v (SessionCache.connect / prepare_connection_for_query_execution / close, Database.disconnect; fork = copy of the '
    "process' bookkeeping with a new pid), tied by correspondence with real os.fork() runs on a file-backed SQLite database: per operation, which connection "
    'objects were created / used / closed by which process, plus pool.con, pool.pid, forked_connections, cache.connection and db_context_counter afterwards',
    'harness: the module global `sqlite` of pony.orm.dbproviders.sqlite is replaced by a logging proxy from outside; os.fork(), pipes and waitpid of CPython/Linux',
    'PostgreSQL / MySQL: no server here; their pool classes (PGPool, base Pool) run real os.fork() histories at pool level against a recording stub DB-API module, the harness '
    'playing the session cache (tools/c36_pool_driver.py); OraPool / cx_Oracle: translation + theorem only',
]
ASSUMPTIONS = [
    'one thread per process at the time of the fork (Pool is thread-local); the child gets a pid different from every process that created a connection it inherits',
    'a connection object is identified by (creating process, serial); "uses" = DB-API calls on it (cursor/execute/commit/rollback/close)',
    'db.disconnect() in the child is covered: Pool.disconnect compares pids (read from the source; repaired by 7d2063b) and parks an inherited connection',
    'in-memory SQLite databases (:memory:, :sharedmemory:) are outside the statement (a new connection is a new database)',
]
RULE = ('every implementation run is judged twice - by the Coq model (correspondence) and by the statement-level oracle (search): `evaluations` counts both judgements, `distinct_nontrivial` counts each distinct run once. ' 'real os.fork() scenarios: parent history (11 fork points: never connected, pooled after read / write / rollback, disconnected, session begun without '
        'statement, session begun with pooled connection, live read-only session, live session after an earlier commit, nested live session, open write '
        'transaction) x child programs (new sessions with reads and writes, continuing the inherited session, rollback, a first connect attempt that fails '
        '- injected at the DB-API connect - followed by a retry) x parent continuation, on real Pony sessions over SQLite; the same kind of histories (plus dropped connections and child disconnect()) at pool level on PGPool and the base Pool '
        'with a recording stub driver (quick: 26 + 8 + 8 scenarios, thorough: 153 + 39 + 39); non-trivial = the child touched a connection or the pool parked one; distinct = distinct (before, child, after)')

OPMAP = {'begin': 'OBegin', 'query': 'OQuery', 'query_fail': 'OQueryFail', 'fail': 'OFail', 'write': 'OQuery', 'end_commit': 'OEnd', 'end_rollback': 'OEnd', 'disconnect': 'ODisconnect'}

BEFORES = [
    ('never-connected', []),
    ('pooled-after-read', ['begin', 'query', 'end_commit']),
    ('pooled-after-write', ['begin', 'write', 'end_commit']),
    ('pooled-after-rollback', ['begin', 'write', 'end_rollback']),
    ('disconnected', ['begin', 'query', 'end_commit', 'disconnect']),
    ('session-begun-no-statement', ['begin']),
    ('session-begun-connection-pooled', ['begin', 'write', 'end_commit', 'begin']),
    ('live-session-read', ['begin', 'query']),
    ('live-session-read-after-commit', ['begin', 'write', 'end_commit', 'begin', 'query']),
    ('live-session-nested', ['begin', 'begin', 'query', 'end_commit']),
    ('live-session-open-write-transaction', ['begin', 'write']),
]


def depth_of(ops):
    d = 0
    for o in ops:
        if o == 'begin': d += 1
        elif o in ('end_commit', 'end_rollback') and d > 0: d -= 1
    return d


def scenarios(ctx, deep=False):
    out = []
    for name, before in BEFORES:
        d = depth_of(before)
        closing = ['end_commit'] * d
        if name == 'live-session-open-write-transaction':
            # the child must not write, commit or roll back on the inherited connection (it would damage the parent's transaction):
            # it only reads through the inherited session and leaves
            childs = [['query']] + ([['query', 'query']] if deep or ctx.thorough else [])
        elif d == 0:
            childs = [['begin', 'write', 'end_commit', 'begin', 'query', 'end_commit']]
            if deep or ctx.thorough or name == 'pooled-after-read': childs.append(['begin', 'query', 'end_rollback'])
            if deep or ctx.thorough: childs += [['begin', 'query', 'end_commit'], ['begin', 'write', 'query', 'end_commit']]
            if deep or ctx.thorough: childs += [['begin', 'begin', 'query', 'end_commit', 'query', 'end_commit'], ['begin', 'end_commit', 'begin', 'write', 'end_rollback']]
        else:
            childs = [['query'],
                      closing + ['begin', 'query', 'end_commit']]
            if deep or ctx.thorough or name == 'session-begun-connection-pooled': childs.append(['write'] + closing + ['begin', 'write', 'end_commit'])
            if deep or ctx.thorough: childs.append(['query'] + closing + ['begin', 'query', 'end_commit'])
            if deep or ctx.thorough: childs += [['query', 'write'] + closing, ['begin', 'query', 'end_commit'] + closing]
        if d == 0: afters = [['begin', 'query', 'end_commit']]
        else: afters = [['query'] + closing + ['begin', 'query', 'end_commit']]
        if deep or ctx.thorough:
            afters.append((['write'] + closing if d else ['begin', 'write', 'end_commit']) + ['disconnect', 'begin', 'query', 'end_commit'])
        for ch in childs:
            for af in afters:
                out.append({'point': name, 'before': before, 'child': ch, 'after': af})
        # the child's first connect attempt fails (file briefly missing, server refusing): it tries again, in the same and in a new session
        if (d == 0 or name in ('session-begun-no-statement', 'session-begun-connection-pooled')) and \
                (deep or ctx.thorough or name in ('never-connected', 'pooled-after-read', 'pooled-after-write', 'session-begun-connection-pooled')):
            opening = ['begin'] if d == 0 else []
            fchilds = [opening + ['query_fail', 'query', 'end_commit', 'begin', 'query', 'end_commit']]
            if deep or ctx.thorough or name == 'pooled-after-read': fchilds.append(opening + ['query_fail', 'end_commit', 'begin', 'write', 'end_commit'])
            if deep or ctx.thorough: fchilds.append(opening + ['query_fail', 'query_fail', 'query', 'query_fail', 'end_commit'])
            for ch in fchilds:
                out.append({'point': name, 'before': before, 'child': ch, 'after': afters[0]})
            # the parent's own connect fails after the fork (no fork involved in the failure): it must recover with its own connection
            if name == 'pooled-after-read' or ((deep or ctx.thorough) and name in ('never-connected', 'disconnected')):
                out.append({'point': name, 'before': before, 'child': ['begin', 'query', 'end_commit'],
                            'after': ['begin', 'query_fail', 'query', 'end_commit']})
    return out


def with_backends(ctx, scs, deep=False):
    """SQLite scenarios run through real Pony sessions; in addition the pools of the PostgreSQL provider (PGPool) and of the MySQL
    provider (base Pool) run the same kind of histories at pool level with a recording stub DB-API module (tools/c36_pool_driver.py)"""
    out = [dict(sc, backend='sqlite') for sc in scs]
    # the child calls db.disconnect() right after the fork (what people do "to be safe"), then works
    for name, before in BEFORES:
        if depth_of(before) == 0 and (deep or ctx.thorough or name in ('pooled-after-read', 'pooled-after-write')):
            out.append({'backend': 'sqlite', 'point': name, 'before': before, 'child': ['disconnect', 'begin', 'query', 'end_commit'], 'after': ['begin', 'query', 'end_commit']})
    pool_scs = []
    POOL_POINTS = ('pooled-after-read', 'session-begun-connection-pooled', 'live-session-read')
    for name, before in BEFORES:
        if name not in POOL_POINTS and not (deep or ctx.thorough): continue
        d = depth_of(before)
        closing = ['end_commit'] * d
        after = (['query'] + closing if d else []) + ['begin', 'query', 'end_commit']
        childs = [(['begin'] if d == 0 else []) + ['query'] + ['end_commit'] * max(d, 1) + ['begin', 'query', 'end_commit'],
                  (['begin'] if d == 0 else []) + ['query_fail', 'query', 'fail', 'query'] + ['end_commit'] * max(d, 1)]
        if d == 0: childs.append(['disconnect', 'begin', 'query', 'end_rollback'])
        if deep or ctx.thorough: childs.append((['begin'] if d == 0 else []) + ['query', 'fail'] + ['end_commit'] * max(d, 1) + ['disconnect', 'begin', 'query_fail', 'query', 'end_commit'])
        for ch in childs:
            pool_scs.append({'point': name, 'before': before, 'child': ch, 'after': after})
    # parent histories that only the pool level can produce (a dropped connection)
    pool_scs.append({'point': 'pooled-after-drop-and-reconnect', 'before': ['begin', 'query', 'fail', 'query', 'end_commit'],
                     'child': ['begin', 'query', 'end_commit'], 'after': ['begin', 'query', 'fail', 'end_commit', 'begin', 'query', 'end_commit']})
    for backend in ('PGPool', 'Pool'):
        out += [dict(sc, backend=backend) for sc in pool_scs]
    return out


def run_scenarios(ctx, scs, procs=4):
    d = ctx.mkscratch()
    res = [None] * len(scs)
    info = {}
    jobs = []
    sq = [i for i, sc in enumerate(scs) if sc.get('backend', 'sqlite') == 'sqlite']
    for k in range(procs):
        idx = sq[k::procs]
        if idx: jobs.append(('c36_driver.py', {'dbdir': d, 'scenarios': [scs[i] for i in idx]}, idx))
    for backend in ('PGPool', 'Pool'):
        idx = [i for i, sc in enumerate(scs) if sc.get('backend') == backend]
        if idx: jobs.append(('c36_pool_driver.py', {'pool': backend, 'scenarios': [scs[i] for i in idx]}, idx))
    def one(job):
        script, payload, idx = job
        return vlib.run_impl(script, payload, timeout=1200), idx
    with ThreadPoolExecutor(max_workers=procs + 2) as ex:
        for o, idx in ex.map(one, jobs):
            for i, r in zip(idx, o['results']): res[i] = r
            info.update(o.get('info') or {})
    return res, info


_cache = {}
_counted = set()      # result sets whose non-trivial cases were already counted by correspondence()

def get_results(ctx, deep=False):
    key = (ctx.seed, ctx.tier, deep)
    if key not in _cache:
        scs = with_backends(ctx, scenarios(ctx, deep), deep)
        res, info = run_scenarios(ctx, scs)
        _cache[key] = (scs, res, info)
    return _cache[key]


# ------------------------------------------------------------------------------------------------ Coq serialisation

ROLE = {'P': 1, 'C': 2}

def c_conn(i): return '(%d, %d)' % (ROLE[i[0]], i[1])
def c_optconn(i): return 'None' if i is None else '(Some %s)' % c_conn(i)
def c_list(xs): return '[' + '; '.join(xs) + ']'
def c_ops(ops): return c_list(OPMAP[o] for o in ops)

def c_event(e):
    kind, by, cr, idx = e
    return '%s %d %s' % ({'create': 'ECreate', 'use': 'EUse', 'close': 'EClose'}[kind], ROLE[by], c_conn([cr, idx]))

def dedup(evs):
    out = []
    for e in evs:
        if not out or out[-1] != e: out.append(e)
    return out

def c_events(oplist):
    return c_list(c_list(c_event(e) for e in dedup(o['events'])) for o in oplist)

def c_book(book, cache_con):
    pp = 'None' if book['pool_pid'] is None else '(Some %d)' % ROLE[book['pool_pid']]
    fk = c_list('(%s, %s)' % (c_conn(c), 'None' if p is None else '(Some %d)' % ROLE[p]) for c, p in book['forked'])
    return '(%s, %s, %s, %s, %d%%nat)' % (c_optconn(book['pool_con']), pp, fk, c_optconn(cache_con), book['counter'])

def last_cache_con(oplist, default):
    return oplist[-1]['cache_con'] if oplist else default

HEADER = ('From Coq Require Import ZArith List Bool.\nImport ListNotations.\n'
          'Require Import PonyV.Model.C36Base PonyV.Gen.C36Pool PonyV.Model.C36Fork PonyV.Model.C36Obs.\nOpen Scope Z_scope.\n')


def coq_case(sc, r):
    ch = r['child']
    cc_before = last_cache_con(r['before'], None)
    cc_child = last_cache_con(ch['ops'], cc_before)
    cc_after = last_cache_con(r['after'], cc_before)
    return 'scenario_eqb %s %s %s %s %s %s %s %s %s' % (
        c_ops(sc['before']), c_ops(sc['child']), c_ops(sc['after']),
        c_events(r['before']), c_book(r['at_fork'], cc_before),
        c_events(ch['ops']), c_book(ch['book'], cc_child),
        c_events(r['after']), c_book(r['parent_end'], cc_after))


def run_bools(ctx, exprs, chunk=200):
    chunks = []
    for i in range(0, len(exprs), chunk):
        chunks.append('Definition cases : list bool := [\n' + ';\n'.join(exprs[i:i + chunk]) + '].\nEval vm_compute in (failing cases).\n')
    outs = vlib.coq_eval_many(ctx, HEADER, chunks, name='c36cases')
    bad = []
    for k, out in enumerate(outs):
        vals = vlib.parse_eval_outputs(out)
        assert len(vals) == 1, out[-500:]
        inner = vals[0].strip().strip('[]').strip()
        if inner:
            for tok in inner.split(';'): bad.append(k * chunk + int(tok.strip().replace('%nat', '')))
    return bad


def child_ok(r):
    if 'setup_error' in r: return False
    return (not r['child_timed_out']) and r['child_status'] == 0 and 'ops' in r['child']


def nontrivial(r):
    if not child_ok(r): return False
    ch = r['child']
    return (any(o['events'] for o in ch['ops']) or bool(ch['book']['forked']))


def correspondence(ctx):
    scs, res, info = get_results(ctx, False)
    _counted.add((ctx.seed, ctx.tier, False))
    exprs, meta, disagreements = [], [], []
    dist = {}
    nontriv = set()
    for sc, r in zip(scs, res):
        dist[sc['point']] = dist.get(sc['point'], 0) + 1
        dist['backend:' + sc.get('backend', 'sqlite')] = dist.get('backend:' + sc.get('backend', 'sqlite'), 0) + 1
        if 'setup_error' in r:
            disagreements.append({'what': 'implementation cannot run two plain sessions', 'input': sc, 'impl': r['setup_error']}); continue
        if not child_ok(r):
            disagreements.append({'what': 'forked child did not finish cleanly', 'input': sc,
                                  'impl': {'status': r['child_status'], 'timed_out': r['child_timed_out'], 'child': r['child']}})
            continue
        if not r['child'].get('pid_differs'):
            disagreements.append({'what': 'child has the same pid as the parent?', 'input': sc}); continue
        exprs.append(coq_case(sc, r)); meta.append((sc, r))
        if nontrivial(r): nontriv.add(json.dumps(sc, sort_keys=True))
    bad = run_bools(ctx, exprs) if exprs else []
    for i in bad[:20]:
        sc, r = meta[i]
        disagreements.append({'what': 'model and implementation differ at fork point %s' % sc['point'], 'input': sc,
                              'impl': {'child': r['child'], 'at_fork': r['at_fork'], 'after': r['after'], 'parent_end': r['parent_end']},
                              'coq_case': exprs[i][:2500]})
    samples = []
    for want in ('pooled-after-write', 'live-session-open-write-transaction'):
        for (sc, r), e in zip(meta, exprs):
            if sc['point'] == want and sc.get('backend', 'sqlite') == 'sqlite':
                samples.append({'scenario': sc, 'child_events': [dedup(o['events']) for o in r['child']['ops']], 'child_bookkeeping': r['child']['book'],
                                'pool_connect_calls_in_child': r['child']['pool_connect_calls'], 'coq_case': e[:600]})
                break
    dist['implementation'] = info
    return Corr(cases=len(exprs), nontrivial=len(nontriv), disagreements=disagreements, samples=samples, distribution=dist,
                note='every scenario is one boolean computed by vm_compute inside Coq: per-operation create/use/close events of parent and child and the '
                     'pool/session bookkeeping after each phase, model = real os.fork() run')


# ------------------------------------------------------------------------------------------------ search: the statement as oracle

def committed_markers(ops, results):
    """markers a process committed: writes of sessions that ended with end_commit at depth 1"""
    out, cur, d = [], [], 0
    for o, r in zip(ops, results):
        if o == 'begin': d += 1
        elif o == 'write' and isinstance(r['result'], int): cur.append(r['result'])
        elif o in ('end_commit', 'end_rollback') and d > 0:
            d -= 1
            if d == 0:
                if o == 'end_commit': out += cur
                cur = []
    return out


def oracle(sc, r):
    out = []
    point = sc['point']
    if 'setup_error' in r:
        return [('sessions-without-fork-fail', 'two plain sessions in one process already fail: %s' % r['setup_error'])]
    if not child_ok(r):
        out.append(('fork-at-%s:child-did-not-finish' % point, 'child status %r timed_out %r: %s' % (r['child_status'], r['child_timed_out'], json.dumps(r['child'])[:300])))
        return out
    ch = r['child']
    foreign = [e for o in ch['ops'] for e in o['events'] if e[2] != 'C']
    by_disconnect = [e for o in ch['ops'] if o['op'] == 'disconnect' for e in o['events'] if e[2] != 'C' and e[0] == 'close']
    if by_disconnect:
        out.append(('child-disconnect-closes-parent-connection',
                    'fork point %s (%s): db.disconnect() in the child closed connection %s created by the parent (Pool.disconnect does not compare pids)'
                    % (point, sc.get('backend', 'sqlite'), by_disconnect[0][2:])))
        foreign = [e for e in foreign if e not in by_disconnect]
    if foreign:
        kinds = sorted(set(e[0] for e in foreign))
        # inside a live session everything the child does with the inherited session connection has the same root cause: one key per fork point
        kkey = 'use' if point.startswith('live-session') else '+'.join(kinds)
        out.append(('fork-at-%s:child-%s-parent-connection' % (point, kkey),
                    'fork point %s: the child issued %d DB-API call(s) (%s) on connection %s created by the parent; Pool.connect calls in the child: %d'
                    % (point, len(foreign), ','.join(kinds), foreign[0][2:], ch['pool_connect_calls'])))
    for phase in ('before', 'after'):
        bad = [e for o in r[phase] for e in o['events'] if e[2] != 'P' or e[1] != 'P']
        if bad: out.append(('fork-at-%s:parent-touches-foreign-connection' % point, 'parent event %r' % (bad[0],)))
    # the parent keeps its own connection object: what was pooled / live at the fork is what it uses afterwards (unless it disconnects)
    at = r['at_fork']['pool_con']
    if at is not None and 'disconnect' not in sc['after'] and 'fail' not in sc['after']:
        created_after = [e for o in r['after'] for e in o['events'] if e[0] == 'create']
        if created_after: out.append(('fork-at-%s:parent-lost-its-connection' % point, 'parent had to reconnect after the fork: %r' % (created_after[0],)))
    # visibility of commits across the two processes
    pre = committed_markers(sc['before'], r['before'])
    if point != 'live-session-open-write-transaction':
        first_q = [o for o in ch['ops'] if o['op'] == 'query' and isinstance(o['result'], list)]
        if first_q and not set(pre) <= set(first_q[0]['result']):
            out.append(('fork-at-%s:child-does-not-see-parent-commit' % point, 'child sees %r, parent had committed %r' % (first_q[0]['result'], pre)))
        if depth_of(sc['before']) == 0:
            childc = committed_markers(sc['child'], ch['ops'])
            last_q = [o for o in r['after'] if o['op'] == 'query' and isinstance(o['result'], list)]
            if last_q and not set(childc) <= set(last_q[-1]['result']):
                out.append(('fork-at-%s:parent-does-not-see-child-commit' % point, 'parent sees %r, child had committed %r' % (last_q[-1]['result'], childc)))
    excs = [o for o in ch['ops'] + r['after'] if isinstance(o['result'], str) and o['result'].startswith('EXC')
            and not (o['op'] == 'query_fail' and o['result'] == 'EXC:OperationalError')]
    if excs: out.append(('fork-at-%s:operation-raised' % point, '%s raised %s' % (excs[0]['op'], excs[0]['result'])))
    return out


def failures_of(scs, res):
    fails, seen = [], {}
    for sc, r in zip(scs, res):
        for key, what in oracle(sc, r):
            seen[key] = seen.get(key, 0) + 1
            if seen[key] == 1: fails.append(Failure(key, '%s; scenario %s' % (what, json.dumps(sc)), {'scenario': sc, 'key': key}))
    return fails, seen


def search(ctx, deep):
    scs, res, info = get_results(ctx, deep)
    fails, seen = failures_of(scs, res)
    dist = {}
    for sc in scs: dist[sc['point']] = dist.get(sc['point'], 0) + 1
    dist['failing_scenarios_by_key'] = seen
    nt = set(json.dumps(sc, sort_keys=True) for sc, r in zip(scs, res) if nontrivial(r))
    if (ctx.seed, ctx.tier, deep) in _counted: nt = set()      # same executions as the correspondence run: count distinct cases once
    return Search(evaluations=len(scs), failures=fails, nontrivial=len(nt), distribution=dist, exhaustive=False,
                  samples=[{'scenario': scs[1], 'child_pool_connect_calls': (res[1].get('child') or {}).get('pool_connect_calls')}])


def replay(ctx, data):
    sc = data['scenario']
    # a scenario that this run has already executed is not executed again (same process, same tree)
    sig = lambda x: (x.get('backend', 'sqlite'), tuple(x['before']), tuple(x['child']), tuple(x['after']))
    res = None
    for (scs_c, res_c, _) in _cache.values():
        for x, r in zip(scs_c, res_c):
            if sig(x) == sig(sc): res = [r]; break
        if res: break
    if res is None: res, _ = run_scenarios(ctx, [sc], procs=1)
    fails, _ = failures_of([sc], res)
    want = data.get('key')
    for f in fails:
        if want is None or f.key == want: return f
    return None


LEVEL_TEXT = ('Machine-checked proof (Coq 8.16.1) over Pool.connect / OraPool.connect as re-translated from the source on every run and a hand-written model of '
              "the session cache and os.fork(): for every parent history and every sequence of child session operations, if the parent's session holds no connection "
              'at the fork, the child creates, uses and closes only connection objects it created itself; the parent keeps using its own. The remaining fork point - '
              'inside a live session that already has a connection - is refuted for every history (the child\'s next statement goes out on the parent\'s connection '
              'without passing the pid check) and recorded as a known finding, confirmed by real os.fork() runs, which also tie the model to /repo.')
LEVEL_NOTE = ('Trusted: Coq kernel + vm_compute; py2coq translator; the hand-written fork/session model (tied by real-fork correspondence on SQLite only); harness proxy for '
              'sqlite3. PGPool and the base Pool (MySQL) also run real-fork histories at pool level against a recording stub driver; OraPool (incl. SessionPool / acquire failing) is translation + theorem only. '
              'db.disconnect() in the child is inside the theorem (C36_child_with_disconnect).')
TECHNIQUE = 'py2coq translation of Pool.connect/OraPool.connect; Coq invariant proof over operation histories (induction on op lists); real os.fork() correspondence via vm_compute; statement-level oracle'
DESIGN_REF = 'DESIGN.md section 5, C36'
