"""C20 - Optimistic concurrency control prevents lost updates."""
import itertools, json
import vlib
from vlib import Corr, Search, Failure

ID = 'C20'
LEVEL = 'proof'
PROPS = ['Props/C20.v']
TRUSTED = [
    'hand-written models, each tied on every run by replaying every enumerated history on real db_sessions over one SQLite file and comparing, inside Coq '
    '(vm_compute), final rows, per-session outcome, every value observed and every captured INSERT/UPDATE statement: '
    'Model/C20Opt.v (n sessions, one shared row: Attribute.__get__/__set__ read/write bits, first load, Entity._construct_optimistic_criteria_, '
    'Entity._save_updated_ with the rowcount check, db_session commit/rollback); '
    'Model/C20Life.v (one session, several transactions: SessionCache.commit, cache.for_update and its lifetime, get_for_update re-fetch, _save_created_, '
    'what a flush does to read/write bits and dbvals); Model/C20Multi.v (one session, several objects: objects_to_save order, auto-flush in front of a '
    'statement, rollback of the whole transaction); Model/C20Decisions.v (error class of a failed check by kind of session), tied by direct tests',
    'the harness (tools/c20_sessions.py, c20_driver.py, c20_life_driver.py, c20_multi_driver.py, c20_forupdate.py): worker threads stepped one operation at a '
    'time by a controller (a step is never classified by a timeout: the hard timeout only reports a hang; whether another session may commit is decided by '
    'reading provider.transaction_lock.locked()), sqlite3 set_trace_callback capture of expanded SQL, parser of the captured statements',
    'SQLite executes `UPDATE ... WHERE` atomically and reports rowcount; a BEGIN IMMEDIATE ... COMMIT transaction is atomic; '
    'threading.Lock is a mutex (the provider serialises write transactions with it)',
]
ASSUMPTIONS = [
    'schedule model (C20Opt): one shared object; optimistic db_sessions whose operations are attribute reads, attribute writes (constant, or another attribute '
    'of the object plus a constant) and the commit at the end of the db_session; flushes happen only inside the commit step, so no session holds the SQLite '
    'write lock between two steps',
    'model Life: one session, one object without volatile attributes; created objects get all attributes non-None; model Multi: one session, objects with two '
    'plain attributes; in both the other sessions are a raw connection that commits only while provider.transaction_lock is free (it would block otherwise)',
    'values are None or small integers (float attributes hold integral values; RealConverter compares with a 1e-14 relative tolerance, '
    'which coincides with equality on them); int attribute range checks are not exercised',
    'PostgreSQL is not executed in this sandbox: the session-side logic modelled here is provider independent, the row-level '
    'behaviour of `UPDATE ... WHERE` under READ COMMITTED (re-evaluation of the WHERE clause after a concurrent commit) is assumed',
    'outside the statement as written (documented observations, pinned by direct tests): DELETE carries no optimistic criteria and ignores rowcount; '
    'an object that is only read (not updated) is not checked (write skew); select().for_update(), db_session(optimistic=False) and two flushes in one '
    'transaction are covered by direct tests only',
]
RULE = ('exhaustive per enumerated pair: unordered pairs of programs from a fixed pool of 17 short programs (quick tier: the diagonal, all pairs with the increment programs and a seed-dependent fifth of the others; thorough: all 153) (read/write of plain, optimistic=False, '
        'float, float optimistic=True and volatile attributes, increments, read-own-write, NULL values) x every complete interleaving, '
        'plus seeded triples of 2-operation programs x every interleaving; plus 12 multi-transaction session programs (explicit commit() in the middle, get_for_update, created object) x every other-session commit x every insertion position (pairs of insertions in the deep/thorough tiers); non-trivial = an UPDATE carried at least one optimistic '
        'criterion or a session ended in OptimisticCheckError; distinct = distinct (initial row, programs, schedule)')

K = 6          # attributes a b c f g v
SCHEMA = ('[{| a_decl := None; a_conv := true; a_vol := false |}; {| a_decl := None; a_conv := true; a_vol := false |}; '
          '{| a_decl := Some false; a_conv := true; a_vol := false |}; {| a_decl := None; a_conv := false; a_vol := false |}; '
          '{| a_decl := Some true; a_conv := false; a_vol := false |}; {| a_decl := None; a_conv := true; a_vol := true |}]')
LIFE_SCHEMA = ('[{| a_decl := None; a_conv := true; a_vol := false |}; {| a_decl := None; a_conv := true; a_vol := false |}; '
               '{| a_decl := Some false; a_conv := true; a_vol := false |}]')
MSCH = '[{| a_decl := None; a_conv := true; a_vol := false |}; {| a_decl := None; a_conv := true; a_vol := false |}]'
PROTECTED = [True, True, False, False, True, False]     # declared: optimistic (own option, else converter default) and not volatile
A, B, C_, F, G, V = range(6)

def R(a): return ['R', a]
def W(a, v): return ['W', a, ['C', v]]
def WP(a, b, d): return ['W', a, ['P', b, d]]
KOMMIT = ['K']

POOL = [
    [R(A), WP(A, A, 1), KOMMIT],
    [WP(A, A, 1), KOMMIT],
    [R(B), W(A, 5), KOMMIT],
    [W(B, 7), KOMMIT],
    [R(A), W(A, 9), R(A), KOMMIT],
    [W(A, 9), R(A), KOMMIT],
    [R(C_), W(A, 1), KOMMIT],
    [W(C_, 4), KOMMIT],
    [R(F), W(B, 2), KOMMIT],
    [WP(F, F, 1), KOMMIT],
    [R(G), W(B, 3), KOMMIT],
    [WP(G, G, 1), KOMMIT],
    [R(V), W(A, 2), KOMMIT],
    [W(V, 8), KOMMIT],
    [R(A), KOMMIT],
    [R(B), WP(B, A, 1), KOMMIT],
    [WP(A, B, 1), KOMMIT],
]
DB_A = [10, None, 3, 1, 2, 7]
DB_B = [10, 20, 3, 1, 2, 7]


def reads_b(p):
    return any((op[0] == 'R' and op[1] == B) or (op[0] == 'W' and op[2][0] == 'P' and op[2][1] == B) for op in p)


def interleavings(lens):
    """all complete schedules: sequences over session ids with lens[i] occurrences of i"""
    def rec(rem):
        if not any(rem):
            yield []
            return
        for i, r in enumerate(rem):
            if r:
                rem[i] -= 1
                for t in rec(rem): yield [i] + t
                rem[i] += 1
    return rec(list(lens))


def gen_cases(ctx, deep=False):
    cases = []
    n = len(POOL)
    full = ctx.thorough or deep
    for i in range(n):
        for j in range(i, n):
            # quick tier: the diagonal, every pair with the two increment programs, and a seed-dependent half of the rest
            if not full and not (i == j or i <= 1 or (i * n + j + ctx.seed) % 5 == 0): continue
            progs = [POOL[i], POOL[j]]
            dbs = [DB_A, DB_B] if (reads_b(POOL[i]) or reads_b(POOL[j])) else [DB_A]
            for db0 in dbs:
                for sched in interleavings([len(POOL[i]), len(POOL[j])]):
                    cases.append({'db0': db0, 'progs': progs, 'sched': sched})
    two = [p for p in POOL if len(p) == 2]
    triples = list(itertools.combinations_with_replacement(range(len(two)), 3))
    if not ctx.thorough:
        rng = __import__('random').Random(ctx.seed * 7919 + 20)
        triples = [(0, 0, 0)] + rng.sample(triples, 24 if deep else 3)
    for t in triples:
        progs = [two[x] for x in t]
        for sched in interleavings([2, 2, 2]):
            cases.append({'db0': DB_B if any(reads_b(p) for p in progs) else DB_A, 'progs': progs, 'sched': sched})
    if ctx.thorough:
        # one triple of 3-operation programs
        progs = [POOL[0], POOL[0], POOL[2]]
        for sched in interleavings([3, 3, 3]):
            cases.append({'db0': DB_A, 'progs': progs, 'sched': sched})
    if True:
        # incomplete schedules (sessions still open at the end)
        for i in range(0, n, 3 if (ctx.thorough or deep) else 6):
            for sched in interleavings([len(POOL[i]) - 1, 2]):
                cases.append({'db0': DB_A, 'progs': [POOL[i], POOL[1]], 'sched': sched})
    return cases


# ------------------------------------------------------------------------------------------------ implementation runs (cached)

_cache = {}

def case_key(c):
    return json.dumps([c['db0'], c['progs'], c['sched']])


def run_real(cases):
    todo = [c for c in cases if case_key(c) not in _cache]
    if todo:
        out = vlib.run_impl('c20_driver.py', {'cases': todo}, timeout=1500)
        for c, r in zip(todo, out['results']):
            _cache[case_key(c)] = r
        if out.get('error') or out.get('stuck'):
            k = len(out['results'])
            bad = todo[k] if k < len(todo) else None
            raise DriverProblem(out.get('stuck') or out.get('error'), bad)
    return [_cache[case_key(c)] for c in cases]


class DriverProblem(Exception):
    def __init__(self, what, case):
        Exception.__init__(self, str(what)); self.what = what; self.case = case


# ------------------------------------------------------------------------------------------------ Coq serialisation

def cval(v):
    return 'None' if v is None else '(Some %s)' % vlib.cz(v)

def cop(op):
    if op[0] == 'R': return '(Read %d)' % op[1]
    if op[0] == 'K': return 'Commit'
    e = op[2]
    if e[0] == 'C': return '(Write %d (EConst %s))' % (op[1], cval(e[1]))
    return '(Write %d (EPlus %d %s))' % (op[1], e[1], vlib.cz(e[2]))

def cstatus(s):
    if s == 'A': return 'Active'
    if s == 'C': return 'Committed'
    return '(Failed %d)' % s

def cpairs(l):
    return '[' + '; '.join('(%d%%nat, %s)' % (a, cval(v)) for a, v in l) + ']'

class Unmodelled(Exception): pass

def cevent(e):
    if e[0] == 'obs': return '(EvObs %d %d %s true)' % (e[1], e[2], cval(e[3]))
    if e[0] == 'upd':
        if any(v == '=NULL' for _, v in e[3]): raise Unmodelled('UPDATE compares a column with `= NULL`')
        return '(EvUpdate %d %s %s %s)' % (e[1], cpairs(e[2]), cpairs(e[3]), vlib.cbool(e[4]))
    if e[0] == 'end': return '(EvEnd %d %s)' % (e[1], cstatus(e[2]))
    raise Unmodelled(str(e))

def clist(xs, f):
    return '[' + '; '.join(f(x) for x in xs) + ']'

def coq_case(c, r):
    n = len(c['progs'])
    model = 'outcome %d %d SCH %s %s %s' % (K, n, clist(c['db0'], cval), clist(c['progs'], lambda p: clist(p, cop)),
                                            '(' + clist(c['sched'], str) + '%nat : list nat)' if c['sched'] else '(@nil nat)')
    impl = '(%s, %s, %s)' % (clist(r['final'], cval), clist(r['status'], cstatus), clist(r['events'], cevent))
    return 'outcome_eqb (%s) %s' % (model, impl)

HEADER = ('Require Import PonyV.Model.C20Opt PonyV.Model.C20Life PonyV.Model.C20Multi.\nFrom Coq Require Import ZArith List Bool.\nImport ListNotations.\nOpen Scope nat_scope.\n'
          'Definition SCH : list attr := %s.\nDefinition LSCH : list attr := %s.\nDefinition MSCH : list attr := %s.\n' % (SCHEMA, LIFE_SCHEMA, MSCH))


def run_bools(ctx, exprs, chunk=450):
    chunks = []
    for i in range(0, len(exprs), chunk):
        chunks.append('Definition cases : list bool := [\n' + ';\n'.join(exprs[i:i + chunk]) + '].\nEval vm_compute in (failing cases).\n')
    outs = vlib.coq_eval_many(ctx, HEADER, chunks)
    bad = []
    for k, out in enumerate(outs):
        vals = vlib.parse_eval_outputs(out)
        assert len(vals) == 1, out[-500:]
        inner = vals[0].strip().strip('[]').strip()
        if inner:
            for tok in inner.split(';'):
                bad.append(k * chunk + int(tok.strip().replace('%nat', '')))
    return bad


# ------------------------------------------------------------------------------------------------ correspondence

def nontrivial_case(r):
    return any((e[0] == 'upd' and e[3]) or (e[0] == 'end' and e[2] == 1) for e in r['events'])


def correspondence(ctx):
    cases = gen_cases(ctx)
    disagreements, samples = [], []
    dist = {'pairs': 0, 'triples': 0, 'committed': 0, 'optimistic_errors': 0, 'type_errors': 0, 'updates': 0, 'updates_with_criteria': 0,
            'is_null_criteria': 0, 'for_update_checks': 0}
    try:
        results = run_real(cases)
    except DriverProblem as e:
        return Corr(cases=len(_cache), disagreements=[{'what': 'real sessions did not finish (deadlock or driver error)', 'input': e.case, 'impl': str(e.what)[:1500]}])
    exprs, meta, nontriv = [], [], set()
    for c, r in zip(cases, results):
        dist['pairs' if len(c['progs']) == 2 else 'triples'] += 1
        for e in r['events']:
            if e[0] == 'end':
                dist['committed' if e[2] == 'C' else 'optimistic_errors' if e[2] == 1 else 'type_errors'] += 1
            if e[0] == 'upd':
                dist['updates'] += 1
                if e[3]: dist['updates_with_criteria'] += 1
                if any(v is None for _, v in e[3]): dist['is_null_criteria'] += 1
        if r['other'] or r['lock_left_held']:
            disagreements.append({'what': 'unexpected exception or lock left held', 'input': c, 'impl': [r['other'], r['lock_left_held']]})
            continue
        try:
            exprs.append(coq_case(c, r)); meta.append((c, r))
        except Unmodelled as e:
            disagreements.append({'what': 'implementation output outside the model: %s' % e, 'input': c, 'impl': r['events']})
            continue
        if nontrivial_case(r): nontriv.add(case_key(c))
    bad = run_bools(ctx, exprs) if exprs else []
    for i in bad[:20]:
        c, r = meta[i]
        disagreements.append({'what': 'model and real sessions differ (final row / outcomes / observed values / UPDATE statements)', 'input': c,
                              'impl': {'final': r['final'], 'status': r['status'], 'events': [e[:5] if e[0] != 'end' else e[:3] for e in r['events']]},
                              'coq_case': exprs[i][:1500]})
    # model Life: multi-transaction session, get_for_update, created objects
    lcases = life_cases(ctx)
    dist['life_cases'] = len(lcases); dist['life_optimistic_errors'] = 0; dist['life_exempt_updates'] = 0
    try:
        lres = run_life(lcases)
    except DriverProblem as e:
        lres = []; disagreements.append({'what': 'multi-transaction session did not finish (deadlock or driver error)', 'input': e.case, 'impl': str(e.what)[:1500]})
    lexprs, lmeta = [], []
    for c, r in zip(lcases, lres):
        if r['other'] or r['lock_left_held']:
            disagreements.append({'what': 'unexpected exception or lock left held (multi-transaction session)', 'input': c, 'impl': [r['other'], r['lock_left_held']]}); continue
        dist['life_optimistic_errors'] += sum(1 for e in r['events'] if e[0] == 'fail' and e[1] == 1)
        dist['life_exempt_updates'] += sum(1 for e in r['events'] if e[0] == 'upd' and not e[2])
        try:
            lexprs.append(life_coq_case(c, r)); lmeta.append((c, r))
        except Unmodelled as e:
            disagreements.append({'what': 'implementation output outside the model: %s' % e, 'input': c, 'impl': r['events']})
        if any(e[0] == 'X' for e in c['evs']) and any(e[0] == 'upd' for e in r['events']): nontriv.add(json.dumps(c))
    for i in (run_bools(ctx, lexprs) if lexprs else [])[:10]:
        c, r = lmeta[i]
        disagreements.append({'what': 'model Life and the real multi-transaction session differ (final row / lock / observations / INSERT-UPDATE statements / error)',
                              'input': c, 'impl': {'final': r['final'], 'locked': r['locked'], 'events': [e[:4] if e[0] == 'upd' else e[:2] if e[0] == 'fail' else e for e in r['events']]},
                              'coq_case': lexprs[i][:1500]})
    # model Multi: several objects in one session (all-or-nothing, auto-flush)
    mcases = multi_cases(ctx)
    dist['multi_cases'] = len(mcases); dist['multi_failed_sessions'] = 0
    try:
        mres = run_multi(mcases)
    except DriverProblem as e:
        mres = []; disagreements.append({'what': 'multi-object session did not finish (deadlock or driver error)', 'input': e.case, 'impl': str(e.what)[:1500]})
    mexprs, mmeta = [], []
    for c, r in zip(mcases, mres):
        if r['other'] or r['lock_left_held']:
            disagreements.append({'what': 'unexpected exception or lock left held (multi-object session)', 'input': c, 'impl': [r['other'], r['lock_left_held']]}); continue
        dist['multi_failed_sessions'] += any(e[0] == 'fail' for e in r['events'])
        try:
            mexprs.append(multi_coq_case(c, r)); mmeta.append((c, r))
        except Unmodelled as e:
            disagreements.append({'what': 'implementation output outside the model: %s' % e, 'input': c, 'impl': r['events']})
        if any(e[0] == 'X' for e in c['evs']) and sum(1 for e in r['events'] if e[0] == 'upd') >= 2: nontriv.add(json.dumps(c))
    for i in (run_bools(ctx, mexprs) if mexprs else [])[:10]:
        c, r = mmeta[i]
        disagreements.append({'what': 'model Multi and the real multi-object session differ (final rows / lock / observations / UPDATE statements / error)',
                              'input': c, 'impl': {'final': r['final'], 'locked': r['locked'], 'events': [e[:5] if e[0] == 'upd' else e[:2] if e[0] == 'fail' else e for e in r['events']]},
                              'coq_case': mexprs[i][:1500]})
    fu = for_update_check()
    dist['for_update_checks'] = fu['checks']
    disagreements += fu['disagreements']
    for c, r in list(zip(cases, results))[:1] + [(c, r) for c, r in zip(cases, results) if r['status'] == ['C', 1]][:2]:
        samples.append({'db0': c['db0'], 'progs': c['progs'], 'sched': c['sched'], 'status': r['status'], 'final': r['final'],
                        'events': [e[:5] if e[0] != 'end' else e[:3] for e in r['events']]})
    if lres: samples.append({'life_case': lcases[len(lcases) // 2], 'events': lres[len(lcases) // 2]['events']})
    return Corr(cases=len(exprs) + len(lexprs) + len(mexprs) + fu['checks'], nontrivial=len(nontriv), disagreements=disagreements, samples=samples, distribution=dist,
                note='every case: one Coq bool = outcome_eqb (model outcome of (row, programs, schedule)) (real outcome), evaluated by vm_compute')


_direct = []

def for_update_check_raw(fresh=False):
    if fresh or not _direct:
        del _direct[:]
        _direct.extend(vlib.run_impl('c20_forupdate.py', {}, timeout=120)['tests'])
    return _direct


def for_update_check():
    """Decision checks on the real code: exemptions from optimistic criteria; error class outside a db_session.
    A test that carries a `finding` key states what the PROPERTY asks for: its mismatch is reported by the search (known finding
    or violation), not as a broken tie."""
    dis = []
    tests = for_update_check_raw()
    for t in tests:
        if t['got'] != t['want'] and not t.get('finding'):
            dis.append({'what': 'direct check: %s' % t['name'], 'input': t['name'], 'impl': t['got'], 'model': t['want']})
        if t.get('finding') and t['got'] != t['want'] and t['got'] != t.get('as_coded'):
            dis.append({'what': 'direct check (behaviour changed): %s' % t['name'], 'input': t['name'], 'impl': t['got'], 'model': t.get('as_coded')})
    return {'checks': len(tests), 'disagreements': dis}


# ------------------------------------------------------------------------------------------------ model Life: several transactions in one session
# one db_session with explicit commits in the middle, get_for_update and created objects; other sessions' commits inserted at every position

LIFE_PROTECTED = [True, True, False]
FU, LK = ['forupd'], ['K']
def CR(vs): return ['create', vs]
def X(a, v): return ['X', a, v]
LIFE_PROGS = [
    ([10, 20, 30], [FU, R(0), LK, WP(0, 0, -5), LK]),
    (None,         [CR([100, 2, 3]), LK, R(0), WP(0, 0, -5), LK]),
    ([10, 20, 30], [R(0), LK, WP(0, 0, 1), LK]),
    ([10, 20, 30], [FU, R(0), W(0, 5), LK, R(0), WP(0, 0, 1), LK]),
    ([10, 20, 30], [R(0), W(1, 3), FU, R(0), LK]),
    ([10, 20, 30], [R(0), FU, WP(0, 0, 1), LK, W(1, 1), LK]),
    (None,         [CR([1, 2, 3]), R(0), W(0, 9), LK, W(1, 4), LK]),
    ([10, 20, 30], [FU, R(2), LK, W(0, 1), LK]),
    ([10, 20, 30], [R(0), LK, FU, WP(1, 0, 1), LK]),
    (None,         [CR([1, 2, 3]), LK, FU, W(0, 4), LK, R(1), W(0, 5), LK]),
    ([10, None, 30], [FU, R(1), LK, W(0, 2), LK]),
    ([10, 20, 30], [R(0), W(1, 3), LK, W(1, 4), LK]),        # a read attribute stays protected after a flush that wrote another one
]
LIFE_ACTS = [X(0, 70), X(1, 71), X(2, 72), X(1, None)]


def life_cases(ctx, deep=False):
    cases, seen = [], set()
    for n, (d0, prog) in enumerate(LIFE_PROGS):
        for m in (0, 1) + ((2,) if (ctx.thorough or deep) else ()):
            for seq in itertools.product(range(len(LIFE_ACTS)), repeat=m):
                for pos in itertools.combinations_with_replacement(range(len(prog) + 1), m):
                    evs, k = [], 0
                    for i in range(len(prog) + 1):
                        while k < m and pos[k] == i:
                            evs.append(LIFE_ACTS[seq[k]]); k += 1
                        if i < len(prog): evs.append(prog[i])
                    c = {'life': True, 'd0': d0, 'evs': evs}
                    key = json.dumps(c)
                    if key not in seen:
                        seen.add(key); cases.append(c)
    return cases


_life_cache = {}

def run_life(cases):
    todo = [c for c in cases if json.dumps(c) not in _life_cache]
    if todo:
        out = vlib.run_impl('c20_life_driver.py', {'cases': todo}, timeout=1500)
        for c, r in zip(todo, out['results']):
            _life_cache[json.dumps(c)] = r
        if out.get('error') or out.get('stuck'):
            k = len(out['results'])
            raise DriverProblem(out.get('stuck') or out.get('error'), todo[k] if k < len(todo) else None)
    return [_life_cache[json.dumps(c)] for c in cases]


def clev(e):
    if e[0] == 'create': return '(LCreate [%s])' % '; '.join(vlib.cz(v) for v in e[1])
    if e[0] == 'forupd': return 'LForUpd'
    if e[0] == 'K': return 'LCommit'
    if e[0] == 'R': return '(LRead %d)' % e[1]
    if e[0] == 'X': return '(LExt %d %s)' % (e[1], cval(e[2]))
    if e[2][0] == 'C': return '(LWrite %d (EConst %s))' % (e[1], cval(e[2][1]))
    return '(LWrite %d (EPlus %d %s))' % (e[1], e[2][1], vlib.cz(e[2][2]))

def cltev(e):
    if e[0] == 'obs': return '(LObs %d %s)' % (e[1], cval(e[2]))
    if e[0] == 'ins': return '(LInsert %s)' % clist(e[1], cval)
    if e[0] == 'upd':
        if any(v == '=NULL' for _, v in e[2]): raise Unmodelled('UPDATE compares a column with `= NULL`')
        return '(LUpdate %s %s %s)' % (cpairs(e[1]), cpairs(e[2]), vlib.cbool(e[3]))
    if e[0] == 'fail': return '(LFail %d)' % e[1]
    raise Unmodelled(str(e))

def life_coq_case(c, r):
    d0 = 'None' if c['d0'] is None else '(Some %s)' % clist(c['d0'], cval)
    fin = 'None' if r['final'] is None else '(Some %s)' % clist(r['final'], cval)
    evs = clist(r['events'], cltev) if r['events'] else '(@nil ltev)'
    return 'loutcome_eqb (loutcome 3 LSCH %s %s) (%s, %s, %s)' % (d0, clist(c['evs'], clev), fin, vlib.cbool(r['locked']), evs)


def life_oracle(c, r):
    """C20 on one multi-transaction session, from the real events only: an UPDATE that is applied must find every protected
    attribute the session has read from the database (and not overwritten itself since) unchanged; a failed step commits nothing."""
    bad = []
    kind = 'created' if any(e[0] == 'create' for e in c['evs']) else 'for-update' if any(e[0] == 'forupd' for e in c['evs']) else 'plain'
    known, pending = {}, set()
    evs, pos = list(r['events']), 0
    def failed_here():
        nonlocal pos
        if pos < len(evs) and evs[pos][0] == 'fail':
            x = evs[pos]
            if x[2] != x[3]: bad.append(('life:%s:failed-step-committed' % kind, 'the step failed but the committed row changed %r -> %r' % (x[2], x[3])))
            pos = len(evs) + 1
            return True
        return False
    for e in c['evs']:
        if e[0] == 'X': continue
        if pos > len(evs): break
        if e[0] == 'R' or (e[0] == 'W' and e[2][0] == 'P'):
            src = e[1] if e[0] == 'R' else e[2][1]
            if pos < len(evs) and evs[pos][0] == 'obs' and evs[pos][1] == src:
                if src not in pending: known[src] = evs[pos][2]
                pos += 1
        if e[0] == 'W':
            if failed_here(): break
            known.pop(e[1], None); pending.add(e[1])
        if e[0] in ('K', 'forupd'):
            while pos < len(evs) and evs[pos][0] in ('ins', 'upd'):
                x = evs[pos]; pos += 1
                if x[0] == 'upd' and x[3]:
                    before = x[4]
                    stale = sorted(a for a, v in known.items() if LIFE_PROTECTED[a] and before is not None and before[a] != v)
                    if stale:
                        bad.append(('life:%s:lost-update-in-later-transaction' % kind,
                                    'the session had read %r, another session then committed (row %r), and the session\'s UPDATE SET %r WHERE %r was applied '
                                    'without OptimisticCheckError (first transaction of the session: %s)' % ({a: known[a] for a in stale}, before, x[1], x[2], kind)))
                    pending.clear()
                if x[0] == 'ins': pending.clear()
        if failed_here(): break
    return bad


# ------------------------------------------------------------------------------------------------ model Multi: several objects in one session
MSCH = '[{| a_decl := None; a_conv := true; a_vol := false |}; {| a_decl := None; a_conv := true; a_vol := false |}]'
def MR(o, a): return ['R', o, a]
def MW(o, a, v): return ['W', o, a, ['C', v]]
def MWP(o, a, b, d): return ['W', o, a, ['P', b, d]]
def MX(o, a, v): return ['X', o, a, v]
MULTI_D0 = [[10, 20], [30, 40]]
MULTI_PROGS = [
    [MR(0, 0), MR(1, 0), MWP(0, 0, 0, 1), MWP(1, 0, 0, 1), LK],            # both loaded before the writes: no lock until the commit
    [MR(0, 0), MW(0, 0, 5), MR(1, 0), MW(1, 0, 6), LK],                     # loading object 1 auto-flushes object 0: lock held from there on
    [MW(0, 1, 1), MW(1, 1, 2), LK, MR(0, 0), MW(0, 0, 3), MW(1, 0, 4), LK],
    [MR(0, 0), MR(1, 1), MW(1, 0, 7), MW(0, 1, 8), LK],                     # objects_to_save order: object 1 first
    [MR(1, 0), MW(0, 0, 1), LK],                                            # object 1 only read: not checked (write skew is outside the statement)
    [MR(0, 0), MR(1, 0), MW(0, 1, 1), LK, MW(1, 1, 2), MW(0, 1, 3), LK],
]
MULTI_ACTS = [MX(0, 0, 70), MX(1, 0, 71), MX(1, 1, 72), MX(0, 1, None)]


def multi_cases(ctx, deep=False):
    cases, seen = [], set()
    for n, prog in enumerate(MULTI_PROGS):
        for m in (0, 1) + ((2,) if (ctx.thorough or deep) else ()):
            for seq in itertools.product(range(len(MULTI_ACTS)), repeat=m):
                for pos in itertools.combinations_with_replacement(range(len(prog) + 1), m):
                    evs, k = [], 0
                    for i in range(len(prog) + 1):
                        while k < m and pos[k] == i:
                            evs.append(MULTI_ACTS[seq[k]]); k += 1
                        if i < len(prog): evs.append(prog[i])
                    c = {'multi': True, 'd0': MULTI_D0, 'evs': evs}
                    key = json.dumps(c)
                    if key not in seen:
                        seen.add(key); cases.append(c)
    return cases


_multi_cache = {}

def run_multi(cases):
    todo = [c for c in cases if json.dumps(c) not in _multi_cache]
    if todo:
        out = vlib.run_impl('c20_multi_driver.py', {'cases': todo}, timeout=1500)
        for c, r in zip(todo, out['results']):
            _multi_cache[json.dumps(c)] = r
        if out.get('error') or out.get('stuck'):
            k = len(out['results'])
            raise DriverProblem(out.get('stuck') or out.get('error'), todo[k] if k < len(todo) else None)
    return [_multi_cache[json.dumps(c)] for c in cases]


def cmev(e):
    if e[0] == 'K': return 'MCommit'
    if e[0] == 'R': return '(MRead %d %d)' % (e[1], e[2])
    if e[0] == 'X': return '(MExt %d %d %s)' % (e[1], e[2], cval(e[3]))
    if e[3][0] == 'C': return '(MWrite %d %d (EConst %s))' % (e[1], e[2], cval(e[3][1]))
    return '(MWrite %d %d (EPlus %d %s))' % (e[1], e[2], e[3][1], vlib.cz(e[3][2]))

def cmtev(e):
    if e[0] == 'obs': return '(MObs %d %d %s)' % (e[1], e[2], cval(e[3]))
    if e[0] == 'upd':
        if any(v == '=NULL' for _, v in e[3]): raise Unmodelled('UPDATE compares a column with `= NULL`')
        return '(MUpd %d %s %s %s)' % (e[1], cpairs(e[2]), cpairs(e[3]), vlib.cbool(e[4]))
    if e[0] == 'fail': return '(MFail %d)' % e[1]
    raise Unmodelled(str(e))

def multi_coq_case(c, r):
    evs = clist(r['events'], cmtev) if r['events'] else '(@nil mtev)'
    return 'moutcomem_eqb (moutcomem 2 %d MSCH %s %s) (%s, %s, %s)' % (
        len(c['d0']), clist(c['d0'], lambda row: clist(row, cval)), clist(c['evs'], cmev),
        clist(r['final'], lambda row: clist(row, cval)), vlib.cbool(r['locked']), evs)


def multi_oracle(c, r):
    """all-or-nothing across objects and per-object optimistic protection, from the real events only"""
    bad = []
    known, pending = {}, set()          # (object, attribute) -> value read from the database
    evs, pos = list(r['events']), 0
    for e in c['evs']:
        if e[0] == 'X': continue
        # statements of the (auto-)flush of this step
        while pos < len(evs) and evs[pos][0] == 'upd':
            x = evs[pos]; pos += 1
            if x[4]:
                before = x[5]
                stale = sorted((o, a) for (o, a), v in known.items() if o == x[1] and before[o][a] != v)
                if stale:
                    bad.append(('multi:lost-update', 'object %d: the session had read %r, the row was %r, and its UPDATE SET %r WHERE %r was applied'
                                % (x[1], {k: known[k] for k in stale}, before[x[1]], x[2], x[3])))
                pending -= {(x[1], a) for a, _ in x[2]}
        if pos < len(evs) and evs[pos][0] == 'fail':
            x = evs[pos]
            if x[2] != x[3]:
                bad.append(('multi:failed-session-partly-visible', 'the step failed (%r) but the committed rows changed %r -> %r: not all-or-nothing' % (x[1], x[2], x[3])))
            break
        if e[0] == 'R' or (e[0] == 'W' and e[3][0] == 'P'):
            src = e[2] if e[0] == 'R' else e[3][1]
            if pos < len(evs) and evs[pos][0] == 'obs' and evs[pos][1] == e[1] and evs[pos][2] == src:
                if (e[1], src) not in pending: known[(e[1], src)] = evs[pos][3]
                pos += 1
        if pos < len(evs) and evs[pos][0] == 'fail':
            x = evs[pos]
            if x[2] != x[3]: bad.append(('multi:failed-session-partly-visible', 'the step failed but the committed rows changed %r -> %r' % (x[2], x[3])))
            break
        if e[0] == 'W':
            known.pop((e[1], e[2]), None); pending.add((e[1], e[2]))
    return bad


# ------------------------------------------------------------------------------------------------ search (property oracle)

def oracle(c, r):
    """The statement of C20 checked directly on one real run (no Coq model involved). Returns list of (key, what)."""
    n = len(c['progs'])
    bad = []
    seen = [dict() for _ in range(n)]         # attribute -> value observed from the database (before an own write)
    written = [dict() for _ in range(n)]      # attribute -> value written (as evaluated by the session)
    pcs = [0] * n
    ev = list(r['events'])
    pos = 0
    status = ['A'] * n
    serial = list(c['db0'])
    for i in c['sched']:
        if status[i] != 'A' or pcs[i] >= len(c['progs'][i]): continue
        op = c['progs'][i][pcs[i]]; pcs[i] += 1
        def take(kind):
            nonlocal pos
            if pos < len(ev) and ev[pos][0] == kind and ev[pos][1] == i:
                pos += 1; return ev[pos - 1]
            return None
        if op[0] == 'R':
            e = take('obs')
            if e is None:
                if take('end') is None: bad.append(('harness:missing-observation', 'no observation recorded for %r' % op))
                status[i] = 'X'; continue
            if op[1] not in written[i]: seen[i].setdefault(op[1], e[3])
            elif e[3] != written[i][op[1]]: bad.append(('read-own-write', 'session %d read %r for attribute %d after writing %r' % (i, e[3], op[1], written[i][op[1]])))
        elif op[0] == 'W':
            if op[2][0] == 'C': written[i][op[1]] = op[2][1]
            else:
                e = take('obs')
                if e is None: status[i] = 'X'; continue
                src = op[2][1]
                if src not in written[i]: seen[i].setdefault(src, e[3])
                if e[3] is None:
                    e2 = take('end'); status[i] = e2[2] if e2 else 'X'; continue
                written[i][op[1]] = e[3] + op[2][2]
        elif op[0] == 'K':
            while take('upd') is not None: pass
            e = take('end')
            if e is None: bad.append(('harness:missing-end', 'no end event')); continue
            code, before, after = e[2], e[3], e[4]
            status[i] = code
            stale = [a for a, v in seen[i].items() if PROTECTED[a] and before[a] != v]
            shape = 'reads=%s;writes=%s' % (sorted(seen[i]), sorted(written[i]))
            if code == 'C':
                expect = list(before)
                for a, v in written[i].items(): expect[a] = v
                if written[i] and stale:
                    bad.append(('lost-update:%s:stale=%s' % (shape, stale),
                                'session %d committed its update although attribute(s) %s it had read changed meanwhile (read %r, row before commit %r)'
                                % (i, stale, {a: seen[i][a] for a in stale}, before)))
                if after != expect:
                    bad.append(('commit-wrong-row:%s' % shape, 'session %d committed: row is %r, expected %r' % (i, after, expect)))
                for a, v in written[i].items(): serial[a] = v
            elif code == 1:
                if after != before:
                    bad.append(('failed-session-visible:%s' % shape, 'session %d failed with OptimisticCheckError but the row changed %r -> %r' % (i, before, after)))
                if not stale:
                    bad.append(('spurious-optimistic-error:%s' % shape, 'session %d failed with OptimisticCheckError although everything it read is unchanged (%r)' % (i, before)))
            else:
                bad.append(('unexpected-outcome:%s' % code, 'session %d ended its commit with %r' % (i, code)))
    if r['final'] != serial:
        bad.append(('final-not-serial', 'final row %r differs from the committed sessions applied in commit order %r' % (r['final'], serial)))
    return bad


def search(ctx, deep):
    cases = gen_cases(ctx, deep)
    if deep:
        rng = __import__('random').Random(ctx.seed * 104729 + 20)
        ops = [R(a) for a in range(K)] + [W(a, v) for a in range(K) for v in (1, None)] + [WP(a, a, 1) for a in range(K)] + [WP(A, B, 1), WP(B, A, 2)]
        for _ in range(ctx.scale(300, 1500)):
            n = rng.choice([2, 2, 3])
            progs = [[rng.choice(ops) for _ in range(rng.randint(1, 3))] + [KOMMIT] for _ in range(n)]
            sched = [i for i, p in enumerate(progs) for _ in p]
            rng.shuffle(sched)
            cases.append({'db0': rng.choice([DB_A, DB_B]), 'progs': progs, 'sched': sched})
    failures, nontriv, seen_keys = [], set(), {}
    dist = {'cases': len(cases), 'reused_from_correspondence': sum(1 for c in cases if case_key(c) in _cache)}
    try:
        results = run_real(cases)
    except DriverProblem as e:
        return Search(evaluations=len(_cache), failures=[Failure('deadlock-or-driver-error', 'real sessions did not finish: %s' % str(e.what)[:500], {'case': e.case})],
                      distribution=dist)
    for c, r in zip(cases, results):
        for key, what in oracle(c, r):
            if seen_keys.setdefault(key, 0) < 1:
                failures.append(Failure(key, '%s  [row %r, programs %r, schedule %r]' % (what, c['db0'], c['progs'], c['sched']), {'case': c}))
            seen_keys[key] += 1
        if nontrivial_case(r): nontriv.add(case_key(c))
    lcases = life_cases(ctx, deep)
    dist['life_cases'] = len(lcases)
    try:
        for c, r in zip(lcases, run_life(lcases)):
            for key, what in life_oracle(c, r):
                if seen_keys.setdefault(key, 0) < 1:
                    failures.append(Failure(key, '%s  [initial row %r, events %r]' % (what, c['d0'], c['evs']), {'case': c}))
                seen_keys[key] += 1
    except DriverProblem as e:
        failures.append(Failure('deadlock-or-driver-error', 'multi-transaction session did not finish: %s' % str(e.what)[:500], {'case': e.case}))
    mcases = multi_cases(ctx, deep)
    dist['multi_cases'] = len(mcases)
    try:
        for c, r in zip(mcases, run_multi(mcases)):
            for key, what in multi_oracle(c, r):
                if seen_keys.setdefault(key, 0) < 1:
                    failures.append(Failure(key, '%s  [rows %r, events %r]' % (what, c['d0'], c['evs']), {'case': c}))
                seen_keys[key] += 1
    except DriverProblem as e:
        failures.append(Failure('deadlock-or-driver-error', 'multi-object session did not finish: %s' % str(e.what)[:500], {'case': e.case}))
    for t in for_update_check_raw():
        if t['got'] != t['want'] and t.get('finding'):
            if seen_keys.setdefault(t['finding'], 0) < 1:
                failures.append(Failure(t['finding'], '%s: got %r, the property asks for %r' % (t['name'], t['got'], t['want']), {'case': {'direct': t['name']}}))
            seen_keys[t['finding']] += 1
    dist['failing_cases_by_key'] = seen_keys
    return Search(evaluations=len(cases) + len(lcases) + len(mcases), failures=failures, nontrivial=0 if dist['reused_from_correspondence'] == len(cases) else len(nontriv),
                  distribution=dist, exhaustive=True,
                  samples=[{'oracle': 'committed => every protected attribute read still had the value read; failed => row untouched; final row = commits in order'}])


def replay(ctx, data):
    c = data['case']
    if c is None: return None
    if c.get('direct'):
        for t in for_update_check_raw(fresh=True):
            if t['name'] == c['direct'] and t['got'] != t['want'] and t.get('finding'):
                return Failure(t['finding'], '%s: got %r, the property asks for %r' % (t['name'], t['got'], t['want']), data)
        return None
    if c.get('multi'):
        _multi_cache.pop(json.dumps(c), None)
        try:
            r = run_multi([c])[0]
        except DriverProblem as e:
            return Failure('deadlock-or-driver-error', str(e.what)[:500], data)
        bad = multi_oracle(c, r)
        return Failure(bad[0][0], bad[0][1], data) if bad else None
    if c.get('life'):
        _life_cache.pop(json.dumps(c), None)
        try:
            r = run_life([c])[0]
        except DriverProblem as e:
            return Failure('deadlock-or-driver-error', str(e.what)[:500], data)
        bad = life_oracle(c, r)
        return Failure(bad[0][0], bad[0][1], data) if bad else None
    _cache.pop(case_key(c), None)
    try:
        r = run_real([c])[0]
    except DriverProblem as e:
        return Failure('deadlock-or-driver-error', str(e.what)[:500], data)
    bad = oracle(c, r)
    if bad: return Failure(bad[0][0], bad[0][1], data)
    return None


LEVEL_TEXT = ('Machine-checked proof (Coq 8.16.1) over an executable model of Pony\'s optimistic concurrency control (read/write bits, optimistic '
              'WHERE criteria, rowcount check, commit/rollback) for one shared object: for all programs of reads/writes/commit, any number of sessions '
              'and ALL interleavings (induction over the schedule), a session\'s update is applied iff every protected attribute it observed from '
              'the database still holds the observed value; otherwise it ends in OptimisticCheckError and the row is untouched; and (C20_serial) a successful commit of a session whose reads are all protected leaves the row exactly as if that session had run alone at commit time; (model Life) for one session running several transactions with explicit commits, get_for_update and created objects, against arbitrary commits of other sessions: the for_update exemption is alive only while the row is uninserted or the session holds the write lock, and every UPDATE that is applied - with criteria or exempt - finds the protected attributes read unchanged; (model Multi) one session on several objects with auto-flush: a commit is all-or-nothing across objects and every object of a successful flush passed its own check; a failed check is an OptimisticCheckError in every kind of session (C20_rowcount0). Every run replays '
              'all interleavings of pairs (and seeded triples) of short programs on real threaded db_sessions over a SQLite file and compares rows, '
              'outcomes, observed values and captured UPDATE statements with the model by vm_compute.')
LEVEL_NOTE = ('Partial: the n-session schedule model has a single shared row (several objects are modelled for one session against arbitrary external commits, model Multi); DELETE carries no optimistic criteria (pinned by a direct test, outside the statement); in the n-session schedule model flushes happen only at commit; '
              'multi-transaction sessions, get_for_update and created objects are modelled for one session against arbitrary external commits (model Life), not inside the n-session schedule model; serial equivalence is proved for sessions whose reads are all protected (optimistic opt-outs are the stated exception); PostgreSQL not executed. '
              'Trusted: Coq kernel + vm_compute; the thread scheduler harness and SQL capture; SQLite statement atomicity.')
TECHNIQUE = 'Coq invariant proof over all schedules of an executable model; vm_compute correspondence with real threaded sessions on every enumerated interleaving; property oracle search'
DESIGN_REF = 'DESIGN.md section 5, C20'
