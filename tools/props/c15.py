"""C15 - Deletion honours cascade rules and leaves no dangling references."""
import collections, itertools, json, os, random, re
import vlib
from vlib import Corr, Search, Failure
import c15_impl as I, c15_gen as G

ID = 'C15'
LEVEL = 'proof'
PROPS = ['Props/C15.v']
TRUSTED = [
    'hand-written model coq/Model/C15Delete.v: objects + links, per-relationship flags derived as Attribute.linked / Attribute.get_columns / '
    'Database.generate_mapping derive them, Entity._delete_ as a recursive procedure (policy mem_policy), SQLite executing the ON DELETE clauses '
    '(policy db_policy); tied to /repo on every run: (a) cascade_delete, column side and ON DELETE clause of every relationship attribute of the test '
    'schemas and of an exhaustive family of two-entity schemas are read from the real mapping / DDL and compared with the model functions inside coqc, '
    '(b) deletion histories run on real Pony + SQLite (file database, PRAGMA foreign_keys=ON) and the rows read back after every commit through a '
    'separate sqlite3 connection must equal the model state (objects and links), per-op outcome (ok / refused) included',
    'SQLite foreign-key enforcement as documented (immediate; NO ACTION refuses when referencing rows remain; the model refuses eagerly); PRAGMA foreign_key_check '
    'is run on every read-back as an independent dangling-reference detector; after every call the statuses of all objects in the session cache are inspected: nothing the specification keeps may be flagged as deleted (cascaded dependents of a refused delete included)',
    'the harness tools/c15_impl.py / c15_gen.py',
]
ASSUMPTIONS = [
    'creations in a history are well formed (fresh handle, partners alive and of the right entity): run_ok; the generator only makes such histories',
    'cascade graphs of the schemas are acyclic (otherwise the real recursion does not terminate; the model returns "refused" when fuel runs out)',
    'flush order is not part of this model (C16): a commit either writes the abstract state or fails',
    'bulk deletes run in a session of their own (the session cache is not told about rows the database removed: C05)',
]
RULE = ('histories = population (parent + dependents from a catalogue: one per relationship kind x required/optional x cascade flag, grandchildren, a second parent) created and '
        'committed, then a deletion sequence in mode one-session / one-session-each / bulk / mixed / all-in-the-creating-session / via (each object reached through a referencing peer, unloaded when the row of the peer holds the reference); quick: seeded sample, thorough: every '
        'order of every population up to the size bound; non-trivial = at least one delete was executed against an object with at least one link; '
        'distinct = distinct (schema, dependents, order, mode)')

KIND = {'ref': 'KRef', 'set': 'KSet'}

# always run: an entity with several relationships of different kinds where a cascade / clearing on an earlier attribute precedes the
# refusal on a later one (one-to-many, many-to-many, one-to-one earlier attributes; with and without a level below the dependent)
def targeted():
    out = []
    for names in (('c', 'r'), ('cg', 'r'), ('m', 'r'), ('o', 'r'), ('oc', 'r'), ('c', 'm', 'oc', 'r')):
        ops, objs = G.population('S15C', names)
        hs = [o for o, e in objs]
        refuser = [o for o, e in objs if e == 4][0]
        for mode in ('one', 'each', 'bulk', 'created'):
            out.append(('S15C', names, [0], mode))                       # refused: everything must still be there, in the session and in the rows
            out.append(('S15C', names, [0, refuser, 0], mode))           # refused, then the obstacle goes, then it works
    for names in (('c1', 'o1'), ('c1g', 'o1'), ('c4', 'o2', 'o1'), ('m', 'o2', 'o1')):      # S15: earlier collections / a later-declared refusing one-to-one
        for mode in ('one', 'each'):
            out.append(('S15', names, [0], mode))
    # S15D: P holds the columns of its one-to-one references; deleted as an unloaded placeholder reached through note.a01 ('via'), and directly
    for names in (('n', 'pc'), ('n', 'pn'), ('n', 'pcc', 'pn'), ('nn', 'pc', 'pn')):
        for mode in ('via', 'each', 'bulk'):
            out.append(('S15D', names, [0], mode))
    return out


def b(x): return 'true' if x else 'false'


def schema_coq(schema):
    """model schema term: relationship attributes only; model attribute index = harness index - 1 (attribute 0 is the primary key)"""
    ents = []
    for e in schema['entities']:
        attrs = []
        for a in e['attrs']:
            if a['kind'] == 'pk': continue
            c = a.get('cascade')
            attrs.append('mkattr %s %s %d %d %s' % (KIND[a['kind']], b(a.get('required', False)), a['target'], a['reverse'] - 1,
                                                    'None' if c is None else '(Some %s)' % b(c)))
        ents.append('[' + '; '.join(attrs) + ']')
    return '[' + ';\n  '.join(ents) + ']'


def op_coq(op):
    if op[0] == 'new': return 'ONew %d %d [%s]' % (op[1], op[2], '; '.join('(%d, %d)' % (a - 1, y) for a, y in op[3]))
    if op[0] == 'del': return 'ODelete %d' % op[1]
    if op[0] == 'bulk': return 'OBulk [%s]' % '; '.join('%d' % x for x in op[2])
    raise ValueError(op)


def res_coq(r):
    return 'ROk' if r[0] in ('ok', 'gone') else 'RRefused'


def history_coq(name, sname, sessions, out):
    ss = []
    for ops, o in zip(sessions, out):
        opr = '; '.join('(%s, %s)' % (op_coq(op), res_coq(r)) for op, r in zip(ops, o['results']))
        objs = '; '.join('(%d, %d)' % (x, e) for x, e in o['objs'])
        links = '; '.join('mklink %d %d %d %d' % (l[0], l[1] - 1, l[2], l[3]) for l in o['links'])
        ss.append('([%s], ([%s], [%s]))' % (opr, objs, links))
    return 'Definition %s : list session := [%s].\nEval vm_compute in (check_history sch_%s %s).\n' % (name, ';\n  '.join(ss), sname, name)


HEADER = ('From Coq Require Import List Bool Arith.\nImport ListNotations.\n'
          'Require Import PonyV.Model.C15Delete PonyV.Model.C15Check PonyV.Model.C15Schemas.\n')


def run_items(ctx, items, name='h', per=None):
    """items: list of (sname, sessions, out) -> list of mismatch strings ('' = agree)"""
    terms = [history_coq('h%d' % i, sname, sessions, out) for i, (sname, sessions, out) in enumerate(items)]
    if per is None: per = max(20, min(80, (len(terms) + 7) // 8))
    chunks = [''.join(terms[i:i + per]) for i in range(0, len(terms), per)]
    outs = vlib.coq_eval_many(ctx, HEADER, chunks, name=name)
    vals = []
    for o in outs: vals += vlib.parse_eval_outputs(o)
    assert len(vals) == len(items), (len(vals), len(items))
    return [v.strip('[]').strip() for v in vals]


# ------------------------------------------------------------------------------------------------ flags of two-entity schemas (exhaustive)
def tiny_schemas():
    """every declaration of one relationship between E0.a01 and E1.a01: kind/required x cascade option on both sides"""
    sides = [('ref', False), ('ref', True), ('set', False)]
    for (k0, r0), (k1, r1) in itertools.product(sides, sides):
        for c0, c1 in itertools.product([None, True, False], repeat=2):
            a0 = {'kind': k0, 'required': r0, 'target': 1, 'reverse': 1, 'cascade': c0}
            a1 = {'kind': k1, 'required': r1, 'target': 0, 'reverse': 1, 'cascade': c1}
            yield {'entities': [{'attrs': [I.PK, a0], 'ckeys': []}, {'attrs': [I.PK, a1], 'ckeys': []}]}


def real_facts(schema):
    """per entity, per attribute (pk included as a dummy): (cascade_delete, has column, on_delete code) from the real mapping; None if Pony rejects"""
    import tempfile
    fd, path = tempfile.mkstemp(prefix='c15f-', suffix='.sqlite'); os.close(fd); os.unlink(path)
    try:
        try:
            w = I.World15(schema, path)
        except Exception as e:
            return None, '%s: %s' % (type(e).__name__, str(e)[:120])
        out = []
        for fa in w.facts():
            row = []
            for f in fa:
                code = 3
                if f['has_column']: code = {None: 0, 'SET NULL': 1, 'CASCADE': 2}[f['on_delete']]
                row.append('(%s, %s, %d)' % (b(f['cascade']), b(f['has_column']), code))
            out.append('[' + '; '.join(row) + ']')
        return '[' + '; '.join(out) + ']', None
    finally:
        try: os.unlink(path)
        except OSError: pass


def norm_facts(txt):
    return re.sub(r'\s+', '', txt)


def correspondence(ctx):
    disagreements, samples = [], []
    dist = collections.Counter()
    # (0) the schema terms on disk are the ones this harness uses
    try: disk = open(os.path.join(vlib.COQ, 'Model', 'C15Schemas.v')).read()
    except IOError: disk = ''
    for sname in sorted(I.SCHEMAS):
        if ('Definition sch_%s : schema :=\n  %s.' % (sname, schema_coq(I.SCHEMAS[sname]))) not in disk:
            disagreements.append({'what': 'coq/Model/C15Schemas.v is not the schema %s of tools/c15_impl.py' % sname, 'input': sname})
    # (1) flags: model functions vs the real mapping, for the test schemas and for all 81 two-entity declarations
    chunks, meta = [], []
    for sname in sorted(I.SCHEMAS):
        facts, err = real_facts(I.SCHEMAS[sname])
        chunks.append('Eval vm_compute in (facts_of sch_%s).\n' % sname); meta.append((sname, facts, err))
    for n, sch in enumerate(tiny_schemas()):
        facts, err = real_facts(sch)
        dist['tiny_schemas'] += 1
        if facts is None:
            dist['tiny_rejected_by_pony'] += 1
            continue
        chunks.append('Eval vm_compute in (facts_of %s, wf_schema %s).\n' % (schema_coq(sch), schema_coq(sch))); meta.append(('tiny%d' % n, facts, sch))
    vals = vlib.parse_eval_outputs(vlib.coq_eval(ctx, HEADER + ''.join(chunks), name='facts'))
    assert len(vals) == len(meta)
    for (name, facts, extra), v in zip(meta, vals):
        dist['flag_comparisons'] += 1
        got = norm_facts(v)
        if name.startswith('tiny'):
            m = re.match(r'\((.*),(true|false)\)$', got)
            got, wf = m.group(1), m.group(2)
            if wf != 'true':
                disagreements.append({'what': 'Pony accepts a two-entity schema the model calls ill-formed', 'input': extra['entities']})
        want = norm_facts(facts)
        if got != want:
            disagreements.append({'what': 'cascade_delete / column side / ON DELETE computed by the model differ from the real mapping (%s)' % name,
                                  'input': extra if not isinstance(extra, str) else name, 'impl': want, 'model': got})
    # (2) histories
    items, labels = [], []
    for sname, names, order, mode in targeted():
        sessions = G.history(sname, names, order, mode)
        items.append((sname, sessions, I.run_history(sname, sessions))); labels.append((sname, names, order, mode))
    for sname in sorted(I.SCHEMAS):
        rng = random.Random('%s/c15corr/%s' % (ctx.seed, sname))
        if ctx.thorough:
            hs = G.all_histories(sname, 3, 5)
            rng.shuffle(hs)
            hs = hs[:6000] + G.all_histories(sname, 4, 7, rng, 1500)
        else:
            hs = G.all_histories(sname, 4, 7, rng, 40)
        for names, order, mode in hs:
            sessions = G.history(sname, names, order, mode)
            out = I.run_history(sname, sessions)
            items.append((sname, sessions, out)); labels.append((sname, names, order, mode))
    mism = run_items(ctx, items)
    nontrivial = set()
    for (sname, names, order, mode), (sn, sessions, out), m in zip(labels, items, mism):
        dist['histories'] += 1; dist['mode_' + mode] += 1
        for o in out:
            for r in o['results']: dist['result_' + r[0].split(':')[0]] += 1
            if o['commit'][0] != 'ok': dist['commit_failed'] += 1
            if o['fk_check']: dist['fk_check_rows'] += len(o['fk_check'])
        if names and order: nontrivial.add(json.dumps([sname, names, order, mode]))
        if m:
            key = finding_key(sname, sessions, out)
            if key: dist['known_' + key] += 1; continue
            disagreements.append({'what': 'database after commit / per-op outcome differ from the model (session, op, 1=result 2=state): %s' % m[:160],
                                  'input': {'schema': sname, 'dependents': names, 'order': order, 'mode': mode, 'sessions': sessions},
                                  'impl': [{'results': o['results'], 'commit': o['commit'], 'objs': o['objs'], 'links': o['links']} for o in out]})
        if len(samples) < 3 and mode != 'created' and len(order) > 2:
            samples.append({'schema': sname, 'dependents': names, 'delete_order': order, 'mode': mode, 'db_after_last_commit': out[-1]['objs']})
    return Corr(cases=len(items) + dist['flag_comparisons'], nontrivial=len(nontrivial), disagreements=disagreements, samples=samples, distribution=dict(dist),
                note='model state after each session == rows read back by a separate sqlite3 connection; histories that hit one of the recorded C13 undo '
                     'defects (a refused delete that is not without effect) are counted under known_* and judged by the search/known-findings path')


# ------------------------------------------------------------------------------------------------ property oracle
def expected_state(sname, sessions):
    """the specification, computed in Python from the declared flags only (independent of the Coq model): -> list of (objs, links, results) per session"""
    schema = I.SCHEMAS[sname]
    ents = schema['entities']
    attr = lambda e, a: ents[e]['attrs'][a]
    def rev(e, a): x = attr(e, a); return attr(x['target'], x['reverse'])
    def cascade(e, a):
        x = attr(e, a)
        if x.get('cascade') is not None: return x['cascade']
        return x['kind'] == 'set' and rev(e, a).get('required', False)
    objs, links = {}, set()       # links: frozenset({(e, a, x), (te, ra, y)})
    def partners(o, e, a):
        out = []
        for l in links:
            d = dict(((ee, aa), x) for ee, aa, x in l)
            x = attr(e, a)
            if d.get((e, a)) == o and (x['target'], x['reverse']) in d and len(d) == 2: out.append((d[(x['target'], x['reverse'])], l))
        return out
    class Refused(Exception): pass
    def delete(o, db):
        if o not in objs: return
        e = objs[o]
        order = [a for a in range(1, len(ents[e]['attrs'])) if attr(e, a)['kind'] == 'set'] + [a for a in range(1, len(ents[e]['attrs'])) if attr(e, a)['kind'] == 'ref']
        for a in order:
            ps = partners(o, e, a)
            if not ps: continue
            x, r = attr(e, a), rev(e, a)
            if db:
                holds = x['kind'] == 'ref' and (r['kind'] == 'set' or x.get('required') or (not r.get('required') and not (x['target'] < e)))
                if holds or (x['kind'] == 'set' and r['kind'] == 'set'): act = 'unlink'
                elif cascade(e, a): act = 'cascade'
                elif not r.get('required'): act = 'unlink'
                else: act = 'refuse'
            else:
                if x['kind'] == 'ref' and r['kind'] == 'set': act = 'unlink'
                elif cascade(e, a): act = 'cascade'
                elif not r.get('required'): act = 'unlink'
                else: act = 'refuse'
            if act == 'refuse': raise Refused()
            for p, l in ps:
                if act == 'unlink': links.discard(l)
                else: delete(p, db)
        del objs[o]
        for l in list(links):
            if any(x == o for ee, aa, x in l): links.discard(l)
    out = []
    for ops in sessions:
        res, alive = [], []
        for op in ops:
            snap = (dict(objs), set(links))
            try:
                if op[0] == 'new':
                    objs[op[1]] = op[2]
                    for a, y in op[3]:
                        x = attr(op[2], a)
                        links.add(frozenset({(op[2], a, op[1]), (x['target'], x['reverse'], y)}))
                elif op[0] == 'del': delete(op[1], False)
                elif op[0] == 'bulk':
                    for o in op[2]: delete(o, True)
                res.append('ok')
            except Refused:
                objs.clear(); objs.update(snap[0]); links.clear(); links.update(snap[1])
                res.append('refused')
            alive.append(set(objs))
        out.append((dict(objs), set(links), res, alive))
    return out


def canon_links(sname, links):
    """implementation link rows [e, a, x, y] -> frozenset form"""
    ents = I.SCHEMAS[sname]['entities']
    out = set()
    for e, a, x, y in links:
        at = ents[e]['attrs'][a]
        out.add(frozenset({(e, a, x), (at['target'], at['reverse'], y)}))
    return out


def deviation(sname, sessions, out):
    """None, or (kind, session number, text): how the implementation deviates from the specification.
    kinds: fk_check | result | error-type | marked | commit | rows | links"""
    exp = expected_state(sname, sessions)
    for n, (o, (eobjs, elinks, eres, ealive)) in enumerate(zip(out, exp)):
        if o['fk_check']: return ('fk_check', n, 'session %d: PRAGMA foreign_key_check reports dangling references %s' % (n, o['fk_check'][:3]))
        for k, (r, er) in enumerate(zip(o['results'], eres)):
            got = 'ok' if r[0] in ('ok', 'gone') else 'refused'
            if got != er: return ('result', n, 'session %d op %d: %s, specification says %s (%s)' % (n, k, r[0], er, r[1][:80]))
            if r[0].startswith('error:'): return ('error-type', n, 'session %d op %d: refused with %s instead of ConstraintError' % (n, k, r[0][6:]))
            # in the session: nothing the specification keeps may be flagged as deleted (in particular after a refused delete:
            # the cascaded dependents must be restored, not only the object itself)
            if len(r) > 2:
                wrong = sorted(set(r[2]) & ealive[k])
                if wrong: return ('marked', n, 'session %d op %d (%s): objects %s are flagged as deleted in the session, the specification keeps them' % (n, k, r[0], wrong))
        if o['commit'][0] != 'ok': return ('commit', n, 'session %d: commit failed: %s' % (n, o['commit'][1][:120]))
        if dict((x, e) for x, e in o['objs']) != eobjs:
            return ('rows', n, 'session %d: rows after commit %s, specification %s' % (n, sorted(o['objs']), sorted(eobjs.items())))
        if canon_links(sname, o['links']) != elinks:
            return ('links', n, 'session %d: links after commit differ: got %s' % (n, sorted(map(sorted, canon_links(sname, o['links']) ^ elinks))[:4]))
    return None


def judge(sname, sessions, out):
    d = deviation(sname, sessions, out)
    return None if d is None else d[2]


def finding_key(sname, sessions, out):
    """classify a deviation by its cause; only the C13 undo defects are recorded classes.  None = not a recorded class."""
    d = deviation(sname, sessions, out)
    if d is None: return None
    kind, n, text = d
    results = [r for o in out[:n + 1] for r in o['results']]
    if any(r[0] == 'error:AssertionError' for r in results): return 'refused-delete-after-nested-cascade-assertion'
    if any(r[0] == 'error:AttributeError' for r in results): return 'refused-delete-undo-crashes'
    if not any(r[0] == 'refused' for r in results): return None
    exp = expected_state(sname, sessions)
    eobjs, elinks = exp[n][0], exp[n][1]
    got = dict((x, e) for x, e in out[n]['objs'])
    if kind == 'links' or (kind in ('result', 'error-type') and 'UnrepeatableReadError' in text):
        return 'refused-delete-changes-links'               # many-to-many side emptied by a refused delete (and its later consequences)
    if kind == 'rows':
        before = set(x for x, e in out[n - 1]['objs']) if n > 0 else set()
        missing, extra = set(eobjs) - set(got), set(got) - set(eobjs)
        # only the recorded class: rows of objects created in this very session never reach the database
        if missing and not extra and not (missing & before): return 'refused-delete-drops-rows'
    return None


def search(ctx, deep):
    dist = collections.Counter()
    found, evals, nontriv = {}, 0, set()
    todo = [(sname, names, order, mode) for sname, names, order, mode in targeted()]
    for sname in sorted(I.SCHEMAS):
        rng = random.Random('%s/c15search/%s' % (ctx.seed, sname))
        hs = G.all_histories(sname, 3, 5) if deep else G.all_histories(sname, 4, 7, rng, 40)
        if deep:
            rng.shuffle(hs); hs = hs[:2500]
        todo += [(sname, names, order, mode) for names, order, mode in hs]
    for sname, names, order, mode in todo:
        if True:
            sessions = G.history(sname, names, order, mode)
            out = I.run_history(sname, sessions)
            evals += 1
            if names and order: nontriv.add(json.dumps([sname, names, order, mode]))
            why = judge(sname, sessions, out)
            if why is None: continue
            key = finding_key(sname, sessions, out) or 'unexplained:%s:%s' % (mode, re.sub(r'[0-9]+', 'N', why)[:60])
            dist['deviation_' + key] += 1
            size = sum(len(s) for s in sessions)
            if key not in found or size < found[key][0]:
                found[key] = (size, Failure(key, '%s %s order=%s mode=%s: %s' % (sname, list(names), order, mode, why),
                                            {'schema': sname, 'sessions': sessions}))
    # fixed scenario: in-memory database, db_session(ddl=True) with a commit() in the middle, then a bulk delete of the parents
    # (repo 78a42e8: foreign keys stayed switched off on the surviving connection).  Oracle: no child row references a deleted parent.
    for inner in (True, False):
        r = I.run_memory_ddl_bulk(inner_commit=inner)
        evals += 1
        why = judge_memory(r)
        if why is not None:
            key = 'bulk-delete-after-ddl-session-leaves-dangling-rows'
            dist['deviation_' + key] += 1
            found.setdefault(key, (0, Failure(key, 'in-memory db, db_session(ddl=True) %s, then P.select().delete(bulk=True): %s' % (
                'with an inner commit()' if inner else 'without inner commit', why), {'scenario': 'memory-ddl-bulk', 'inner_commit': inner})))
    failures = [f for k, (n, f) in sorted(found.items())]
    return Search(evaluations=evals, failures=failures, nontrivial=len(nontriv), distribution=dict(dist), exhaustive=bool(deep),
                  samples=[{'oracle': 'rows + FK values after each commit == specification computed from the declared flags; PRAGMA foreign_key_check empty; refusal = ConstraintError and no change'}])


def judge_memory(r):
    parents = set(x if not isinstance(x, tuple) else x[0] for x in r['P'])
    dangling = [k for k in r['K'] if k[1] not in parents]
    if dangling: return 'child rows %s reference deleted parents (parents left: %s, PRAGMA foreign_keys seen by the session = %s, error = %s)' % (
        dangling, sorted(parents), r.get('foreign_keys'), r['error'])
    if r['error'] is None and (r['P'] or r['K']): return 'the bulk delete succeeded but rows remain: P %s K %s' % (r['P'], r['K'])
    return None


def replay(ctx, data):
    if data.get('scenario') == 'memory-ddl-bulk':
        r = I.run_memory_ddl_bulk(inner_commit=data.get('inner_commit', True))
        why = judge_memory(r)
        return None if why is None else Failure('bulk-delete-after-ddl-session-leaves-dangling-rows', why, data)
    sname, sessions = data['schema'], data['sessions']
    out = I.run_history(sname, sessions)
    why = judge(sname, sessions, out)
    if why is None: return None
    key = finding_key(sname, sessions, out) or 'unexplained:replay'
    return Failure(key, '%s: %s' % (sname, why), data)


LEVEL_TEXT = ('Machine-checked proof (Coq 8.16.1), for every well-formed schema and every history of creations, obj.delete() calls and database-side bulk deletes, that '
              'every stored reference joins two live rows (no dangling foreign key or link row after any commit); that a successful delete removes the object together with EVERY object reachable from it through cascading relationships (closure over the recursion) and clears every reference to them; per '
              'relationship, cascades / clears / refuses exactly as the flags say; that a refusal changes nothing. The flag derivations '
              '(default cascade_delete, column side, ON DELETE clause) are compared with the real mapping for the test schemas and all 81 two-entity declarations, '
              'and deletion histories (all orders of small graphs in the thorough tier) are run on real Pony + SQLite with the rows read back.')
LEVEL_NOTE = ('The model is abstract (one stored link per related pair): the two-sided in-memory bookkeeping is C12/C13 territory and is tied here only through the rows '
              'read back. "Refusal changes nothing" holds in the model by construction; the three ways the implementation used to violate it (C13 code sites) were repaired in /repo '
              '(6e4a87a, e3298c1) and no longer reproduce. C15_cascade_closure covers the whole call: every object reachable through cascading relationships in the state before the call is gone afterwards.')
TECHNIQUE = 'Coq proof of an invariant of a policy-parametric recursive removal (one proof for _delete_ and for ON DELETE) + vm_compute correspondence + exhaustive small-graph differential search on SQLite'
DESIGN_REF = 'DESIGN.md section 5, C15; Appendix A'


def schemas_text():
    out = ['(* C15 - the test schemas of tools/c15_impl.py as model terms (relationship attributes only; model attribute index = harness index - 1).',
           '   Generated by tools/props/c15.py schemas_text(); compared with the harness on every run. Definitions only. *)',
           'From Coq Require Import List Bool Arith.', 'Import ListNotations.', 'Require Import PonyV.Model.C15Delete.', '']
    for sname in sorted(I.SCHEMAS):
        out.append('Definition sch_%s : schema :=\n  %s.\n' % (sname, schema_coq(I.SCHEMAS[sname])))
    return '\n'.join(out)
