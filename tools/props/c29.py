"""C29 - JSON and array operations in queries match Python semantics."""
import json, re
import vlib
from vlib import Corr, Search, Failure, cz
import c29_impl

ID = 'C29'
LEVEL = 'proof'
PROPS = ['Props/C29.v', 'Findings/C29.v']
GEN = []
TRUSTED = [
    'hand-written model Model/C29Json.v of SQLBuilder.eval_json_path, PGSQLBuilder.eval_json_path, sqlite._parse_path (regex json_path_re as a scanner), _traverse, '
    'py_json_contains / py_json_array_length, the literal list of SQLiteBuilder.JSON_NONZERO, json.dumps text, ArrayMixin._index and py_array_index / py_array_slice; '
    'tied on every run by vm_compute comparison with the real functions (direct calls) and the real translator (index ASTs on sqlite and postgres providers)',
    'reference semantics: Python indexing / truthiness / len on the value tree (validated against CPython in the same run); Python slicing = Base/Seg.py_slice',
    'PostgreSQL: documentation models, not executed: array subscripts / slices (1-based, NULL out of range, slices clamped), jsonb equality in JSON_NONZERO (numeric), and the text[] literal syntax read by #> (Model pg_array, mirrored by c29_impl.pg_array_parse and compared with it on every run)',
    'the bind-parameter keys of parameterised JSON paths are recorded from the real SQLBuilder.build_json_path by wrapping make_composite_param inside the check process',
    "Python's \\w beyond ASCII is an oracle parameter of the theorems; the correspondence instantiates it from the running re module for the characters used",
    'the end-to-end harness tools/c29_impl.py (SQLite with JSON1 and with provider.json1_available forced to False)',
]
ASSUMPTIONS = [
    'JSON path items are ints and strs; wildcards [...] / [:] exist only for MySQL / Oracle (SQLite must refuse them: checked) and appear in the parameter-key model only; keys without a double quote (the complement is a recorded finding)',
    'where Python raises (missing key, index out of range, indexing a scalar) the query is expected to give NULL / not select the row',
    'an SQL error is accepted only for a negative JSON index on SQLite with JSON1 (json_extract rejects [-1]; documented limitation, an error and not different rows)',
    'indexing into a JSON string (Python would return a character) is not a JSON path access: expected NULL like indexing any scalar',
    'floats in documents are plain decimals as json.dumps writes them (no exponent, no nan/inf; a zero is 0.0 or -0.0: a document written by something else as 0.00 would still be truthy on SQLite); strings without control characters',
    'comparisons: == of an item with an int / str constant (CAST model) and == / < between two items (text model) are modelled for the recorded deviations and the exact cases (C29_eq_*_except_known, C29_items_eq_ints); other operators are exercised by the search only',
]
RULE = ('correspondence: generated key lists (identifier-like, needing quotes: spaces, dots, brackets, empty, leading digit, non-ASCII, backslash; negative ints), malformed path texts, '
        'documents of depth <= 3 with null / booleans / ints / decimal floats incl. 0.0 and -0.0 / empty containers, arrays of ints with indexes and bounds in [-2len-2, len+2]; one vm_compute '
        'boolean per (function, input). search: the same space through real queries on SQLite with JSON1 and with the fallback forced: path extraction (constant and parameter keys), '
        'several paths in one query sharing an external variable and differing in literal steps (projection pairs / triples, comparisons between paths, mixed with array paths), '
        'truthiness, len, key/item membership, == with int/str, array index / slice / len / membership / subset; non-trivial = the Python side returned a value (distinct canonical cases counted)')

KEYS = ['a', 'b', 'k1', 'a b', 'd.e', '', '1a', 'é', 'aé', 'x[0]', '$', 'a\\b', "q'r", 'x"y']
SAFE_KEYS = [k for k in KEYS if '"' not in k]
FLOATS = [0.0, -0.0, 1.5, -2.25, 10.0, 0.5]
STRS = ['', 'a', 'str', 'a b', '0', 'é']


# ------------------------------------------------------------------------------------------------ generators

def gen_scalar(rng):
    r = rng.random()
    if r < 0.12: return None
    if r < 0.27: return rng.random() < 0.5
    if r < 0.55: return rng.choice([0, 0, 1, -1, 2, 7, 10, -12, 123])
    if r < 0.72: return rng.choice(FLOATS)
    return rng.choice(STRS)

def gen_value(rng, depth, keys=KEYS):
    if depth <= 0 or rng.random() < 0.35: return gen_scalar(rng)
    if rng.random() < 0.5:
        return [gen_value(rng, depth - 1, keys) for _ in range(rng.randint(0, 3))]
    return {k: gen_value(rng, depth - 1, keys) for k in rng.sample(keys, rng.randint(0, 3))}

def gen_doc(rng, keys=KEYS):
    return {k: gen_value(rng, 2, keys) for k in rng.sample(keys, rng.randint(1, 5))}

def gen_path(rng, doc, keys=KEYS):
    """mostly valid paths into doc, sometimes off by a key / index / type"""
    path, v = [], doc
    for _ in range(rng.randint(1, 3)):
        if isinstance(v, dict):
            k = rng.choice(list(v.keys())) if v and rng.random() < 0.8 else rng.choice(keys + [0])
        elif isinstance(v, list):
            n = len(v)
            k = rng.randint(-n, n - 1) if n and rng.random() < 0.75 else rng.choice([n, n + 1, -n - 1, 'a'])
        else:
            if rng.random() < 0.6: break
            k = rng.choice(['a', 0])
        path.append(k)
        try: v = v[k]
        except Exception: v = None
    return path or [rng.choice(keys)]

def py_at(doc, path):
    """('ok', value) | ('raise', exception name)"""
    v = doc
    try:
        for k in path:
            if not isinstance(v, (list, dict)): return 'raise', 'TypeError'     # a str is indexable in Python (characters): not a JSON path access
            v = v[k]
        return 'ok', v
    except (KeyError, IndexError, TypeError) as e:
        return 'raise', type(e).__name__


# ------------------------------------------------------------------------------------------------ Coq literals

def czs(s): return '[' + '; '.join(str(ord(ch)) for ch in s) + ']'
def copt_z(x): return 'None' if x is None else '(Some %s)' % cz(x)

def cfloat(f):
    r = repr(f)
    m = re.match(r'^(-?)(\d+)\.(\d+)$', r)
    if not m: raise ValueError('float outside the modelled texts: %r' % r)
    return '(JFloat %s %s %s)' % ('true' if m.group(1) else 'false', cz(int(m.group(2))), czs(m.group(3)))

def cjv(v):
    if v is None: return 'JNull'
    if v is True: return '(JBool true)'
    if v is False: return '(JBool false)'
    if isinstance(v, int): return '(JInt %s)' % cz(v)
    if isinstance(v, float): return cfloat(v)
    if isinstance(v, str): return '(JStr %s)' % czs(v)
    if isinstance(v, (list, tuple)): return '(JList [%s])' % '; '.join(cjv(x) for x in v)
    if isinstance(v, dict): return '(JDict [%s])' % '; '.join('(%s, %s)' % (czs(k), cjv(x)) for k, x in v.items())
    raise ValueError('not a modelled value: %r' % (v,))

def ckeys(keys):
    return '[' + '; '.join('(KIdx %s)' % cz(k) if isinstance(k, int) and not isinstance(k, bool) else '(KKey %s)' % czs(k) for k in keys) + ']'

def cints(xs): return '[' + '; '.join(cz(x) for x in xs) + ']'

_uw = {}
def uni_word_def():
    """the \\w oracle for the non-ASCII characters of the test alphabet, computed with the running re"""
    if 'def' not in _uw:
        chars = sorted(set(ch for s in KEYS + STRS for ch in s if ord(ch) >= 128) | set('éß中×€'))
        yes = [ord(ch) for ch in chars if re.match(r'\w', ch)]
        _uw['def'] = 'Definition uw (c : Z) : bool := existsb (Z.eqb c) %s.\n' % cints(yes)
        _uw['chars'] = chars
    return _uw['def']

def header():
    return ('From Coq Require Import ZArith List Bool.\nRequire Import PonyV.Base.PyBase PonyV.Base.Seg PonyV.Model.C29Json.\n#[local] Open Scope Z_scope.\n'
            + uni_word_def())


def run_bools(ctx, exprs, chunk=1500):
    chunks = []
    for i in range(0, len(exprs), chunk):
        part = exprs[i:i + chunk]
        chunks.append('Definition cases : list bool := [\n' + ';\n'.join(part) + '].\nEval vm_compute in (failing29 cases).\n')
    outs = vlib.coq_eval_many(ctx, header(), chunks, name='c29cases')
    bad = []
    for k, out in enumerate(outs):
        vals = vlib.parse_eval_outputs(out)
        assert len(vals) == 1, out[-500:]
        inner = vals[0].strip().strip('[]').strip()
        if inner:
            for tok in inner.split(';'):
                bad.append(k * chunk + int(tok.strip().replace('%nat', '')))
    return bad


# ------------------------------------------------------------------------------------------------ correspondence

def correspondence(ctx):
    rng = ctx.rng
    R = c29_impl.real_funcs()
    exprs, meta, disagreements, samples = [], [], [], []
    dist = {}
    nontrivial = set()
    def add(kind, expr, inp, impl):
        exprs.append(expr); meta.append((kind, inp, impl)); dist[kind] = dist.get(kind, 0) + 1
    scale = ctx.scale(1, 8)

    # (1,2,3) path text both ways
    uni = _uw.get('chars') or (uni_word_def() and _uw['chars'])
    key_pool = KEYS + ['_x', 'A1', 'a_b', 'a-b', ' ', 'a.', '.a', '[', ']', '0', '-1', 'abé', '中', 'a×', '€1', 'a"', '""']
    for _ in range(160 * scale):
        keys = [rng.choice(key_pool) if rng.random() < 0.65 else rng.choice([0, 1, 2, 10, 123, -1, -2, -10, -123, 7, 99999]) for _ in range(rng.randint(0, 4))]
        text = R['eval_json_path'](keys)
        add('eval_json_path', 'str_eqb (json_path uw %s) %s' % (ckeys(keys), czs(text)), keys, text)
        pg = R['pg_eval_json_path'](keys)
        add('pg_eval_json_path', 'str_eqb (pg_json_path uw %s) %s' % (ckeys(keys), czs(pg)), keys, pg)
        got = c29_impl.pg_array_parse(pg)
        lit = 'None' if got == 'ERR' else '(Some [%s])' % '; '.join('PNull' if x is None else '(PText %s)' % czs(x) for x in got)
        add('pg_array', '(match pg_array %s, %s with Some a, Some b => (fix eq (x y : list pgelem) : bool := match x, y with [], [] => true | PNull :: x\', PNull :: y\' => eq x\' y\' | PText s :: x\', PText t :: y\' => str_eqb s t && eq x\' y\' | _, _ => false end) a b | None, None => true | _, _ => false end)' % (czs(pg), lit), keys, [pg, got])
        back = R['parse_path'](text)
        add('parse_path', 'opkeys_eqb (parse_path uw %s) %s' % (czs(text), 'None' if back is None else '(Some %s)' % ckeys(list(back))), text, back)
        if all(not (isinstance(k, str) and '"' in k) for k in keys): nontrivial.add(('path', json.dumps(keys)))
        # malformed neighbours of the text
        if text and rng.random() < 0.7:
            i = rng.randrange(len(text) + 1)
            bad = rng.choice([text[:i] + rng.choice('.[]"-$a0 é') + text[i:], text[:i] + text[i + 1:], text[1:], text + '.', text + '[', text + '[-]', text + '."', text + '[1', text + '..a'])
            back = R['parse_path'](bad)
            add('parse_path_malformed', 'opkeys_eqb (parse_path uw %s) %s' % (czs(bad), 'None' if back is None else '(Some %s)' % ckeys(list(back))), bad, back)
    # PostgreSQL end to end as SQL text (mock provider)
    try:
        db, E, orm, _ = c29_impl.mock_db('postgres')
        for keys in (['a', 'b c', 0], ['k1', 2, 'd.e'], ['1a', '', 'x[0]'], ['é', 3]):
            src = 'e.j%s for e in E' % ''.join('[%r]' % k for k in keys)
            with orm.db_session:
                orm.select(src, {'E': E})[:]
            m = re.search(r"#> '((?:[^']|'')*)'", db.sql)
            if not m: disagreements.append({'what': 'PostgreSQL JSON_QUERY text no longer has the shape  expr #> literal', 'input': src, 'impl': db.sql}); continue
            lit = m.group(1).replace("''", "'")
            add('pg_sql_text', 'str_eqb (pg_json_path uw %s) %s' % (ckeys(keys), czs(lit)), src, db.sql)
    except Exception as e:
        disagreements.append({'what': 'PostgreSQL mock translation failed: %s: %s' % (type(e).__name__, e), 'input': 'pg'})

    # (4,5,6) traverse / python indexing / contains / length / text / truthiness on generated documents
    try:
        nz_text, lits = c29_impl.nonzero_literals()
        add('nonzero_literals', '(fix eq (a b : list str) : bool := match a, b with [], [] => true | x :: a\', y :: b\' => str_eqb x y && eq a\' b\' | _, _ => false end) falsy_texts [%s]'
            % '; '.join(czs(l) for l in lits), 'JSON_NONZERO', nz_text)
    except Exception as e:
        disagreements.append({'what': 'SQLiteBuilder.JSON_NONZERO not recognised: %s' % e, 'input': 'JSON_NONZERO'})
        nz_text = None
    import sqlite3
    con = sqlite3.connect(':memory:')
    for _ in range(80 * scale):
        text = R['dumps'](gen_doc(rng, SAFE_KEYS))
        doc = json.loads(text)              # key order as stored (sort_keys)
        add('dumps', 'str_eqb (jtext %s) %s' % (cjv(doc), czs(text)), doc, text)
        for _ in range(3):
            path = gen_path(rng, doc, SAFE_KEYS)
            # _traverse on the decoded document
            try:
                got = R['traverse'](json.loads(text), tuple(path))
                if got is None: exp = '(match traverse %s %s with TNull | TVal JNull => true | _ => false end)' % (cjv(doc), ckeys(path))
                else: exp = 'tres_eqb (traverse %s %s) (TVal %s)' % (cjv(doc), ckeys(path), cjv(got))
                impl = got
            except Exception as e:
                exp = 'tres_eqb (traverse %s %s) TRaise' % (cjv(doc), ckeys(path)); impl = type(e).__name__
                if not isinstance(e, TypeError):
                    disagreements.append({'what': '_traverse lets %s escape (the model: only the TypeError of a list indexed by a str)' % type(e).__name__, 'input': [doc, path]})
            add('traverse', exp, [doc, path], impl)
            st, val = py_at(doc, path)
            add('py_path', 'ojv_eqb (py_path %s %s) %s' % (cjv(doc), ckeys(path), '(Some %s)' % cjv(val) if st == 'ok' else 'None'), [doc, path], [st, val])
            if st == 'ok':
                nontrivial.add(('doc', json.dumps([doc, path], sort_keys=True)))
                add('py_truthy', 'Bool.eqb (py_truthy %s) %s' % (cjv(val), 'true' if bool(val) else 'false'), val, bool(val))
                if nz_text is not None:
                    vt = R['dumps'](val)
                    sql = con.execute('select ' + nz_text.replace('X', '?', 1), (vt,)).fetchone()[0]
                    add('json_nonzero', 'Bool.eqb (json_nonzero %s) %s' % (cjv(val), 'true' if sql else 'false'), val, sql)
                pth = R['eval_json_path'](path)
                try:
                    ln = R['py_json_array_length'](text, pth)
                    add('array_length', '(json_array_length %s =? %s)' % (cjv(val), cz(ln)), [doc, path], ln)
                    if all(not (isinstance(k, int) and k < 0) and not (isinstance(k, str) and '\\' in k) for k in path):
                        ln1 = con.execute('select json_array_length(?, ?)', (text, pth)).fetchone()[0]
                        add('array_length_json1', '(json_array_length %s =? %s)' % (cjv(val), cz(ln1 or 0)), [doc, path], ln1)
                except Exception as e:
                    disagreements.append({'what': 'py_json_array_length raised: %s' % e, 'input': [doc, path]})
                if all(not (isinstance(k, int) and k < 0) and not (isinstance(k, str) and '\\' in k) for k in path):
                    for c in (0, rng.choice([1, 7, -1, 2, 10, 123])):
                        r = con.execute('select CAST(json_extract(?, ?) as integer) = ?', (text, pth, c)).fetchone()[0]
                        add('eq_int', 'Bool.eqb (json_eq_int %s %s) %s' % (cjv(val), cz(c), 'true' if r else 'false'), [doc, path, c], r)
                    for s_ in (rng.choice(['str', '7', '0']), rng.choice(STRS)):
                        r = con.execute('select CAST(json_extract(?, ?) as text) = ?', (text, pth, s_)).fetchone()[0]
                        add('eq_str', 'Bool.eqb (json_eq_str %s %s) %s' % (cjv(val), czs(s_), 'true' if r else 'false'), [doc, path, s_], r)
                    if type(val) in (int, str, bool) or val is None:
                        add('py_eq', 'Bool.eqb (py_eq_int %s 1) %s && Bool.eqb (py_eq_str %s %s) %s' % (cjv(val), 'true' if (val == 1 and val is not None) else 'false', cjv(val), czs('str'), 'true' if val == 'str' else 'false'), val, None)
                for key in (rng.choice(SAFE_KEYS), 'str', 'a'):
                    c = R['py_json_contains'](text, pth, key)
                    add('contains', 'Bool.eqb (json_contains %s %s) %s' % (cjv(val), czs(key), 'true' if c else 'false'), [doc, path, key], c)
        if len(samples) < 2: samples.append({'doc': doc, 'text': text})

    # (6b) the bind-parameter key build_json_path registers for parameterised paths (several paths per query, shared variables)
    def citem(x, key):
        if x[0] == 'P': return '(%s %d%%nat)' % ('KP' if key else 'IParam', x[1])
        if x[0] == 'V': return '(%s %s)' % ('KV' if key else 'ILit', ckeys([x[1]])[1:-1])
        if x[0] == 'E': return 'KEll' if key else 'IEllipsis'
        return 'KNone' if key else 'ISlice'
    pk_queries = []
    for _ in range(12 * scale):
        k1, k2, k3 = rng.sample(['lo', 'hi', 'mid', 'a b', 'x', 'k1'], 3)
        pk_queries += [("(e.j[k][%r], e.j[k][%r]) for e in E" % (k1, k2), {'k': 'p'}),
                       ("(e.j[%r][i], e.j[%r][i], e.j[%r][i]) for e in E" % (k1, k2, k3), {'i': rng.randint(0, 3)}),
                       ("e.id for e in E if e.j[k][%r] == e.j[k][%r]" % (k1, k2), {'k': 'p'}),
                       ("(e.j[k][%r][i], e.j[k][%r][i + 1], e.a[i]) for e in E" % (k1, k1), {'k': 'p', 'i': 0}),
                       ("(e.j[%r][k], e.j[%r][k][%d]) for e in E" % (k1, k1, rng.randint(0, 2)), {'k': k2})]
    try:
        for src, key, path in c29_impl.record_paramkeys(pk_queries):
            add('paramkey', 'kitems_eqb (paramkey [%s]) [%s]' % ('; '.join(citem(x, False) for x in path), '; '.join(citem(x, True) for x in key)), src, [key, path])
    except Exception as e:
        disagreements.append({'what': 'build_json_path parameter keys could not be recorded: %s: %s' % (type(e).__name__, e), 'input': 'paramkey'})

    # (7) arrays: the index expression ArrayMixin._index builds, and the helper functions
    for prov, p1 in (('sqlite', 0), ('postgres', 1)):
        for v in range(-7, 8):
            for form, src, env in (('const', 'e.a[%d] for e in E' % v, {}), ('param', 'e.a[x] for e in E', {'x': v})):
                try:
                    ast = c29_impl.index_ast(prov, src, env)
                    assert ast[0] == 'ARRAY_INDEX', ast[0]
                    for n in (0, 1, 3):
                        got = c29_impl.eval_ast(ast[2], env, n)
                        if prov == 'sqlite': add('index_ast', '(index_sqlite %s %s =? %s)' % (cz(n), cz(v), cz(got)), [prov, src, env, n], got)
                        else: add('index_ast', '(index_expr %s %s %s =? %s) && (index_const %s %s %s =? %s)' % (cz(p1), cz(n), cz(v), cz(got), cz(p1), cz(n), cz(v), cz(got)), [prov, src, env, n], got)
                except Exception as e:
                    disagreements.append({'what': 'index AST not recognised: %s: %s' % (type(e).__name__, e), 'input': [prov, src, env]})
        for a in (None, -5, -1, 0, 2, 6):
            for b in (None, -4, -1, 0, 1, 5):
                src = 'e.a[%s:%s] for e in E' % ('' if a is None else 'x', '' if b is None else 'y')
                env = {'x': a, 'y': b}
                try:
                    ast = c29_impl.index_ast(prov, src, env)
                    if a is None and b is None:
                        continue
                    assert ast[0] == 'ARRAY_SLICE', ast[0]
                    for n in (0, 3):
                        if a is not None:
                            got = c29_impl.eval_ast(ast[2], env, n)
                            add('slice_ast', ('(index_sqlite %s %s =? %s)' % (cz(n), cz(a), cz(got))) if prov == 'sqlite' else ('(index_expr %s %s %s =? %s)' % (cz(p1), cz(n), cz(a), cz(got))), [prov, src, env, n, 'start'], got)
                        elif ast[2] is not None:
                            disagreements.append({'what': 'omitted slice start is not None in the AST', 'input': [prov, src]})
                        if b is not None:
                            got = c29_impl.eval_ast(ast[3], env, n)
                            add('slice_ast', ('(index_sqlite %s %s =? %s)' % (cz(n), cz(b), cz(got))) if prov == 'sqlite' else ('(index_expr 0 %s %s =? %s)' % (cz(n), cz(b), cz(got))), [prov, src, env, n, 'stop'], got)
                except Exception as e:
                    disagreements.append({'what': 'slice AST not recognised: %s: %s' % (type(e).__name__, e), 'input': [prov, src, env]})
    for n in range(0, 5 if ctx.thorough else 4):
        arr = [10 * (i + 1) for i in range(n)]
        text = json.dumps(arr)
        for v in range(-2 * n - 2, n + 3):
            want = arr[v] if -n <= v < n else None
            add('arr_get', 'oz_eqb (arr_get %s %s) %s' % (cints(arr), cz(v), copt_z(want)), [arr, v], want)
            real = R['py_array_index'](text, v)
            add('py_array_index', 'oz_eqb (arr_get %s %s) %s' % (cints(arr), cz(v), copt_z(real)), [arr, v], real)
            nontrivial.add(('arr', n, v))
        for a in [None] + list(range(-2 * n - 1, n + 2)):
            for b in [None] + list(range(-2 * n - 1, n + 2)):
                real = json.loads(R['py_array_slice'](text, a, b))
                add('py_array_slice', 'str_eqb (py_slice %s %s %s) %s' % (cints(arr), copt_z(a), copt_z(b), cints(real)), [arr, a, b], real)

    bad = run_bools(ctx, exprs)
    for i in bad[:12]:
        kind, inp, impl = meta[i]
        disagreements.append({'what': 'model and implementation differ (%s)' % kind, 'input': inp, 'impl': impl, 'coq_case': exprs[i][:700]})
    samples.append({'coq_case': exprs[0][:300]})
    return Corr(cases=len(exprs), nontrivial=len(nontrivial), disagreements=disagreements, samples=samples, distribution=dist,
                note='one vm_compute boolean per (function, input): the model applied to the input compared with the serialised output of the real function')


# ------------------------------------------------------------------------------------------------ search: real queries on SQLite

def list_by_str(doc, path):
    """does the path index a list with a str key in this document?  (the one case where sqlite._traverse lets a TypeError escape)"""
    v = doc
    for k in path:
        if isinstance(v, list) and isinstance(k, str): return True
        if not isinstance(v, (list, dict)): return False
        try: v = v[k]
        except (KeyError, IndexError, TypeError): return False
    return False

def lit_path(path):
    return ''.join('[%r]' % k for k in path)

def has_quote(path):
    return any(isinstance(k, str) and '"' in k for k in path)

def is_float_zero(v):
    return isinstance(v, float) and v == 0

def search(ctx, deep):
    rng = ctx.rng
    failures, evals, nontriv = [], 0, set()
    seen = {}
    dist = {'queries': 0, 'sql_errors_accepted': 0, 'by_kind': {}, 'failing_by_key': seen}
    def record(key, what, data):
        if seen.setdefault(key, 0) < 1: failures.append(Failure(key, what[:900], data))
        seen[key] += 1
    def count(kind): dist['by_kind'][kind] = dist['by_kind'].get(kind, 0) + 1

    rounds = ctx.scale(5, 40) if not deep else ctx.scale(16, 100)
    fixed_docs = [{'a b': 1, 'x"y': 2, 'd.e': 3, 'l': [10, 20, 30], 'z': 0.0, 'zi': 0, 'n': None, 'd': {'p': 1, 'q': 2}, 's': 'str', 'é': 5, 'e': [], 'f': False, '1a': 7, '': 8, 'mz': -0.0,
                   'nest': {'l': [{'k': [1, 2]}, []], 'a\\b': 1, "q'r": 2}}]
    fixed_arrays = [[1, 2, 3], [], [5], [4, 4, 2, 9, 7]]
    for rnd in range(rounds):
        docs = fixed_docs + [gen_doc(rng) for _ in range(5)] if rnd == 0 else [gen_doc(rng) for _ in range(6)]
        arrays = fixed_arrays if rnd == 0 else [[rng.randint(-3, 9) for _ in range(rng.randint(0, 5))] for _ in range(4)]
        for json1 in (True, False):
            mode = 'json1' if json1 else 'fallback'
            ids = c29_impl.load_rows(json1, docs, arrays)
            doc_of = dict(zip(ids, docs)); arr_of = dict(zip(ids, arrays))
            cases = []
            # paths: into a random document, used against all rows
            fixed_paths = [['a b'], ['x"y'], ['d.e'], ['l', 0], ['l', -1], ['l', 5], ['l', 'k'], ['d', 0], ['s', 'k'], ['z'], ['mz'], ['zi'], ['n'], ['e'], ['f'], ['s'], ['d'], ['nokey'], ['é'], ['1a'], [''],
                           ['nest', 'l', 0, 'k', 1], ['nest', 'a\\b'], ['nest', "q'r"], ['l'], ['nest', 'l']] if rnd == 0 else []
            paths = fixed_paths + [gen_path(rng, rng.choice(docs)) for _ in range(ctx.scale(10, 14))]
            for path in paths:
                cases.append(('extract', path, None))
                cases.append(('extract_param', path, None))
                cases.append(('truth', path, None))
                cases.append(('len', path, None))
                cases.append(('contains', path, rng.choice(['p', 'str', 'a', 'k'] + KEYS[:4])))
                st, val = py_at(rng.choice(docs), path)
                const = val if st == 'ok' and type(val) in (int, str) and rng.random() < 0.7 else rng.choice([0, 1, 'str', 'a', 7])
                cases.append(('eq', path, const))
            if rnd == 0: cases += [('eq', ['1a'], '7'), ('eq', ['s'], 0), ('eq', ['l'], 0), ('eq', ['1a'], 7), ('eq', ['s'], 'str')]
            for kind, path, arg in cases:
                src, params, want, skip = None, {}, None, False
                vals = {i: py_at(doc_of[i], path) for i in ids if i in doc_of}
                if kind == 'extract':
                    src = '(e.id, e.j%s) for e in E' % lit_path(path)
                    want = sorted([i, v if st == 'ok' else None] for i, (st, v) in vals.items())
                elif kind == 'extract_param':
                    names = ['p%d' % n for n in range(len(path))]
                    params = dict(zip(names, path))
                    src = '(e.id, e.j%s) for e in E' % ''.join('[%s]' % n for n in names)
                    want = sorted([i, v if st == 'ok' else None] for i, (st, v) in vals.items())
                elif kind == 'truth':
                    src = 'e.id for e in E if e.j%s' % lit_path(path)
                    want = sorted(i for i, (st, v) in vals.items() if st == 'ok' and bool(v))
                elif kind == 'len':
                    src = '(e.id, len(e.j%s)) for e in E' % lit_path(path)
                    want = {i: len(v) for i, (st, v) in vals.items() if st == 'ok' and isinstance(v, (list, dict, str))}
                elif kind == 'contains':
                    src = 'e.id for e in E if %r in e.j%s' % (arg, lit_path(path))
                    if any(st == 'ok' and isinstance(v, str) for st, v in vals.values()): skip = True      # substring test: not key / item membership
                    want = sorted(i for i, (st, v) in vals.items() if st == 'ok' and isinstance(v, (list, dict)) and arg in v)
                elif kind == 'eq':
                    src = 'e.id for e in E if e.j%s == %r' % (lit_path(path), arg)
                    if any(st == 'ok' and (isinstance(v, (bool, float)) or v is None) for st, v in vals.values()): skip = True
                    want = sorted(i for i, (st, v) in vals.items() if st == 'ok' and type(v) in (int, str) and v == arg)
                if skip: continue
                st, rows = c29_impl.run_query(json1, src, params)
                evals += 1; dist['queries'] += 1; count(kind)
                data = {'mode': mode, 'kind': kind, 'docs': docs, 'path': path, 'arg': arg}
                py_raises = any(s == 'raise' for s, _ in vals.values())
                if st == 'exc':
                    neg = any(isinstance(k, int) and not isinstance(k, bool) and k < 0 for k in path)
                    if json1 and neg: dist['sql_errors_accepted'] += 1; continue
                    if (not json1 or kind == 'contains') and any(list_by_str(doc_of[i], path) for i in vals): key = 'json-fallback-list-indexed-by-str-raises'   # py_json_contains is used with JSON1 too
                    elif has_quote(path): key = 'json-key-with-double-quote'
                    else: key = 'unlisted:%s:%s:sql-error' % (kind, mode)
                    record(key, 'C29 %s [%s]: %s raises %s (expected: NULL where Python raises, a value elsewhere)' % (kind, mode, src, rows), data); continue
                if kind in ('extract', 'extract_param'):
                    got = sorted([r[0], c29_impl.plain(r[1])] for r in rows)
                    ok = got == want and all(type(g[1]) is type(w[1]) or isinstance(g[1], (int, float)) for g, w in zip(got, want))
                elif kind == 'len':
                    gotd = {r[0]: r[1] for r in rows}
                    bad = {i: (gotd.get(i), w) for i, w in want.items() if gotd.get(i) != w}
                    ok = not bad
                    got = gotd
                else:
                    got = sorted(rows); ok = got == want
                if any(s == 'ok' for s, _ in vals.values()): nontriv.add(json.dumps([kind, path, arg], sort_keys=True, default=str))
                if ok: continue
                # classify
                if has_quote(path): key = 'json-key-with-double-quote'
                elif json1 and any(isinstance(k, str) and '\\' in k for k in path): key = 'json-key-with-backslash-on-json1'
                elif kind == 'eq':
                    extra = [i for i in got if i not in want]; missing = [i for i in want if i not in got]
                    other = (str, list, dict) if isinstance(arg, int) else (int, list, dict)
                    if extra and not missing and all(vals[i][0] == 'ok' and type(vals[i][1]) in other for i in extra):
                        key = 'json-eq-int-constant-matches-non-number' if isinstance(arg, int) else 'json-eq-str-constant-matches-non-string'
                    else: key = 'unlisted:eq:%s' % mode
                elif kind == 'truth' and all((i in got) == (i in want) or is_float_zero(vals[i][1]) for i in vals): key = 'json-float-zero-truthy'
                elif kind == 'len':
                    kinds = sorted(set(type(vals[i][1]).__name__ for i in bad))
                    if all(g in (0, None) for g, w in bad.values()) and set(kinds) <= {'dict', 'str'}:
                        for k_ in kinds[1:]: record('json-len-of-%s-is-0' % k_, 'C29 len [%s]: %s gives %r, Python gives %r' % (mode, src, got, want), data)
                        key = 'json-len-of-%s-is-0' % kinds[0]
                    else: key = 'unlisted:len:%s' % mode
                else: key = 'unlisted:%s:%s:%s' % (kind, mode, 'param' if kind == 'extract_param' else 'const')
                record(key, 'C29 %s [%s]: %s %r gives %r, Python gives %r' % (kind, mode, src, params, got, want), data)

            # several JSON paths in one query sharing an external variable at the same position and differing in literal steps
            if rnd < ctx.scale(2, 8):
                # single digits only: two JSON items are ordered by their text on SQLite (recorded finding), which for one digit is the numeric order
                sdocs = [{'p': {'lo': rng.randint(0, 5), 'hi': rng.randint(3, 9), 'mid': rng.randint(0, 9)}, 'q': {'lo': 7, 'hi': 2, 'mid': 5},
                          'l': [rng.randint(0, 2) for _ in range(3)], 'm': [rng.randint(3, 5) for _ in range(3)], 'n': [7, 8, 9]} for _ in range(4)]
                if rnd == 0 and json1:
                    # PostgreSQL path literal judged by the documented text[] syntax (not executed)
                    R_ = c29_impl.real_funcs()
                    for pkeys in (['a', 'b c', 0], ['x"y', -2], ['', '1a', 'é'], ['null'], ['NULL', 'k'], ['a\\b'], ['nUll1', 'n']):
                        ptext = R_['pg_eval_json_path'](pkeys)
                        gotp = c29_impl.pg_array_parse(ptext)
                        wantp = [str(k) for k in pkeys]
                        evals += 1; count('pg-path-text')
                        if gotp != wantp:
                            key = 'pg-json-key-null-unquoted' if any(isinstance(k, str) and k.lower() == 'null' for k in pkeys) else ('pg-json-key-with-backslash' if any(isinstance(k, str) and '\\' in k for k in pkeys) else 'unlisted:pg-path-text')
                            record(key, 'C29 pg-path-text (documented text[] syntax, not executed): path %r is written %r, which PostgreSQL reads as %r' % (pkeys, ptext, gotp),
                                   {'mode': 'json1', 'kind': 'pgtext', 'keys': pkeys})
                if rnd == 0:
                    # path wildcards ([...] and [:]) exist only for MySQL / Oracle: SQLite must refuse them at translation time
                    for wsrc in ("e.j['l'][:] for e in E", "e.j[...] for e in E"):
                        st, rows = c29_impl.run_query(json1, wsrc, {})
                        evals += 1; dist['queries'] += 1; count('wildcard')
                        if st != 'exc' or 'TranslationError' not in rows:
                            record('unlisted:wildcard-accepted:%s' % mode, 'C29 wildcard [%s]: %s should be refused with TranslationError on SQLite, got %r' % (mode, wsrc, rows),
                                   {'mode': mode, 'kind': 'shared', 'docs': [{'l': [1]}], 'arrays': [], 'src': wsrc, 'params': {}, 'want': 'TranslationError'})
                    c29_impl.load_rows(json1, [{'l': [5], 'm': [12]}], [])
                    st, rows = c29_impl.run_query(json1, "e.j['l'][0] for e in E if e.j['l'][0] < e.j['m'][0]", {})
                    evals += 1; dist['queries'] += 1; count('order')
                    if (st, rows) != ('ok', [5]):
                        record('json-items-ordered-as-text', "C29 order [%s]: e.j['l'][0] < e.j['m'][0] with 5 and 12 stored selects %r, Python selects the row" % (mode, rows),
                               {'mode': mode, 'kind': 'shared', 'docs': [{'l': [5], 'm': [12]}], 'arrays': [], 'src': "e.j['l'][0] for e in E if e.j['l'][0] < e.j['m'][0]", 'params': {}, 'want': [5]})
                sarrs = [[rng.randint(0, 9) for _ in range(3)] for _ in range(4)]
                sids = c29_impl.load_rows(json1, sdocs, sarrs)
                sd = dict(zip(sids, sdocs)); sa = dict(zip(sids, sarrs))
                shared = []
                for k in ('p', 'q'):
                    shared.append(("(e.id, e.j[k]['lo'], e.j[k]['hi']) for e in E", {'k': k}, sorted([i, d[k]['lo'], d[k]['hi']] for i, d in sd.items()), 'pair'))
                    shared.append(("(e.id, e.j[k]['hi'], e.j[k]['mid'], e.j[k]['lo']) for e in E", {'k': k}, sorted([i, d[k]['hi'], d[k]['mid'], d[k]['lo']] for i, d in sd.items()), 'triple'))
                    shared.append(("e.id for e in E if e.j[k]['lo'] < e.j[k]['hi']", {'k': k}, sorted(i for i, d in sd.items() if d[k]['lo'] < d[k]['hi']), 'comparison'))
                    shared.append(("e.id for e in E if e.j[k]['lo'] == e.j[k]['mid']", {'k': k}, sorted(i for i, d in sd.items() if d[k]['lo'] == d[k]['mid']), 'comparison'))
                for ix in (0, 2):
                    shared.append(("(e.id, e.j['l'][i], e.j['m'][i], e.j['n'][i]) for e in E", {'i': ix}, sorted([i, d['l'][ix], d['m'][ix], d['n'][ix]] for i, d in sd.items()), 'index'))
                    shared.append(("(e.id, e.j['l'][i], e.a[i], e.j['m'][i]) for e in E", {'i': ix}, sorted([i, d['l'][ix], sa[i][ix], d['m'][ix]] for i, d in sd.items()), 'with-array'))
                    shared.append(("e.id for e in E if e.j['l'][i] < e.j['m'][i] and e.j['m'][i] < e.j['n'][i]", {'i': ix}, sorted(sd), 'comparison'))
                for src, params, want, shape in shared:
                    st, rows = c29_impl.run_query(json1, src, params)
                    evals += 1; dist['queries'] += 1; count('shared-variable')
                    got = rows if st == 'exc' else sorted(rows)
                    nontriv.add(json.dumps(['shared', src, params]))
                    if got != want:
                        record('json-paths-sharing-a-parameter:%s' % shape, 'C29 shared-variable [%s]: %s %r gives %r, Python gives %r' % (mode, src, params, got, want),
                               {'mode': mode, 'kind': 'shared', 'docs': sdocs, 'arrays': sarrs, 'src': src, 'params': params, 'want': want})
                ids = c29_impl.load_rows(json1, docs, arrays)
                doc_of = dict(zip(ids, docs)); arr_of = dict(zip(ids, arrays))
            # arrays
            acases = []
            idxs = list(range(-7, 7)) if rnd == 0 else [rng.randint(-12, 7) for _ in range(6)]
            for v in idxs:
                acases.append(('aindex_const', v, None)); acases.append(('aindex_param', v, None))
            bounds = [None, -7, -5, -4, -3, -1, 0, 1, 2, 5] if rnd == 0 else [None] + [rng.randint(-12, 7) for _ in range(4)]
            for a in bounds:
                for b in bounds:
                    if a is None and b is None: continue
                    acases.append(('aslice', a, b))
            acases += [('alen', None, None)] + [('acontains', x, None) for x in (2, 4, 99)] + [('asubset', [1, 3], None), ('asubset', [4, 2], None), ('asubset', [4, 99], None)]
            for kind, x, y in acases:
                params = {}
                if kind == 'aindex_const':
                    src = '(e.id, e.a[%d]) for e in E' % x
                    want = sorted([i, (a[x] if -len(a) <= x < len(a) else None)] for i, a in arr_of.items())
                elif kind == 'aindex_param':
                    src = '(e.id, e.a[x]) for e in E'; params = {'x': x}
                    want = sorted([i, (a[x] if -len(a) <= x < len(a) else None)] for i, a in arr_of.items())
                elif kind == 'aslice':
                    src = '(e.id, e.a[%s:%s]) for e in E' % ('' if x is None else 'x', '' if y is None else 'y'); params = {'x': x, 'y': y}
                    want = sorted([i, a[x:y]] for i, a in arr_of.items())
                elif kind == 'alen':
                    src = '(e.id, len(e.a)) for e in E'; want = sorted([i, len(a)] for i, a in arr_of.items())
                elif kind == 'acontains':
                    src = 'e.id for e in E if %d in e.a' % x; want = sorted(i for i, a in arr_of.items() if x in a)
                else:
                    src = 'e.id for e in E if %r in e.a' % (x,); want = sorted(i for i, a in arr_of.items() if all(t in a for t in x))
                st, rows = c29_impl.run_query(json1, src, params)
                evals += 1; dist['queries'] += 1; count(kind)
                data = {'mode': mode, 'kind': kind, 'arrays': arrays, 'x': x, 'y': y}
                if st == 'exc':
                    record('unlisted:%s:%s:sql-error' % (kind, mode), 'C29 %s [%s]: %s %r raises %s' % (kind, mode, src, params, rows), data); continue
                # rows without an array value (more documents than arrays) are outside the expectation
                got = sorted(([r[0], c29_impl.plain(r[1])] if isinstance(r, list) else r) for r in rows if (r[0] if isinstance(r, list) else r) in arr_of)
                nontriv.add(json.dumps([kind, x, y]))
                if got == want: continue
                if kind in ('aindex_const', 'aindex_param'):
                    wrong = [i for g, w in zip(got, want) if g != w for i in [g[0]]]
                    if all(-2 * len(arr_of[i]) <= x < -len(arr_of[i]) for i in wrong): key = 'array-index-below-minus-len-wraps:%s' % kind.split('_')[1]
                    else: key = 'unlisted:%s:%s' % (kind, mode)
                elif kind == 'aslice':
                    wrong = [i for g, w in zip(got, want) if g != w for i in [g[0]]]
                    badb = lambda v, i: v is not None and -2 * len(arr_of[i]) < v < -len(arr_of[i])
                    if wrong and all(badb(x, i) or badb(y, i) for i in wrong):
                        sb = any(badb(x, i) for i in wrong); eb = any(badb(y, i) for i in wrong)
                        if sb and eb: record('array-slice-bound-below-minus-len-wraps:stop', 'C29 %s [%s]: %s %r gives %r, Python gives %r' % (kind, mode, src, params, got, want), data)
                        key = 'array-slice-bound-below-minus-len-wraps:%s' % ('start' if sb else 'stop')
                    else: key = 'unlisted:%s:%s' % (kind, mode)
                else: key = 'unlisted:%s:%s' % (kind, mode)
                record(key, 'C29 %s [%s]: %s %r gives %r, Python gives %r' % (kind, mode, src, params, got, want), data)
    return Search(evaluations=evals, failures=failures, nontrivial=len(nontriv), distribution=dist, exhaustive=False,
                  samples=[{'query': "select((e.id, e.j['nest']['l'][0]['k'][1]) for e in E)", 'mode': 'fallback'}])


def replay(ctx, data):
    """re-run one stored case (same classification code as the search, on the stored documents / arrays only)"""
    mode = data['mode']; json1 = mode == 'json1'
    kind = data['kind']
    if kind == 'pgtext':
        text = c29_impl.real_funcs()['pg_eval_json_path'](data['keys'])
        got = c29_impl.pg_array_parse(text)
        if got != [str(k) for k in data['keys']]:
            return Failure(data.get('key', 'replayed'), 'C29 pg-path-text: %r is written %r, read by PostgreSQL as %r' % (data['keys'], text, got), data)
        return None
    if kind == 'shared':
        ids = c29_impl.load_rows(json1, data['docs'], data['arrays'])
        st, rows = c29_impl.run_query(json1, data['src'], data['params'])
        got = rows if st == 'exc' else sorted(rows)
        # ids are assigned afresh: compare without the id column when rows are lists
        strip = lambda rs: sorted((r[1:] if isinstance(r, list) else 0) for r in rs) if rs and isinstance(rs[0], list) else len(rs)
        if st == 'exc' or strip(got) != strip(data['want']):
            return Failure(data.get('key', 'replayed'), 'C29 shared-variable [%s]: %s %r gives %r, expected %r' % (mode, data['src'], data['params'], got, data['want']), data)
        return None
    if kind.startswith('a'):
        arrays = data['arrays']; x, y = data.get('x'), data.get('y')
        ids = c29_impl.load_rows(json1, [], arrays); arr_of = dict(zip(ids, arrays)); params = {}
        if kind in ('aindex_const', 'aindex_param'):
            src, params = ('(e.id, e.a[%d]) for e in E' % x, {}) if kind == 'aindex_const' else ('(e.id, e.a[x]) for e in E', {'x': x})
            want = sorted([i, (a[x] if -len(a) <= x < len(a) else None)] for i, a in arr_of.items())
        elif kind == 'aslice':
            src = '(e.id, e.a[%s:%s]) for e in E' % ('' if x is None else 'x', '' if y is None else 'y'); params = {'x': x, 'y': y}
            want = sorted([i, a[x:y]] for i, a in arr_of.items())
        else:
            return None
        st, rows = c29_impl.run_query(json1, src, params)
        got = rows if st == 'exc' else sorted([r[0], c29_impl.plain(r[1])] for r in rows)
        if got != want: return Failure(data.get('key', 'replayed'), 'C29 %s [%s]: %s %r gives %r, Python gives %r' % (kind, mode, src, params, got, want), data)
        return None
    docs, path, arg = data['docs'], data['path'], data.get('arg')
    ids = c29_impl.load_rows(json1, docs, [])
    vals = {i: py_at(d, path) for i, d in zip(ids, docs)}
    params = {}
    if kind in ('extract', 'extract_param'):
        if kind == 'extract': src = '(e.id, e.j%s) for e in E' % lit_path(path)
        else:
            names = ['p%d' % n for n in range(len(path))]; params = dict(zip(names, path))
            src = '(e.id, e.j%s) for e in E' % ''.join('[%s]' % n for n in names)
        want = sorted([i, v if st == 'ok' else None] for i, (st, v) in vals.items())
        st, rows = c29_impl.run_query(json1, src, params)
        got = rows if st == 'exc' else sorted([r[0], c29_impl.plain(r[1])] for r in rows)
    elif kind == 'truth':
        src = 'e.id for e in E if e.j%s' % lit_path(path)
        want = sorted(i for i, (st, v) in vals.items() if st == 'ok' and bool(v))
        st, rows = c29_impl.run_query(json1, src, params); got = rows if st == 'exc' else sorted(rows)
    elif kind == 'len':
        src = '(e.id, len(e.j%s)) for e in E' % lit_path(path)
        want = {i: len(v) for i, (st, v) in vals.items() if st == 'ok' and isinstance(v, (list, dict, str))}
        st, rows = c29_impl.run_query(json1, src, params)
        got = rows if st == 'exc' else {r[0]: r[1] for r in rows if r[0] in want}
    elif kind == 'contains':
        src = 'e.id for e in E if %r in e.j%s' % (arg, lit_path(path))
        want = sorted(i for i, (st, v) in vals.items() if st == 'ok' and isinstance(v, (list, dict)) and arg in v)
        st, rows = c29_impl.run_query(json1, src, params); got = rows if st == 'exc' else sorted(rows)
    else:
        src = 'e.id for e in E if e.j%s == %r' % (lit_path(path), arg)
        want = sorted(i for i, (st, v) in vals.items() if st == 'ok' and type(v) in (int, str) and v == arg)
        st, rows = c29_impl.run_query(json1, src, params); got = rows if st == 'exc' else sorted(rows)
    if st == 'exc' and json1 and any(isinstance(k, int) and k < 0 for k in path): return None
    if got != want:
        return Failure(data.get('key', 'replayed'), 'C29 %s [%s]: %s %r gives %r, Python gives %r' % (kind, mode, src, params, got, want), data)
    return None


LEVEL_TEXT = ('Machine-checked proof (Coq 8.16.1) over a model of Pony\'s JSON / array query helpers: the path text built by eval_json_path is read back by SQLite\'s _parse_path '
              'as the same keys for all int and str keys without a double quote; _traverse returns a value exactly where Python indexing of the decoded document does; key membership and '
              'list length after a path; JSON truthiness by the textual NOT IN list equals Python truthiness (float zeros as json.dumps writes them included); array index and slice on '
              'SQLite equal Python indexing / slicing for every index and bound; the bind-parameter key of a parameterised path determines the path (so sharing parameters between '
              'several paths of one query is sound); equality of two int items via their texts is exact; the PostgreSQL array path and jsonb truthiness are right under the documented '
              'semantics, and the text[] literal written for PostgreSQL\'s #> operator is read back as the path steps under the documented array-literal syntax (C29_pg_path_except_known; '
              'two recorded PostgreSQL findings: the key null written unquoted, a backslash inside a key not escaped). The remaining deviations (key quoting, len of dict / str, CAST-based ==, text ordering of two items, TypeError escaping the fallback) are refuted by witnesses and '
              'recorded as findings.')
LEVEL_NOTE = ('Partial: the model is hand-written (tied by vm_compute correspondence with the real functions and index ASTs, and by real queries on SQLite with JSON1 and with the '
              'fallback forced); JSON_CONCAT and PostgreSQL JSON functions other than the #> path literal are not modelled; ten recorded findings remain (key quoting x2, len of dict / str, CAST-based == x2, text ordering of two items, TypeError escaping the fallback, two PostgreSQL path-text findings); \\w beyond ASCII is an oracle.')
TECHNIQUE = 'Coq proofs (decimal print/parse round trip, scanner lemmas, structural induction over paths, seg normal form + lia for slices); vm_compute correspondence; end-to-end differential search on SQLite in two modes'
DESIGN_REF = 'DESIGN.md section 5, C29'
