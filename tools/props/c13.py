"""C13 - A modification that raises leaves the session exactly as it was."""
import collections, json, os, random, re
import vlib
from vlib import Corr, Search, Failure
import c13_impl as I, c13_gen as G, c13_search as S, c13_coq as Q, c13_scenarios as SCN

ID = 'C13'
LEVEL = 'proof'
PROPS = ['Props/C13.v']
TRUSTED = [
    'hand-written model coq/Model/C13Heap.v + C13Session.v of the modification paths of pony/orm/core.py (Attribute.__set__, update_reverse, Set.__set__, '
    'reverse_add/remove, SetInstance.add/remove, Entity.__init__/_delete_/set, update_simple/composite_index) with the undo closures as data; tied to /repo by '
    'running the same histories on real Pony + SQLite and comparing, inside coqc (vm_compute), the error class of every call and the full session snapshot '
    '(values, both sides of collections with added/removed, all index lookups, statuses, write bits, objects_to_save, modified_collections) after every '
    'raising call, every commit and at the end - including the exact corrupted state after each known-bad call',
    'the history harness tools/c13_impl.py (reads the session cache internals; deterministic set iteration order through small integer __hash__ on the test '
    'entities, at most 8 objects per history) and the generator tools/c13_gen.py',
    'schema facts (bits, cascade_delete, key lists) are read from the real mapping on every run and compared with coq/Model/C13Schemas.v',
]
ASSUMPTIONS = [
    'one db_session per history; every attribute value loaded (the harness re-reads all attributes after each commit); integer scalars, explicit integer '
    'primary keys, no inheritance, no volatile/lazy attributes, no self-links',
    'allocation of the half-built object of a failed constructor is not an observation (it stays in cache.objects, unreachable unless its primary key was registered)',
    'read bits (_rbits_), setdata.count / is_fully_loaded / absent and the None-vs-empty distinction of setdata.added/removed are not modelled',
    'commit is modelled only as session bookkeeping and only on states no known-bad failure has touched',
]
RULE = ('histories = hand-minimised scenario histories (25, all clean since the repairs) + every injected fault (site x k) on their last call + seeded random histories over '
        '3 schemas (populate a hub and its dependents, then mostly doomed modifications, commits, injected faults), each stopped at the first raising call '
        'that changes the snapshot; non-trivial = the history contains at least one raising modification; distinct = distinct canonical (schema, op list)')

SITE_KEY = {'TInconsistent': 'model-inconsistent-state'}


class StopRunner(object):
    """stops generation at the first raising call that changes the snapshot (later states are corrupted)"""
    def __init__(self, r): self.r = r
    def step(self, op): return self.r.step(op)
    @property
    def dead(self): return self.r.dead or bool(self.r.viol)


def run_real(sname, ops=None, rng=None, length=14, foreign=True):
    """Run a fixed op list, or generate one with rng, on real Pony.  Returns (ops, out) or None when set order is unreliable."""
    schema = I.SCHEMAS[sname]
    recipe, made = G.foreign_recipe(schema) if foreign else ([], [])
    r = I.Runner(schema, foreign=recipe if foreign else None, snapshots='all')
    try:
        if ops is None:
            ops = G.random_history(schema, rng, length, StopRunner(r), foreign=made)
        else:
            for op in ops:
                r.step(op)
                if r.dead or r.viol: break
            ops = ops[:len(r.ops)]
    finally:
        hashed = r.w.hash_next[0]
        out = r.close()
    while ops and ops[-1][0] == 'commit' and out['results'][len(ops) - 1][0] == 'err':
        ops = ops[:-1]
    if hashed > I.MAX_OBJECTS: return None
    return ops, out


def history_term(name, ops, out):
    exps = []
    skipped = 0
    for i, op in enumerate(ops):
        res = out['results'][i]
        want = res[0] == 'err' or op[0] == 'commit' or i == len(ops) - 1
        e, sk = Q.expectation_coq(res, out['snaps'][i] if want else None, out['facts'])
        skipped += sk
        exps.append(e)
    return Q.history_coq(name, out['facts'], ops, exps), skipped


def eval_histories(ctx, items, per=None, name='h'):
    """items: list of (ops, out).  Returns per history (mismatch text, [(failed, [taint codes])])"""
    terms = [history_term('h%d' % i, ops, out)[0] for i, (ops, out) in enumerate(items)]
    if per is None: per = max(20, min(60, (len(terms) + 7) // 8))
    chunks = [''.join(terms[i:i + per]) for i in range(0, len(terms), per)]
    outs = vlib.coq_eval_many(ctx, Q.HEADER, chunks, name=name)
    vals = []
    for o in outs: vals += vlib.parse_eval_outputs(o)
    assert len(vals) == len(items), (len(vals), len(items))
    res = []
    for v in vals:
        m = re.match(r'\(\[(.*?)\], \[(.*)\]\)$', v)
        assert m, v[:300]
        per_op = [(f == 'true', [int(x) for x in ts.replace(' ', '').split(';') if x]) for f, ts in re.findall(r'\(\s*(true|false), \[([0-9; ]*)\]\)', m.group(2))]
        res.append((m.group(1).strip(), per_op))
    return res


def scenario_histories(ctx, deep):
    """(label, schema name, ops) for the fixed scenarios and for every injected fault on their last call"""
    out = []
    kmax = 8 if deep else 2
    for f in SCN.FINDINGS: out.append(('finding:' + f['key'], f['schema'], f['ops']))
    for c in SCN.CLEAN: out.append(('clean:' + c['name'], c['schema'], c['ops']))
    for sc in list(SCN.FINDINGS) + list(SCN.CLEAN):
        name = sc.get('key') or sc['name']
        ops = sc['ops']
        # faults on every non-commit call of the clean scenarios (from the first commit on), on the last call of the others
        targets = [len(ops) - 1] if 'key' in sc else [i for i in range(len(ops)) if ops[i][0] != 'commit' and i >= 2]
        for t in targets:
            for site in ('idx', 'radd'):
                for k in range(1, kmax + 1):
                    out.append(('fault:%s@%d:%s:%d' % (name, t, site, k), sc['schema'], ops[:t] + [['fault', site, k, ops[t]]]))
    return out


def correspondence(ctx):
    disagreements, samples = [], []
    dist = collections.Counter()
    # (1) schema facts of the current /repo vs coq/Model/C13Schemas.v
    try:
        txt = open(os.path.join(vlib.COQ, 'Model', 'C13Schemas.v')).read()
    except IOError:
        txt = ''
    for sname in sorted(I.SCHEMAS):
        term = 'Definition sch_%s : schema :=\n  %s.\n' % (sname, Q.schema_coq(I.World(I.SCHEMAS[sname]).facts()))
        dist['schema_terms'] += 1
        if term not in txt:
            disagreements.append({'what': 'schema facts of %s (bits / cascade_delete / keys) computed by the mapping differ from coq/Model/C13Schemas.v' % sname,
                                  'input': sname, 'impl': term[:1500]})
    # (2) histories
    items, labels = [], []
    for label, sname, ops in scenario_histories(ctx, ctx.thorough):
        r = run_real(sname, ops=ops, foreign=False)
        if r is None: dist['dropped_set_order_unreliable'] += 1; continue
        items.append(r); labels.append((label, sname))
    nrand = ctx.scale(60, 3000)
    for sname in sorted(I.SCHEMAS):
        for n in range(nrand // len(I.SCHEMAS)):
            rng = random.Random('%s/corr/%s/%d' % (ctx.seed, sname, n))
            r = run_real(sname, rng=rng, length=ctx.scale(14, 16))
            if r is None: dist['dropped_set_order_unreliable'] += 1; continue
            items.append(r); labels.append(('random:%d' % n, sname))
    results = eval_histories(ctx, items)
    nontrivial = set()
    for (label, sname), (ops, out), (mism, per_op) in zip(labels, items, results):
        dist['histories'] += 1
        dist['ops'] += len(ops)
        kind = label.split(':')[0]
        dist['kind_' + kind] += 1
        raising = [r for r in out['results'][:len(ops)] if r[0] == 'err']
        for r in raising: dist['err_' + str(r[1])] += 1
        if raising: nontrivial.add(json.dumps([sname, ops]))
        for k, (failed, ts) in enumerate(per_op):
            if failed and ts:
                for t in sorted(set(ts)): dist['model_site_' + Q.TAINTS[t]] += 1
        if mism:
            disagreements.append({'what': 'model and implementation differ on history %s (op number, component code): %s' % (label, mism[:200]),
                                  'input': {'schema': sname, 'ops': ops}, 'impl': out['results'][:len(ops)], 'model_taints': per_op})
        for v in out['violations']:
            k = v['step']
            if k < len(per_op) and per_op[k][0] and not per_op[k][1]:
                disagreements.append({'what': 'the implementation changes the session in a raising call that the model proves atomic (history %s, op %d, differs in %s)' % (
                    label, k, '+'.join(v['diff'])), 'input': {'schema': sname, 'ops': ops[:k + 1]}, 'impl': v})
        if len(samples) < 4 and raising and kind == 'random':
            samples.append({'schema': sname, 'ops': ops, 'results': out['results'][:len(ops)], 'model_per_op(failed,taints)': per_op})
    return Corr(cases=len(items), nontrivial=len(nontrivial), disagreements=disagreements, samples=samples, distribution=dict(dist),
                note='every history is run on real Pony + SQLite and by the Coq model (vm_compute inside coqc); error class per call and the whole session '
                     'snapshot after raising calls, commits and at the end must agree; comparison stops after the first known-bad failure of a history')


def classify_many(ctx, cases):
    """cases: list of (schema name, ops, out) whose out has a violation.  Failures for the first violation of each history: one per model
    taint site, or 'unexplained' when the model proves the call atomic.  One coqc run for all of them."""
    if not cases: return []
    items = [(ops[:out['violations'][0]['step'] + 1], out) for sname, ops, out in cases]
    results = eval_histories(ctx, items, name='cls')
    res = []
    for (sname, ops, out), (mism, per_op) in zip(cases, results):
        v = out['violations'][0]
        k = v['step']
        sites = []
        if k < len(per_op) and per_op[k][0]:
            sites = sorted(set(Q.TAINTS[t] for t in per_op[k][1]))
        data = {'schema': sname, 'ops': ops[:k + 1]}
        desc = '%s: %s raised %s and changed %s' % (sname, json.dumps(v['op']), v['err'], '+'.join(v['diff']))
        if not sites:
            res.append([Failure('unexplained:%s:%s:%s' % (S.opkind(v['op']), v['err'], '+'.join(v['diff'])), desc + ' (the model proves this call atomic)', data)])
        else:
            res.append([Failure(SITE_KEY[s], desc + ' [code site %s]' % s, dict(data, site=s)) for s in sites])
    return res


def search(ctx, deep):
    """Property oracle on real Pony only: snapshot before a raising call == snapshot after.  The model is used to name the code site."""
    n = 3000 if deep else 45
    dist = collections.Counter()
    evals, nontriv = 0, set()
    found = {}
    # the clean scenarios and every injected fault on their calls: the undo protocol must restore the session exactly
    for label, sname, ops in scenario_histories(ctx, deep):
        if not (label.startswith('clean:') or label.startswith('fault:')): continue
        if label.startswith('fault:') and not any(label.startswith('fault:%s@' % c['name']) for c in SCN.CLEAN): continue
        r = run_real(sname, ops=ops, foreign=False)
        if r is None: continue
        ops2, out = r
        evals += 1
        dist['scenario_histories'] += 1
        if out['violations']:
            v = out['violations'][0]
            sig = (sname, S.opkind(v['op']), v['err'], '+'.join(v['diff']))
            dist['violating_histories'] += 1
            if sig not in found: found[sig] = (sname, ops2, out)
    for sname in sorted(I.SCHEMAS):
        for i in range(n // len(I.SCHEMAS)):
            rng = random.Random('%s/search/%s/%d' % (ctx.seed, sname, i))
            r = run_real(sname, rng=rng, length=16 if deep else 14)
            if r is None: dist['dropped_set_order_unreliable'] += 1; continue
            ops, out = r
            evals += 1
            raising = [x for x in out['results'][:len(ops)] if x[0] == 'err']
            dist['raising_calls'] += len(raising)
            if raising: nontriv.add(json.dumps([sname, ops]))
            if out['violations']:
                v = out['violations'][0]
                sig = (sname, S.opkind(v['op']), v['err'], '+'.join(v['diff']))
                dist['violating_histories'] += 1
                if sig not in found: found[sig] = (sname, ops, out)
    failures, seen = [], set()
    order = sorted(found)
    classes = classify_many(ctx, [found[sig] for sig in order])
    for sig, fs in zip(order, classes):
        sname, ops, out = found[sig]
        for f in fs:
            dist['class_' + f.key] += 1
            if f.key in seen: continue
            seen.add(f.key)
            if f.key.startswith('unexplained'):
                try:
                    small = S.shrink(I.SCHEMAS[sname], f.data['ops'], S.key_of(out['violations'][0]), foreign=G.foreign_recipe(I.SCHEMAS[sname])[0], budget=150)
                    f.data['ops'] = small
                except Exception:
                    pass
            failures.append(f)
    return Search(evaluations=evals, failures=failures, nontrivial=len(nontriv), distribution=dict(dist), exhaustive=False,
                  samples=[{'oracle': 'snapshot(before) == snapshot(after) for every raising call', 'violating_signatures': [list(k) for k in sorted(found)][:12]}])


def replay(ctx, data):
    sname, ops = data['schema'], data['ops']
    r = run_real(sname, ops=ops, foreign=any(json.dumps(o).find('"f"') >= 0 for o in ops))
    if r is None: return None
    ops2, out = r
    if not out['violations']: return None
    v = out['violations'][0]
    want = data.get('site')
    if want and v['step'] == len(ops) - 1:
        # a recorded finding: the raising last call still changes the session (the code site is checked by the correspondence run)
        return Failure(SITE_KEY[want], '%s: %s raised %s and changed %s [code site %s]' % (sname, json.dumps(v['op']), v['err'], '+'.join(v['diff']), want), data)
    return classify_many(ctx, [(sname, ops2, out)])[0][0]


LEVEL_TEXT = ('Machine-checked proof (Coq 8.16.1), for every schema, every session state, every top-level modification and every injected fault, that a call which '
              'raises leaves every observable location of the session (values, both sides of collections with pending added/removed, index lookups, statuses, '
              'write bits, objects_to_save, modified_collections) unchanged - for every run that stays in the shapes the code itself asserts (the eight code sites that used to mutate without a correct undo were '
              'repaired in /repo and are gone from the model; no open finding). The model (undo closures as data) is compared '
              'with real Pony + SQLite on scenario, fault-enumeration and random histories on every run, with every injected fault on 25 scenario histories.')
LEVEL_NOTE = ('Trusted: Coq kernel + vm_compute; the hand-written model and its correspondence harness (one db_session, everything loaded, <= 8 objects per history). '
              'known_bad is defined by the run itself: the only mark left is TInconsistent (a dictionary / queue not in the shape the code asserts; C13_sites_complete; never produced on any generated history, but not shown unreachable - that needs the invariants of C11/C12). '
              '"A later commit writes nothing" follows only through equality of the observed state; commit itself is modelled as bookkeeping (SQL: C15/C16).')
TECHNIQUE = 'Coq proof of an undo-log discipline (restoring monad, closures as data, LIFO blocks) + vm_compute correspondence on histories + fault enumeration + property-oracle search'
DESIGN_REF = 'DESIGN.md section 5, C13; Appendix A'
