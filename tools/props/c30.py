"""C30 - Raw SQL parameter substitution is faithful."""
import json, re, sys, types, itertools
import vlib
from vlib import Corr, Search, Failure, cz, clist, cstr

ID = 'C30'
LEVEL = 'proof'
PROPS = ['Props/C30.v', 'Findings/C30.v']
from py2coq import c30rawtype, c30regex
GEN = [('Gen/C30RawType.v', c30rawtype.generate), ('Gen/C30Regex.v', c30regex.generate)]
TRUSTED = [
    'hand-written executable models Model/C30Scan.v (pony.utils.parse_expr as deterministic scanner steps; PROVED equal to the match / search results of the three '
    'regular expressions, which are translated from CPython\'s parse trees of the source patterns on every run, under the backtracking semantics of Model/C30Regex.v) and '
    'Model/C30Adapt.v (core.adapt_sql: scan, $$, five paramstyles, % doubling, the process-wide cache; ormtypes.parse_raw_sql), '
    'tied by correspondence: a line-by-line Python mirror of the model is compared with the real functions (sources captured through an injected '
    '`compile`), and the Coq model with the mirror by vm_compute on every case',
    'the character classes \\w and \\s are parameters of the model (theorems hold for all classifications); the correspondence uses the classes CPython\'s re reports '
    '(ASCII table checked exhaustively, non-ASCII characters passed per case)',
    'Python evaluation of the argument source (one tuple / dict display built from the expression texts) = evaluating each expression in the caller\'s scope: '
    'not modelled, exercised by the end-to-end search',
    'PEP 249 binding rules and the %-formatting step of format/pyformat drivers (Model/C06Params.v, Model/C06Lex.v: documentation models validated in C06); '
    'the driver shim of C06 that runs format / pyformat / numeric statements on SQLite',
    'regex semantics model Model/C30Regex.v (backtracking matcher with Python\'s priorities) and translator c30regex.py (CPython\'s re._parser parse trees -> Gen/C30Regex.v): '
    'trusted, and compared with CPython\'s compiled patterns (match / search, lastindex, end positions) on every run',
    'translator c30rawtype.py (fields compared / hashed by RawSQLType.__eq__ / __hash__) and the statement that the cached translator carries one converter per $parameter type; '
    'exercised end to end by re-running one query with raw_sql $parameters of changing Python types against cold-cache runs',
]
ASSUMPTIONS = [
    'SyntaxError raised by compile() for an ill-formed expression is outside the Coq model; the Python mirror applies the compile checks in the code\'s order '
    '(an earlier SyntaxError pre-empts a later scanner error) and must agree with the real function exactly, the Coq model must agree with the mirror without them',
    'the regex theorems assume that \\s contains none of ; . ( [ and no identifier start (space_class_ok: proved for the ASCII classes and the per-case tables, checked against CPython)',
    'the cache model is per (statement text, paramstyle) request history of one process; concurrent access is C22',
    'PostgreSQL / MySQL drivers are not installed: the raw_sql()-fragment finding is judged under the documented %-formatting step',
]
RULE = ('statements are generated from segment lists (author\'s intent): text pieces over an adversarial alphabet ($$, %, %%, quotes, brackets, placeholder look-alikes, '
        'non-ASCII), expressions of every accepted form (names, attribute chains with white space, calls, subscripts, nested brackets, string literals containing '
        'brackets and quotes, trailing semicolons) x five paramstyles x adaptation orders (each statement also after its %-doubled / un-doubled twin); plus '
        'unstructured random texts for the scanner; non-trivial = the statement contains at least one $; distinct = distinct (style, statement, history position)')

STYLES = ['qmark', 'format', 'numeric', 'named', 'pyformat']
CSTYLE = {'qmark': 'Qmark', 'format': 'Format', 'numeric': 'Numeric', 'named': 'Named', 'pyformat': 'Pyformat'}
HEADER = ('Require Import PonyV.Base.PyBase PonyV.Model.C06Str PonyV.Model.C06Lex PonyV.Model.C06Params PonyV.Model.C30Scan PonyV.Model.C30Adapt PonyV.Model.C30Regex PonyV.Gen.C30Regex.\n'
          'Open Scope Z_scope.\n')
E_VALUE, E_INDEX, E_TYPE = 1, 2, 3


def run_bools(ctx, exprs, header=HEADER, chunk=900, name='c30cases'):
    chunks = []
    for i in range(0, len(exprs), chunk):
        part = exprs[i:i + chunk]
        chunks.append('Definition cases : list bool := [\n' + ';\n'.join(part) + '].\nEval vm_compute in (failing cases).\n')
    ctx.mkscratch()      # before the worker threads: vlib.Ctx.mkscratch is not thread-safe (each thread would create its own directory)
    outs = vlib.coq_eval_many(ctx, header, chunks, name=name)
    bad = []
    for k, out in enumerate(outs):
        vals = vlib.parse_eval_outputs(out)
        assert len(vals) == 1, out[-500:]
        inner = vals[0].strip().strip('[]').strip()
        if inner:
            for tok in inner.split(';'):
                bad.append(k * chunk + int(tok.strip().replace('%nat', '')))
    return bad


# ------------------------------------------------------------------------------------------------ Python mirror of Model/C30Scan.v, C30Adapt.v
# (same functions, same names, same case analysis; is_w / is_sp ask CPython's re)

_W, _S = re.compile(r'\w'), re.compile(r'\s')
def is_w(c): return _W.match(c) is not None
def is_sp(c): return _S.match(c) is not None
def is_id_start(c): return ('A' <= c <= 'Z') or ('a' <= c <= 'z') or c == '_'

def skip_w(s):
    i = 0
    while i < len(s) and is_w(s[i]): i += 1
    return s[i:]

def skip_sp(s):
    i = 0
    while i < len(s) and is_sp(s[i]): i += 1
    return s[i:]

def str1(q, s):
    i = 0
    while i < len(s):
        c = s[i]
        if c == '\\':
            if i + 1 >= len(s) or s[i + 1] == '\n': return None
            i += 2
        elif c == q: return s[i + 1:]
        else: i += 1
    return None

def str3(q, s):
    i = 0
    while i < len(s):
        c = s[i]
        if c == '\\':
            if i + 1 >= len(s) or s[i + 1] == '\n': return None
            i += 2
        elif s[i:i + 3] == q * 3: return s[i + 3:]
        else: i += 1
    return None

def try_string(q, r):
    if r[:2] == q * 2:
        x = str3(q, r[2:])
        if x is not None: return x
    return str1(q, r)

def scan_br(opn, cls, s):
    depth = 0
    while True:
        if not s: return None
        c, r = s[0], s[1:]
        if c in '()[]':
            if c == opn: depth += 1; s = r
            elif c == cls:
                if depth == 0: return r
                depth -= 1; s = r
            else: s = r
        elif c in '\'"':
            x = try_string(c, r)
            s = x if x is not None else r
        else: s = r

def tails(s):
    while True:
        t = skip_sp(s)
        if not t: return s
        c, r = t[0], t[1:]
        if c == ';': return r
        if c == '.':
            u = skip_sp(r)
            if u and is_id_start(u[0]): s = skip_w(u[1:]); continue
            return s
        if c in '([':
            rest = scan_br(c, ')' if c == '(' else ']', r)
            if rest is None: return None
            s = rest; continue
        return s

def parse_expr_rest(s):
    if not s: return None
    if is_id_start(s[0]): return tails(skip_w(s[1:]))
    if s[0] == '(': return tails(s)
    return None

def m_parse_expr(s):
    rest = parse_expr_rest(s)
    if rest is None: return None
    return s[:len(s) - len(rest)], rest

def scan_items(s, check_compile=False):
    """-> ('ok', [('t', text) | ('e', expr)]) | ('err', cls).
    check_compile=True follows the code in the ORDER of its errors: adapt_sql / parse_raw_sql call compile(expr) as soon as an expression is cut,
    so the SyntaxError of an earlier expression pre-empts a ValueError / IndexError further right (the Coq model has no compile():
    it is compared with check_compile=False)."""
    out = []
    while True:
        i = s.find('$')
        if i < 0:
            out.append(('t', s)); return ('ok', out)
        t, r = s[:i], s[i + 1:]
        if not r: return ('err', E_INDEX)
        if r[0] == '$':
            out += [('t', t), ('t', '$')]; s = r[1:]; continue
        pe = m_parse_expr(r)
        if pe is None: return ('err', E_VALUE)
        e, rest = pe
        if e.endswith(';'): e = e[:-1]
        if check_compile and not compiles(e): return ('err', 'syntax')
        out += [('t', t), ('e', e)]; s = rest

def placeholder(style, n):
    return {'qmark': '?', 'format': '%s', 'numeric': ':%d' % n, 'named': ':p%d' % n, 'pyformat': '%%(p%d)s' % n}[style]

def m_adapt(style, sql, check_compile=False):
    """-> ('ok', text, src) with src = None | ('tuple', [exprs]) | ('dict', [(n, expr)])   or ('err', cls)"""
    rw = sql.replace('%', '%%') if style in ('format', 'pyformat') else sql
    r = scan_items(rw, check_compile)
    if r[0] == 'err': return r
    items = r[1]
    exprs = [x[1] for x in items if x[0] == 'e']
    if not exprs: return ('ok', sql.replace('$$', '$'), None)
    text, n = '', 0
    for k, v in items:
        if k == 't': text += v
        else: n += 1; text += placeholder(style, n)
    res = ('ok', text, ('tuple', exprs)) if style in ('qmark', 'format', 'numeric') else ('ok', text, ('dict', [(i + 1, e) for i, e in enumerate(exprs)]))
    if check_compile and not compiles(render_argsrc(res[2])[1]): return ('err', 'syntax')       # compile(source) of the combined tuple / dict display
    return res

def m_run_history(hist):
    """the cache as /repo has it (bfddd57): looked up and stored under (sql, style) as the caller wrote the statement"""
    cache, out = {}, []
    for sql, style in hist:
        hit = cache.get((sql, style))
        if hit is not None: out.append(hit); continue
        r = m_adapt(style, sql, check_compile=True)                     # compile() raised: nothing is stored
        if r[0] == 'ok': cache[(sql, style)] = r
        out.append(r)
    return out


# ------------------------------------------------------------------------------------------------ the real functions, with sources captured

class Real(object):
    """adapt_sql / parse_raw_sql / parse_expr of /repo; a `compile` injected into the module namespaces records the source of every
    code object (no source edit: module attribute set from the harness)."""
    def __init__(self):
        import builtins
        from pony.orm import core, ormtypes
        from pony.utils import utils
        self.core, self.ormtypes, self.utils = core, ormtypes, utils
        self.sources = {}
        self._keep = []
        def rec_compile(src, *a, **k):
            code = builtins.compile(src, *a, **k)
            self.sources[id(code)] = src; self._keep.append(code)
            return code
        core.compile = rec_compile
        ormtypes.compile = rec_compile
    def clear(self):
        self.core.adapted_sql_cache.clear(); self.ormtypes.raw_sql_cache.clear()
    def adapt(self, sql, style):
        """same shape as m_adapt; SyntaxError -> ('err', 'syntax')"""
        try: text, code = self.core.adapt_sql(sql, style)
        except ValueError: return ('err', E_VALUE)
        except IndexError: return ('err', E_INDEX)
        except SyntaxError: return ('err', 'syntax')
        src = self.sources.get(id(code))
        return ('ok', text, parse_argsrc(src))
    def adapt_eval(self, sql, style, env):
        text, code = self.core.adapt_sql(sql, style)
        return text, eval(code, dict(env), {})
    def parse_expr(self, s):
        try: e, _ = self.utils.parse_expr(s, 0)
        except ValueError: return None
        return e, s[len(e):]
    def parse_raw(self, sql):
        try: items, codes = self.ormtypes.parse_raw_sql(sql)
        except TypeError: return ('err', E_TYPE)
        except ValueError: return ('err', E_VALUE)
        except IndexError: return ('err', E_INDEX)
        except SyntaxError: return ('err', 'syntax')
        return ('ok', [('t', x) if isinstance(x, str) else ('e', x[0]) for x in items])

_real = None
def real():
    global _real
    if _real is None: _real = Real()
    return _real


def parse_argsrc(src):
    """'(e1, e2,)' / "{'p1':e1,'p2':e2}" / 'None' as adapt_sql writes them -> the model's argsrc; uses the scanner mirror to cut the items"""
    if src is None: return ('unknown',)
    if src == 'None': return None
    if src.startswith('(') and src.endswith(',)'): return ('tuple', src)        # compared as text with the model's rendering
    if src.startswith('{') and src.endswith('}'): return ('dict', src)
    return ('unknown', src)

def render_argsrc(a):
    if a is None: return None
    if a[0] == 'tuple': return ('tuple', '(%s,)' % ', '.join(a[1]))
    if a[0] == 'dict': return ('dict', '{%s}' % ','.join('%r:%s' % ('p%d' % n, e) for n, e in a[1]))
    return a

def same_outcome(model, impl):
    """compile-aware mirror outcome (m_adapt(.., check_compile=True) shape) against the real outcome: same error class, or same text and argument source"""
    if model[0] == 'err' or impl[0] == 'err': return tuple(model[:2]) == tuple(impl[:2])
    return model[1] == impl[1] and render_argsrc(model[2]) == impl[2]


# ------------------------------------------------------------------------------------------------ generators

ENV_SRC = '''
import types
x = 1; y = [10, 20, 30]; s = 'str'; n_ = 5; Z9 = 'z9'
class O(object): pass
obj = O(); obj.a = O(); obj.a.b = 5; obj.f = lambda *a: len(a); obj.name = "o'n"
d = {'k': 7, '%': 8, 'a)b': 9, "q'": 10, ']': 11, '%%': 12, '$': 13}
def f(v=0, *rest): return (v + 1) if isinstance(v, int) else len(v)
'''
def make_env():
    env = {}
    exec(ENV_SRC, env)
    return env

# (expression text, may be followed directly by a word character / trailer?)  -- all evaluate in ENV
EXPRS = ['x', 'n_', 'Z9', 'obj.a.b', 'obj . a . b', 'obj.a .b', 'y[1]', 'y [1]', 'y[x]', 'y[x+1]', 'f(2)', 'f (2)', 'f()', "d['k']", "d['a)b']",
         'd["q\'"]', "d[']']", "obj.f(1, (2, 3), ')')", '(x + 1)', '(x, s)[1]', 'f((1, 2)[0])', "f(''' ) ''')", 'f(""" ]( """)', "f('\\'', 2)", 'f("a\\")", 2)',
         'obj.name', 'f(y[0]).real', 'y[ -1 ]', "d['$']", '(lambda: 3)()', "f('é')", 's.upper().lower()']
EXPRS_PERCENT = ['(x % 2)', "d['%']", "d['%%']", '(7 % 4)', "('%d' % x)"]
SEMIS = [None, '', ' ', '\t ']
TEXTS = ['select ', ', ', ' = ', ' and a=', ')', ' from t where b in (', "'lit', ", ' + ', ' % ', ' %% ', " like 'a%' and c=", ' $$ ', '$$', ' é√ ', " '?' ", ' :1 ', ' %s ', ' %(p1)s ',
         ' -- c\n ', ',', ' | ', ' <> ', '', ' * 2 > ', "'x''y' || "]
TAILS = ['', ' ', ')', ' order by 1', ' $$', " and z like '%x'", ' %']

def gen_segments(rng, with_percent_exprs):
    """-> list of ('t', text) | ('d',) | ('e', expr, semi)"""
    n = rng.randint(0, 4)
    segs = [('t', rng.choice(TEXTS))]
    pool = EXPRS + (EXPRS_PERCENT if with_percent_exprs else [])
    for _ in range(n):
        e = rng.choice(pool)
        semi = rng.choice(SEMIS) if rng.random() < 0.35 else None
        segs.append(('e', e, semi))
        t = rng.choice(TEXTS)
        if semi is None:
            while t == '' or continues(t): t = rng.choice(TEXTS)
        segs.append(('t', t))
    segs.append(('t', rng.choice(TAILS)))
    out = []
    for sg in segs:                      # '$$' inside a text piece becomes its own segment
        if sg[0] == 't' and '$$' in sg[1]:
            parts = sg[1].split('$$')
            for i, p in enumerate(parts):
                if i: out.append(('d',))
                out.append(('t', p))
        else: out.append(sg)
    return out

def continues(t):
    """would this text continue an expression that ends right before it?"""
    if is_w(t[0]): return True
    u = skip_sp(t)
    return bool(u) and (u[0] in ';([' or (u[0] == '.' and bool(skip_sp(u[1:])) and is_id_start(skip_sp(u[1:])[0])))

def render(segs):
    out = ''
    for sg in segs:
        if sg[0] == 't': out += sg[1]
        elif sg[0] == 'd': out += '$$'
        else: out += '$' + sg[1] + ('' if sg[2] is None else sg[2] + ';')
    return out

def expected(style, segs, env):
    """what the property promises: text with placeholders, values of the expressions in the caller's scope, in order"""
    exprs = [sg for sg in segs if sg[0] == 'e']
    fmt = style in ('format', 'pyformat') and bool(exprs)
    text, n, vals = '', 0, []
    for sg in segs:
        if sg[0] == 't': text += sg[1].replace('%', '%%') if fmt else sg[1]
        elif sg[0] == 'd': text += '$'
        else:
            n += 1; text += placeholder(style, n)
            vals.append(eval(sg[1] + (sg[2] or ''), dict(env), {}))
    if not exprs: args = None
    elif style in ('qmark', 'format', 'numeric'): args = tuple(vals)
    else: args = {'p%d' % (i + 1): v for i, v in enumerate(vals)}
    return text, args

def rand_text(rng, n):
    alpha = ['$', '$', '$$', 'x', 'ab', '_', '9', '.', ' ', '(', ')', '[', ']', "'", '"', "'''", '\\', ';', '%', ',', '\n', 'é', ' ', '√', 'f', '.y', ' .z', '1']
    return ''.join(rng.choice(alpha) for _ in range(n))


# ------------------------------------------------------------------------------------------------ Coq serialisation

def nonascii_tables(s):
    ws = sorted({ord(c) for c in s if ord(c) > 127 and is_w(c)})
    sp = sorted({ord(c) for c in s if ord(c) > 127 and is_sp(c)})
    return '(tab_w %s)' % clist(ws, lambda n: '%d' % n) if ws else 'ascii_w', '(tab_sp %s)' % clist(sp, lambda n: '%d' % n) if sp else 'ascii_sp'

def c_argsrc(a):
    if a is None: return 'SrcNone'
    if a[0] == 'tuple': return '(SrcTuple %s)' % clist(a[1], cstr)
    return '(SrcDict %s)' % clist(a[1], lambda kv: '(%s, %s)' % (cz(kv[0]), cstr(kv[1])))

def c_outcome(r):
    if r[0] == 'err': return '(Err %d%%nat)' % r[1]
    return '(Ok (%s, %s))' % (cstr(r[1]), c_argsrc(r[2]))

def c_items(r):
    if r[0] == 'err': return '(Err %d%%nat)' % r[1]
    return '(Ok %s)' % clist(r[1], lambda kv: '(%s %s)' % ('IText' if kv[0] == 't' else 'IExpr', cstr(kv[1])))


# ------------------------------------------------------------------------------------------------ correspondence

def correspondence(ctx):
    R = real()
    rng = ctx.rng
    exprs, meta, disagreements, samples = [], [], [], []
    nontrivial, dist = set(), {}
    def add(kind, expr, inp, impl, nt=False):
        exprs.append(expr); meta.append((kind, inp, impl)); dist[kind] = dist.get(kind, 0) + 1
        if nt: nontrivial.add(json.dumps([kind, inp], sort_keys=True, default=str))
    def disagree(what, inp, impl=None, model=None):
        disagreements.append({'what': what, 'input': inp, 'impl': impl, 'model': model})

    # (0) ASCII character classes of the model = CPython's \w, \s
    add('ascii_classes', 'list_eqb Bool.eqb (map ascii_w (map Z.of_nat (seq 0 128))) %s' % clist([is_w(chr(c)) for c in range(128)], vlib.cbool), 'ascii \\w', None)
    add('ascii_classes', 'list_eqb Bool.eqb (map ascii_sp (map Z.of_nat (seq 0 128))) %s' % clist([is_sp(chr(c)) for c in range(128)], vlib.cbool), 'ascii \\s', None)

    # statements: structured (from segments, incl. % inside expressions) and unstructured
    stmts = []
    for _ in range(ctx.scale(90, 1500)): stmts.append(render(gen_segments(rng, True)))
    for _ in range(ctx.scale(90, 1500)): stmts.append(rand_text(rng, rng.randint(1, 14)))
    stmts += ['', '$', 'a$', '$$', '$$$', '$$$$', '$x', '$x;', '$x ;', '$x ; ;', '$x.', '$x .y', '$x. y', '$x . 1', '$(', '$(x', '$x(', '$x[1)]', "$f(')')", "$f(''')''')", "$f('''", '$1', '$ x',
              '$é', '$xé', '$x .y', '$x %', '% $x', 'a % b', 'a %% b', '$x$y', '$x$$y', '$$x', '$x (1)', '$x\n(1)', "$d['\\\n']", '$x;;', "$f('a' 'b')", '$f((()))', '$f([)]', '$f([(])', ' $x[%%(]x .z$. .z%', '$(1 2)$', '$x[ $', '$(a b);$ y']
    seen = set(); stmts = [s for s in stmts if not (s in seen or seen.add(s))]

    # (1) adapt_sql, cold cache: real vs mirror vs Coq
    for sql in stmts:
        w, sp = nonascii_tables(sql)
        for style in STYLES:
            R.clear()
            impl = R.adapt(sql, style)
            if not same_outcome(m_adapt(style, sql, check_compile=True), impl):
                disagree('adapt_sql: model (mirror) and implementation differ', [style, sql], repr(impl), repr(m_adapt(style, sql, check_compile=True))); continue
            model = m_adapt(style, sql)              # the Coq model has no compile(): compared with the mirror without the compile checks
            add('adapt', 'res_eqb adapted_eqb (adapt %s %s %s %s) %s' % (w, sp, CSTYLE[style], cstr(sql), c_outcome(model)), [style, sql], repr(impl), '$' in sql)
        if len(samples) < 3 and sql.count('$') >= 2: samples.append({'sql': sql, 'pyformat': repr(m_adapt('pyformat', sql))})

    # (2) parse_expr on expression-like texts
    pe_inputs = [e + t for e in EXPRS + EXPRS_PERCENT for t in ('', ' ', ',', ' ;x', '.z', ' . z', '(1)', ' [0]', ' (', 'w')] + [rand_text(rng, rng.randint(1, 10)).lstrip('$') for _ in range(ctx.scale(80, 1500))]
    for s in pe_inputs:
        impl, model = R.parse_expr(s), m_parse_expr(s)
        if impl != model: disagree('parse_expr: model (mirror) and implementation differ', s, repr(impl), repr(model)); continue
        w, sp = nonascii_tables(s)
        coq = 'None' if model is None else '(Some (%s, %s))' % (cstr(model[0]), cstr(model[1]))
        add('parse_expr', 'opt_eqb (pair_eqb str_eqb str_eqb) (parse_expr %s %s %s) %s' % (w, sp, cstr(s), coq), s, repr(impl), model is not None)

    # (2b) the regex semantics model (Model/C30Regex.v) with the translated patterns (Gen/C30Regex.v) against CPython's re
    if any(is_sp(c) for c in ';.(['): disagree('CPython \\s contains one of ; . ( [', None)
    if any(is_sp(chr(c)) and is_id_start(chr(c)) for c in range(0x3100)): disagree('CPython \\s contains an identifier start', None)
    rx_inputs = pe_inputs[::ctx.scale(3, 1)] + [' ' + x for x in pe_inputs[::ctx.scale(7, 2)]] + ['', ' ', ';', ' ;', '.x', ' . x9(', '. 1', '(', ' [', 'a', "'a'", "'''a'b'''c", '"\\""', "'\\\n'", 'x)',
                                                                      '"' * 3, "''''", "a'b'(", '\\', "'\\"]
    for t in rx_inputs:
        w, sp = nonascii_tables(t)
        m1 = R.utils.expr1_re.match(t)
        c1 = 'None' if m1 is None else '(Some (%d%%nat, %s))' % (m1.lastindex, cstr(t[m1.end():]))
        add('regex_expr1_match', 'opt_eqb (pair_eqb Nat.eqb str_eqb) (re_match %s %s expr1_re %s) %s' % (w, sp, cstr(t), c1), t, repr(m1), m1 is not None)
        m2 = R.utils.expr2_re.match(t)
        c2 = 'None' if m2 is None else '(Some (%d%%nat, %s))' % (m2.lastindex, cstr(t[m2.end():]))
        add('regex_expr2_match', 'opt_eqb (pair_eqb Nat.eqb str_eqb) (re_match %s %s expr2_re %s) %s' % (w, sp, cstr(t), c2), t, repr(m2), m2 is not None)
        m3 = R.utils.expr3_re.search(t)
        c3 = 'None' if m3 is None else '(Some (%s, %s))' % (cstr(t[m3.start():]), cstr(t[m3.end():]))
        add('regex_expr3_search', 'opt_eqb (pair_eqb str_eqb str_eqb) (re_search %s %s expr3_re %s) %s' % (w, sp, cstr(t), c3), t, repr(m3), m3 is not None)

    # (3) parse_raw_sql
    for sql in stmts[::2]:
        R.clear()
        impl = R.parse_raw(sql)
        rc = scan_items(sql, check_compile=True) if sql else ('err', E_TYPE)
        if impl != rc: disagree('parse_raw_sql: model (mirror) and implementation differ', sql, repr(impl), repr(rc)); continue
        r = scan_items(sql) if sql else ('err', E_TYPE)
        w, sp = nonascii_tables(sql)
        add('parse_raw', 'res_eqb (list_eqb item_eqb) (parse_raw %s %s %s) %s' % (w, sp, cstr(sql), c_items(r)), sql, repr(impl), '$' in sql)

    # (4) histories against one cache: every statement together with its %-doubled / un-doubled twins, in random orders
    nh = ctx.scale(40, 600)
    base = [s for s in stmts if s and '\x00' not in s and len(s) < 60]
    for _ in range(nh):
        style = rng.choice(STYLES)
        picks = [rng.choice(base) for _ in range(rng.randint(1, 3))]
        fam = []
        for s in picks: fam += [s, s.replace('%', '%%'), s.replace('%%', '%')]
        hist = [(rng.choice(fam), style if rng.random() < 0.8 else rng.choice(STYLES)) for _ in range(rng.randint(2, 6))]
        R.clear()
        impl = [R.adapt(s, st) for s, st in hist]
        model = m_run_history(hist)
        if not all(same_outcome(m, i) for m, i in zip(model, impl)):
            disagree('adapt_sql with a warm cache: model (mirror) and implementation differ', hist, repr(impl), repr(model)); continue
        if any(m[0] == 'err' and m[1] == 'syntax' for m in model): continue      # compile() is outside the Coq model
        w, sp = nonascii_tables(''.join(s for s, _ in hist))
        h = clist(hist, lambda p: '(%s, %s)' % (cstr(p[0]), CSTYLE[p[1]]))
        fresh = [m_adapt(st, s) for s, st in hist]
        hits = len(hist) - len(set(hist))
        if model != fresh: disagree('cache is not transparent on this history (mirror of the cache model)', hist, repr(impl), repr(fresh)); continue
        add('history', 'list_eqb (res_eqb adapted_eqb) (run_history %s %s [] %s) %s' % (w, sp, h, clist(model, c_outcome)), hist, repr(impl), hits > 0)
        if hits and len(samples) < 5: samples.append({'history': hist, 'answers': repr(impl)})

    bad = run_bools(ctx, exprs)
    for i in bad[:20]:
        kind, inp, impl = meta[i]
        disagreements.append({'what': 'Coq model and implementation differ (%s)' % kind, 'input': inp, 'impl': impl, 'coq_case': exprs[i][:1500]})
    samples.append({'coq_case': exprs[2][:400]})
    return Corr(cases=len(exprs), nontrivial=len(nontrivial), disagreements=disagreements, samples=samples, distribution=dist,
                note='every case is a boolean computed by vm_compute inside Coq from the model and the serialised outcome of the real function; '
                     'history cases run the model of the cache against the real process-wide cache')


def compiles(e):
    try: compile(e, '<?>', 'eval'); return True
    except SyntaxError: return False

def all_compile(m):
    es = m[2][1] if m[2][0] == 'tuple' else [e for _, e in m[2][1]]
    return all(compiles(e) for e in es) and compiles(render_argsrc(m[2])[1])


# ------------------------------------------------------------------------------------------------ search: the property against the implementation

def classify(style, segs, cold_ok):
    """finding key of a failing statement"""
    fmt = style in ('format', 'pyformat')
    if not cold_ok:
        if fmt and any(sg[0] == 'e' and '%' in (sg[1] + (sg[2] or '')) for sg in segs): return 'percent-inside-expression-doubled-format-styles'
        kinds = sorted({k for sg in segs if sg[0] == 'e' for k in expr_kind(sg[1])})
        return 'unlisted:adapt:%s:%s' % (style, '+'.join(kinds) or 'no-expr')
    return 'unlisted:cache:%s:answer-of-another-statement' % style

def expr_kind(e):
    out = set()
    if '.' in e: out.add('attr')
    if '(' in e: out.add('call')
    if '[' in e: out.add('subscript')
    if "'" in e or '"' in e: out.add('string')
    if any(ord(c) > 127 for c in e): out.add('nonascii')
    return out or {'name'}


def check_statement(style, segs, env, warm_with=None):
    """-> None or (got, want): adapt_sql + eval against what the property promises. warm_with: statements adapted before, same process cache."""
    R = real()
    R.clear()
    for s in warm_with or []:
        s, st = (s, style) if isinstance(s, str) else (s[0], s[1])
        try: R.core.adapt_sql(s, st)
        except Exception: pass
    sql = render(segs)
    want = expected(style, segs, env)
    try: got = R.adapt_eval(sql, style, env)
    except Exception as e: got = 'EXC %s: %s' % (type(e).__name__, str(e)[:120])
    return None if got == want else (got, want)


def search(ctx, deep):
    rng = ctx.rng
    env = make_env()
    failures, evals, nontriv, dist = [], 0, set(), {}
    seen = set()
    def count(k, n=1): dist[k] = dist.get(k, 0) + n
    def fail(f):
        if f.key not in seen: seen.add(f.key); failures.append(f)

    nst = 150 if not deep else 1500
    cases = [gen_segments(rng, True) for _ in range(nst)]
    # fixed probes: every expression form once, alone and with the stock texts
    for e in EXPRS + EXPRS_PERCENT:
        for semi in (None, ' '):
            cases.append([('t', 'select '), ('e', e, semi), ('t', ', '), ('e', 'x', None), ('t', " where a % 2 = 1 and b like 'q%'")])
    cases += [[('t', 'a % b')], [('t', 'a %% b')], [('t', 'x like '), ('d',), ('t', " || '%'")]]
    for segs in cases:
        sql = render(segs)
        for style in STYLES:
            # cold cache, then after the %-doubled and the un-doubled twin (the orders that matter for the cache key)
            cold = check_statement(style, segs, env)
            evals += 1; count('adapt_cold')
            if cold is not None:
                got, want = cold
                fail(Failure(classify(style, segs, False), 'adapt_sql(%r, %r) gives %r; the statement promises %r' % (sql, style, got, want),
                             {'kind': 'adapt', 'style': style, 'segs': segs, 'warm': []}))
                continue
            if '$' in sql: nontriv.add((style, sql, 'cold'))
            for twin in {sql.replace('%%', '%'), sql.replace('%', '%%')} - {sql}:
                warm = check_statement(style, segs, env, warm_with=[twin])
                evals += 1; count('adapt_after_twin')
                if warm is not None:
                    got, want = warm
                    fail(Failure(classify(style, segs, True), 'after adapt_sql(%r, %r): adapt_sql(%r, %r) gives %r; the statement promises %r' % (twin, style, sql, style, got, want),
                                 {'kind': 'adapt', 'style': style, 'segs': segs, 'warm': [twin]}))
                else: nontriv.add((style, sql, twin))
            # the same statement adapted for another paramstyle first
            other = STYLES[(STYLES.index(style) + 1 + len(sql)) % len(STYLES)]
            if other != style:
                warm = check_statement(style, segs, env, warm_with=[(sql, other)])
                evals += 1; count('adapt_after_other_style')
                if warm is not None:
                    got, want = warm
                    fail(Failure('unlisted:cache:cross-style:%s-after-%s' % (style, other), 'after adapt_sql(%r, %r): adapt_sql(%r, %r) gives %r; the statement promises %r' % (sql, other, sql, style, got, want),
                                 {'kind': 'adapt', 'style': style, 'segs': segs, 'warm': [[sql, other]]}))

    # end to end on SQLite: what reaches the driver, under every paramstyle (C06's driver shim), through every public entry point
    for f in e2e(ctx, deep, env, count):
        evals += 1
        if isinstance(f, Failure): fail(f)
        else: nontriv.add(f)
    # one query code object with a raw_sql() fragment, re-run with $parameters of changing Python types: what is bound must be
    # what a cold-cache run binds (the converters are chosen per parameter type and live in the cached translator)
    for style in (STYLES if deep else ['qmark', 'pyformat']):
        for src in RAW_QUERIES:
            hist = type_history(rng, 10 if not deep else 40)
            evals += len(hist); count('raw_sql_type_history', len(hist))
            f = raw_types_case(style, src, hist)
            if f: fail(f)
            else: nontriv.add(('raw_types', style, src))
    # raw_sql() fragments on format-style providers: documented %-step of the driver
    for frag in ("p.name like 'a%'", "p.n % 2 = $x", 'p.n = $x', "p.name = '%s'"):
        for prov in ('postgres', 'mysql'):
            evals += 1; count('raw_sql_fragment_doc_model')
            f = raw_fragment_case(prov, frag)
            if f: fail(f)
            else: nontriv.add(('raw_fragment', prov, frag))
    return Search(evaluations=evals, failures=failures, nontrivial=len(nontriv), distribution=dist, exhaustive=False,
                  samples=[{'statement': render(cases[0]), 'style': 'pyformat', 'expected': repr(expected('pyformat', cases[0], env))}])


def e2e(ctx, deep, env, count):
    """yields Failure or a hashable description of a passing non-trivial case"""
    from pony import orm
    from props import c06
    rng = ctx.rng
    for style in STYLES:
        db, P, log = c06.make_e2e(style)
        real().clear()
        with orm.db_session:
            if not orm.select(p for p in P if p.n == 1000).exists():
                P(name='row1', n=1000); P(name="o'n", n=1001); orm.commit()
        picks = EXPRS[:] + (EXPRS_PERCENT if style not in ('format', 'pyformat') else [])
        k = 14 if not deep else 60
        for _ in range(k):
            es = [rng.choice(picks) for _ in range(rng.randint(1, 3))]
            es = [e for e in es if isinstance(eval(e, dict(env), {}), (int, str))] or ['x']
            want = [eval(e, dict(env), {}) for e in es]
            sql = 'select ' + ', '.join('$' + e for e in es) + " where 1 = 7 % 2 and 'a%' <> '$$'"
            for entry in ('select', 'execute', 'get', 'exists'):
                count('e2e_' + entry)
                g = dict(env)
                try:
                    with orm.db_session:
                        del log[:]
                        if entry == 'select': rows = db.select(sql, g, {})
                        elif entry == 'execute': rows = db.execute(sql, g, {}).fetchall()
                        elif entry == 'get': rows = [db.get(sql, g, {})]
                        else: rows = [tuple(want)] if db.exists(sql, g, {}) else []
                    got = [tuple(r) if isinstance(r, tuple) else (r,) for r in rows]
                    call = log[-1] if log else None
                except Exception as e:
                    got, call = 'EXC %s: %s' % (type(e).__name__, str(e)[:150]), None
                ok = got == [tuple(want)]
                if ok and call is not None:       # the call handed to the driver: one placeholder per expression, values in order
                    vals = list(call[1].values()) if isinstance(call[1], dict) else list(call[1] or ())
                    ok = vals == want and call[0].count('$') == 1
                if not ok:
                    yield Failure('unlisted:e2e:%s:%s:%s' % (style, entry, '+'.join(sorted({k2 for e in es for k2 in expr_kind(e)}))),
                                  'SQLite, paramstyle %s, db.%s(%r): rows %r, driver call %r; expected the row %r' % (style, entry, sql, got, call, tuple(want)),
                                  {'kind': 'e2e', 'style': style, 'entry': entry, 'exprs': es})
                else: yield (style, entry, tuple(es))
        # select_by_sql / get_by_sql and raw_sql() inside a query
        for v, name in ((1000, 'row1'), (1001, "o'n")):
            g = dict(env, v=v, nm=name, P=P, raw_sql=orm.raw_sql)
            for entry in ('select_by_sql', 'get_by_sql', 'raw_sql_filter', 'raw_sql_expr'):
                count('e2e_' + entry)
                try:
                    with orm.db_session:
                        del log[:]
                        if entry == 'select_by_sql': got = [p.name for p in P.select_by_sql('select * from "P" where n = $v and name = $nm and 1 = 7 % 2', g, {})]
                        elif entry == 'get_by_sql': got = [P.get_by_sql('select * from "P" where n = $(v) ; ', g, {}).name]
                        elif entry == 'raw_sql_filter': got = [p.name for p in orm.select('p for p in P if raw_sql("p.n = $v and p.name = $nm")', g)]
                        else: got = orm.select('raw_sql("p.n + $(y[1])") for p in P if p.n == v', g)[:]; got = [name] if got == [v + 20] else got
                except Exception as e:
                    got = 'EXC %s: %s' % (type(e).__name__, str(e)[:150])
                if got != [name]:
                    yield Failure('unlisted:e2e:%s:%s' % (style, entry), 'SQLite, paramstyle %s, %s with v=%r nm=%r: got %r (driver call %r)' % (style, entry, v, name, got, log[-1] if log else None),
                                  {'kind': 'e2e2', 'style': style, 'entry': entry})
                else: yield (style, entry, v)


RAW_QUERIES = ['p.id for p in P if raw_sql("p.name < $when")', 'p.id for p in P if raw_sql("abs(p.n) > $lim")',
               'p.id for p in P if raw_sql("p.name < $when or p.n > $(lim)") and p.n != lim2',
               'raw_sql("coalesce($lim, p.n)") for p in P if p.n > 0']

def enc(v):
    import datetime, decimal
    if v is None: return ['none']
    if isinstance(v, datetime.datetime): return ['datetime', v.isoformat()]
    if isinstance(v, datetime.date): return ['date', v.isoformat()]
    if isinstance(v, decimal.Decimal): return ['decimal', str(v)]
    return [type(v).__name__, v]

def dec(e):
    import datetime, decimal
    k = e[0]
    if k == 'none': return None
    if k == 'datetime': return datetime.datetime.fromisoformat(e[1])
    if k == 'date': return datetime.date.fromisoformat(e[1])
    if k == 'decimal': return decimal.Decimal(e[1])
    return {'int': int, 'float': float, 'str': str, 'bool': bool}[k](e[1])

def type_history(rng, n):
    """(when, lim, lim2) triples; consecutive steps change the Python type of at least one value; fixed prefix = the known bad orders"""
    import datetime, decimal
    whens = [datetime.date(2024, 1, 2), datetime.datetime(2024, 1, 2, 18, 0), '2024-01-02 12', None, datetime.date(2023, 12, 31), datetime.datetime(2024, 1, 3, 0, 0, 1)]
    lims = [decimal.Decimal('5'), 5, 5.5, '5', None, 2, decimal.Decimal('2.5'), 7.0]
    hist = [(whens[0], lims[0], 1), (whens[1], lims[1], 1), (whens[1], lims[2], 2), (whens[0], lims[3], 2), (whens[3], lims[4], 3), (whens[2], lims[0], 3)]
    while len(hist) < n: hist.append((rng.choice(whens), rng.choice(lims), rng.randint(1, 3)))
    return hist

def raw_types_case(style, src, hist):
    """warm database 'rt' keeps its caches over the history; twin 'rt-ref' is cleared before every run; first differing step -> Failure"""
    from pony import orm
    from props import c06
    pair = []
    for tag in ('rt', 'rt-ref'):
        db, P, log = c06.make_e2e(style, tag)
        with orm.db_session:
            if not db.get_connection().execute('SELECT count(*) FROM "P"').fetchone()[0]:
                for nm, n in (('2024-01-02 10:00:00', 3), ('2024-01-02 20:00:00', -7), ('2023-12-31 23:00:00', 12), ('x', 40), ('', 5)): P(name=nm, n=n)
                orm.commit()
        pair.append((db, P, log))
    (db, P, log), (rdb, RP, rlog) = pair
    db._translator_cache.clear(); db._constructed_sql_cache.clear()
    def once(d, E, lg, when, lim, lim2):
        with orm.db_session:
            del lg[:]
            try: rows = sorted(map(repr, orm.select(src, {'P': E, 'when': when, 'lim': lim, 'lim2': lim2, 'raw_sql': orm.raw_sql}).without_distinct()[:]))
            except Exception as e: rows = 'EXC %s: %s' % (type(e).__name__, str(e)[:150])
            return rows, (lg[-1] if lg else None)
    prev = None
    for i, (when, lim, lim2) in enumerate(hist):
        warm = once(db, P, log, when, lim, lim2)
        rdb._translator_cache.clear(); rdb._constructed_sql_cache.clear()
        ref = once(rdb, RP, rlog, when, lim, lim2)
        if warm != ref:
            ty = lambda t: '%s/%s' % (type(t[0]).__name__, type(t[1]).__name__)
            return Failure('unlisted:raw-sql-types:%s:%s-after-%s' % (style, ty(hist[i]), ty(prev) if prev else 'nothing'),
                           'SQLite, paramstyle %s: %r run %d times with $parameters of changing types; run %d with when=%r lim=%r binds %r and returns %s; '
                           'a cold-cache run binds %r and returns %s' % (style, src, i + 1, i + 1, when, lim, warm[1], str(warm[0])[:100], ref[1], str(ref[0])[:100]),
                           {'kind': 'raw_types', 'style': style, 'src': src, 'hist': [[enc(a), enc(b), c] for a, b, c in hist[:i + 1]]})
        prev = hist[i]
    return None


def raw_fragment_case(prov, frag):
    """raw_sql(frag) inside a query on a format-style provider (mock): the statement and the argument object Pony hands to the driver,
    then the driver's documented %-step"""
    from pony import orm
    from props import c06
    db, P = c06.mock_db(prov)
    real().clear()
    g = {'P': P, 'x': 1, 'raw_sql': orm.raw_sql}
    with orm.db_session:
        orm.select('p for p in P if raw_sql(%r)' % frag, g)[:]
    sql, args = db.sql, db.arguments
    try:
        sent = sql % (tuple('<%d>' % i for i in range(len(args))) if isinstance(args, tuple) else {k: '<%s>' % k for k in args})
        ok = frag_expected(frag) in sent
    except Exception as e:
        sent, ok = 'EXC %s: %s' % (type(e).__name__, e), False
    if ok: return None
    key = 'raw-sql-fragment-percent-not-doubled-documentation-model' if '%' in frag else 'unlisted:raw-fragment:%s' % prov
    return Failure(key, '%s (paramstyle %s; driver %%-formatting, documentation model, not executed): raw_sql(%r) puts the fragment into the statement as is: %r with arguments %r '
                   '-> after the driver\'s %%-step: %s' % (prov, db.provider.paramstyle, frag, sql, args, sent), {'kind': 'raw_fragment', 'provider': prov, 'frag': frag})

def frag_expected(frag):
    """the part of the fragment in front of its first $expression, as the server should see it"""
    return frag.split('$x')[0]


def replay(ctx, data):
    kind = data.get('kind')
    env = make_env()
    if kind == 'adapt':
        segs = [tuple(s) for s in data['segs']]
        r = check_statement(data['style'], segs, env, warm_with=data.get('warm') or None)
        if r is None: return None
        cold_ok = bool(data.get('warm')) and check_statement(data['style'], segs, env) is None
        got, want = r
        return Failure(classify(data['style'], segs, cold_ok), '%sadapt_sql(%r, %r) gives %r; the statement promises %r' % (
            'after adapt_sql(%r): ' % (data['warm'][0],) if data.get('warm') else '', render(segs), data['style'], got, want), data)
    if kind == 'raw_fragment': return raw_fragment_case(data['provider'], data['frag'])
    if kind == 'raw_types': return raw_types_case(data['style'], data['src'], [(dec(a), dec(b), c) for a, b, c in data['hist']])
    if kind in ('e2e', 'e2e2'):
        for f in e2e(ctx, False, env, lambda *a: None):
            if isinstance(f, Failure) and f.data.get('style') == data.get('style') and f.data.get('entry') == data.get('entry'): return f
        return None
    raise ValueError('unknown replay payload %r' % (data,))


LEVEL_TEXT = ('Machine-checked proof (Coq 8.16.1) over an executable model of adapt_sql / parse_expr / parse_raw_sql: for every paramstyle and every well-formed '
              'segment list the adapted text is the text pieces in order with one numbered placeholder per $expression and the arguments are the expressions in '
              'order; $$ becomes $; text is %-doubled exactly so that the driver\'s %-step restores it; every placeholder is bound to the value of its own '
              'expression; the cache is transparent for every history of requests (unconditional, after the repair bfddd57 of the cache key); the identity of a '
              'raw_sql() fragment in cache keys (RawSQLType.__eq__/__hash__, scanned from source) determines text and parameter types. The scanner model of '
              'parse_expr is PROVED equal to the Python algorithm run over its three regular expressions, which are translated from CPython\'s parse trees of the '
              'source patterns on every run, under a backtracking regex semantics that is itself compared with CPython\'s re. Two defects are refuted by witnesses '
              '(% inside an expression is doubled under format/pyformat; raw_sql() fragments are not %-doubled). The adapt_sql model is tied to /repo by '
              'correspondence on generated statements x 5 styles x adaptation orders and by an end-to-end search on SQLite through every public entry point, '
              'including histories that re-run one query with raw_sql $parameters of changing Python types.')
LEVEL_NOTE = ('Trusted: Coq kernel + vm_compute; the hand-written model of the adapt_sql loop and its Python mirror (compared with the real code on every run); the regex '
              'semantics model (compared with CPython re on every run) and the regex translator; CPython\'s \\w/\\s classes (the theorems need only that \\s contains '
              'none of ; . ( [ and no identifier start); eval of the combined argument source; PEP 249 / %-formatting models from C06. Partial: wf_segs still '
              'asks that the scanner cuts each expression where the author intended; three syntactic classes are characterised (C30_cut_name, _name_semi, _call).')
TECHNIQUE = ('Coq proof by induction over segment lists and request histories on a hand-written executable model; vm_compute correspondence (model = mirror = real '
             'function, sources captured via an injected compile); differential end-to-end search with cold and warm caches under five paramstyles')
DESIGN_REF = 'DESIGN.md section 5, C30'
