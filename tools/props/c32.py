"""C32 - Objects from a finished session are read-only snapshots."""
import json, os
import vlib
from vlib import Corr, Search, Failure
from py2coq import guards
import c32_driver as drv

ID = 'C32'
LEVEL = 'proof'
PROPS = ['Props/C32.v', 'Findings/C32.v']
GEN = [('Gen/Guards.v', guards.generate)]
TRUSTED = [
    'guard scanner tools/py2coq/guards.py (Python ast over pony/orm/core.py and ormtypes.tracked_method): extracts for each of 37 '
    'operations the prefix paths up to the first liveness guard / database access / return; fail-closed on unclassified calls, '
    'unrecognised liveness tests and unlisted public methods of SetInstance/Entity; its table is cross-checked on every run: every '
    'observed outcome of the exhaustive product must be an outcome the model allows for some path of the operation',
    'hand model Model/C32Guard.v (semantics of a path in a dead session) and Model/C32Close.v (SessionCache.close, strict / non-strict / '
    'never connected), the latter compared with the real pre/post object states of every scenario by vm_compute',
    'the scanner treats writes to obj._rbits_ (read tracking bits) and the insertion of an empty not-loaded SetData as not observable',
    'implementation driver tools/c32_driver.py (SQLite in memory; SessionCache.close is wrapped in the driver process to record pre-states)',
]
ASSUMPTIONS = [
    'an object deleted in its session may refuse with OperationWithDeletedObjectError instead of DatabaseSessionIsOver',
    'obj.flush() of an object without unsaved changes is a no-op and needs no database',
    'after a strict session reads may be refused (the statement says "unless strict"); a session that never connected detaches nothing',
    'SetInstance.select/filter/order_by/... build a new query in the current session with the object as a parameter: outside the statement',
    'only SQLite is executed; the guards are backend independent code',
]
RULE = ('exhaustive product: 39 operations x 12 object statuses at session end (loaded / collections loaded / partially loaded / created / '
        'created without any database access / inserted / modified / modified with an in-place Json change / updated / marked_to_delete / deleted / cancelled) x 4 endings (commit, '
        'rollback, exception in the body, failing commit) x strict x {outside any session, inside a new session}; non-trivial = the scenario '
        'could be built and the object was reached (all are); distinct = distinct (op, status, ending, strict, ctx)')
EXPLANATION = None

ENTRY = {   # driver op -> sequence of table operations it goes through
    'attr_get_loaded': ['Attribute.__get__'], 'attr_get_ref': ['Attribute.__get__'], 'attr_get_lazy_unloaded': ['Attribute.__get__'],
    'attr_get_pk': ['Attribute.__get__'],
    'attr_set': ['Attribute.__set__'], 'attr_set_same': ['Attribute.__set__'], 'attr_set_ref': ['Attribute.__set__'],
    'attr_set_unique': ['Attribute.__set__'],
    'json_item_set': ['Attribute.__get__', 'tracked_method.new_func'],
    'set_assign': ['Set.__set__'],
    'set_add': ['Set.__get__', 'SetInstance.add'], 'set_remove': ['Set.__get__', 'SetInstance.remove'],
    'set_clear': ['Set.__get__', 'SetInstance.clear'], 'set_create': ['Set.__get__', 'SetInstance.create'],
    'set_iadd': ['Set.__get__', 'SetInstance.__iadd__', 'Set.__set__'], 'set_isub': ['Set.__get__', 'SetInstance.__isub__', 'Set.__set__'],
    'm2m_add': ['Set.__get__', 'SetInstance.add'], 'm2m_remove': ['Set.__get__', 'SetInstance.remove'],
    'm2m_clear': ['Set.__get__', 'SetInstance.clear'],
    'set_is_empty': ['Set.__get__', 'SetInstance.is_empty'], 'set_count': ['Set.__get__', 'SetInstance.count'],
    'set_len': ['Set.__get__', 'SetInstance.__len__'], 'set_bool': ['Set.__get__', 'SetInstance.__nonzero__'],
    'set_contains': ['Set.__get__', 'SetInstance.__contains__'],
    'set_iter': ['Set.__get__', 'SetInstance.__iter__', 'SetIterator.next'], 'set_copy': ['Set.__get__', 'SetInstance.copy'],
    'm2m_is_empty': ['Set.__get__', 'SetInstance.is_empty'], 'm2m_count': ['Set.__get__', 'SetInstance.count'],
    'm2m_contains': ['Set.__get__', 'SetInstance.__contains__'],
    'm2m_iter': ['Set.__get__', 'SetInstance.__iter__', 'SetIterator.next'],
    'set_load': ['Set.__get__', 'SetInstance.load'],
    'obj_load': ['Entity.load'], 'obj_load_attr': ['Entity.load'],
    'obj_delete': ['Entity.delete'], 'obj_set': ['Entity.set'], 'obj_set_empty': ['Entity.set'], 'obj_flush': ['Entity.flush'],
    'to_dict': ['Entity.to_dict'], 'to_dict_collections': ['Entity.to_dict'],
}
DEL = ('marked_to_delete', 'deleted', 'cancelled')
S_OPS = ('attr_get_loaded', 'attr_get_ref', 'attr_get_pk', 'attr_set', 'attr_set_same', 'attr_set_ref', 'obj_delete', 'obj_set',
         'obj_set_empty', 'obj_flush', 'to_dict')

_obs = {}

def observations(ctx):
    """The whole product, run once per check in a fresh interpreter against vlib.REPO."""
    if 'all' not in _obs:
        _obs['all'] = vlib.run_impl('c32_driver.py', {'all': True}, timeout=900)
    return _obs['all']


def coq_op(name):
    cls, m = name.split('.')
    return guards.op_name((cls, m))


def observed_outcome(o):
    r = o['result']
    written = bool(o['db_changed'] or o['obj_changed'] or o['sql'])
    if r[0] == 'value':
        return ('ORanQuery' if o['sql'] else 'OValue'), written
    cls = r[1]
    m = {'DatabaseSessionIsOver': 'OSessionOver', 'OperationWithDeletedObjectError': 'ODeleted', 'AssertionError': 'OAssertion',
         'TransactionError': 'OTxError'}.get(cls, 'OOther')
    return m, written


HEADER = ('Require Import PonyV.Base.PyBase PonyV.Model.C32Guard PonyV.Model.C32Close PonyV.Gen.Guards.\n'
          'Definition paths_of (o : op) : list path := match find (fun r => op_eqb (fst r) o) guard_table with Some r => snd r | None => [] end.\n'
          'Definition E (l : list op) : list path := seq_all (map paths_of l).\n')


def run_bools(ctx, exprs, chunk=1500):
    chunks = []
    for i in range(0, len(exprs), chunk):
        part = exprs[i:i + chunk]
        chunks.append('Definition cases : list bool := [\n' + ';\n'.join(part) + '].\nEval vm_compute in (failing cases).\n')
    outs = vlib.coq_eval_many(ctx, HEADER, chunks)
    bad = []
    for k, out in enumerate(outs):
        vals = vlib.parse_eval_outputs(out)
        assert len(vals) == 1, out[-500:]
        inner = vals[0].strip().strip('[]').strip()
        if inner:
            for tok in inner.split(';'):
                bad.append(k * chunk + int(tok.strip().replace('%nat', '')))
    return bad


ATTR_INDEX = {}

def attr_ix(cls, name):
    return ATTR_INDEX.setdefault((cls, name), len(ATTR_INDEX))


def coq_obj(st, values):
    def vid(x):
        k = json.dumps(x, sort_keys=True)
        return values.setdefault(k, len(values))
    if st['vals'] is None: vals = 'None'
    else:
        ents = []
        for name, v in st['vals'].items():
            ix = attr_ix(st['cls'], name)
            if 'scalar' in v: ents.append((ix, '(AScalar %d)' % vid(v['scalar'])))
            else: ents.append((ix, '(AColl [%s] %s)' % ('; '.join(str(vid(i)) for i in v['items']), 'true' if v['full'] else 'false')))
        ents.sort()
        vals = '(Some [%s])' % '; '.join('(%d%%nat, %s)' % e for e in ents)
    return '(mkobj %s %s %s)' % (vals, 'true' if st['has_db'] else 'false', 'true' if st['cache'] else 'false')


def correspondence(ctx):
    obs = observations(ctx)
    exprs, meta, disagreements = [], [], []
    dist = {'guard_table_cases': 0, 'close_objects': 0, 'scenarios_not_built': 0}
    nontrivial = set()
    # (1) every observed outcome must be possible for some path of the scanned operations
    for o in obs:
        c = o['case']
        if o['setup'] != 'ok':
            dist['scenarios_not_built'] += 1
            disagreements.append({'what': 'scenario could not be built: %s' % o['setup'], 'input': c})
            continue
        before = o['before']
        st = '(mkd %s %s %s)' % ('true' if before['vals'] is None else 'false', 'true' if before['status'] in DEL else 'false',
                                 'true' if c['ctx'] == 'new_session' else 'false')
        out, w = observed_outcome(o)
        ops = '[' + '; '.join(coq_op(x) for x in ENTRY[c['op']]) + ']'
        exprs.append('possible %s (E %s) (%s, %s)' % (st, ops, out, 'true' if w else 'false'))
        meta.append(('guard_table', c, [o['result'], o['db_changed'], o['obj_changed'], o['sql']]))
        dist['guard_table_cases'] += 1
        nontrivial.add(json.dumps(c, sort_keys=True))
    # (2) SessionCache.close: model vs the recorded pre/post states, once per distinct scenario
    seen = set()
    for o in obs:
        if o['setup'] != 'ok': continue
        c = o['case']
        k = (c['status'], c['ending'], c['strict'])
        if k in seen: continue
        seen.add(k)
        if len(o['close']) != 1:
            disagreements.append({'what': 'expected exactly one SessionCache.close per scenario', 'input': k, 'impl': len(o['close'])})
            continue
        cl = o['close'][0]
        for ob in cl['objects']:
            values = {}
            exprs.append('dobj_eqb (close_obj %s %s %s) %s' % ('true' if cl['strict'] else 'false', 'true' if cl['connected'] else 'false',
                                                               coq_obj(ob['pre'], values), coq_obj(ob['post'], values)))
            meta.append(('close', {'scenario': k, 'connected': cl['connected']}, ob))
            dist['close_objects'] += 1
    bad = run_bools(ctx, exprs)
    for i in bad[:20]:
        kind, inp, impl = meta[i]
        disagreements.append({'what': 'model and implementation differ (%s)' % kind, 'input': inp, 'impl': impl, 'coq_case': exprs[i][:800]})
    samples = [{'coq_case': exprs[0]}, {'coq_case': exprs[-1][:600]}]
    return Corr(cases=len(exprs), nontrivial=len(nontrivial), disagreements=disagreements, samples=samples, distribution=dist,
                note='each observed (outcome, written) must be possible under Model/C32Guard.run for a path of the generated table; '
                     'close_obj must map every recorded pre-state to the recorded post-state')


# ------------------------------------------------------------------------------------------------ property oracle

def expected(c, o):
    """Specification side: acceptable results of this attempt, independent of the guard table.
    Returns (set of acceptable result classes, expected value or NOVALUE)."""
    op, kind = c['op'], drv.OP_KIND[c['op']]
    b = o['before']
    vals, status = b['vals'], b['status']
    deleted = status in DEL
    ok = set()
    value = NOVALUE
    refusal = {'DatabaseSessionIsOver'} | ({'OperationWithDeletedObjectError'} if deleted else set())
    if kind == 'mut':
        ok |= refusal
        if op == 'obj_flush' and status not in ('created', 'modified', 'marked_to_delete'):
            ok = {'value'}; value = None
    elif kind == 'load':
        ok |= refusal
        if op == 'attr_get_lazy_unloaded' and vals is not None and 'note' in vals and not deleted:
            ok = {'value'}; value = vals['note']
    elif kind == 'read':
        if vals is None: ok |= refusal
        elif op == 'attr_get_pk': ok = {'value'}; value = vals['id']
        elif op == 'attr_get_loaded': ok = {'value'}; value = vals['name']
        elif op == 'attr_get_ref': ok = {'value'}; value = vals['g']
        elif op == 'to_dict':
            if all(k in vals for k in ('id', 'name', 'g', 'boss_of')):
                ok = {'value'}
                ref = lambda v: None if v is None else int(v.split('#')[1])
                value = {'id': vals['id'], 'name': vals['name'], 'g': ref(vals['g']), 'boss_of': ref(vals['boss_of'])}
            else: ok |= refusal
        if deleted and vals is not None: ok |= refusal       # a deleted object may refuse, or still show what it had loaded
    elif kind == 'collread':
        cname = 'tags' if op.startswith('m2m') else 'items'
        coll = None if vals is None else vals.get(cname)
        if vals is None or deleted: ok |= refusal
        elif op == 'to_dict_collections':
            full = all(isinstance(vals.get(k), dict) and vals[k]['full'] for k in ('items', 'tags')) \
                   and all(k in vals for k in ('id', 'name', 'code', 'data', 'boss'))
            if full:
                ok = {'value'}; value = ANYVALUE
            else: ok |= refusal
        elif coll is not None and coll['full']:
            ok = {'value'}
            items = coll['items']
            value = {'is_empty': not items, 'count': len(items), 'len': len(items), 'bool': bool(items), 'contains': None,
                     'iter': sorted(int(x.split('#')[1]) for x in items), 'copy': sorted(items)}[op.split('_', 1)[1]]
            if op.endswith('contains'): value = ANYVALUE
        else:
            ok |= refusal
            if coll is not None:
                items = coll['items']
                what = op.split('_', 1)[1]
                if what == 'contains': ok.add('value'); value = ANYVALUE      # decidable from partial data in some cases
                if what in ('is_empty', 'bool') and items: ok.add('value'); value = (what == 'bool')
                if what == 'count' and coll.get('count') is not None: ok.add('value'); value = coll['count']
            elif op.endswith('contains'):
                ok.add('value'); value = ANYVALUE       # may be answered from the item's own loaded reverse side
    return ok, value


class _NoValue(object):
    def __repr__(self): return '<no value>'
NOVALUE = _NoValue()
ANYVALUE = _NoValue()


def judge(o):
    """None if the observation satisfies the property, else (key, what)."""
    c = o['case']
    ok, value = expected(c, o)
    r = o['result']
    got = 'value' if r[0] == 'value' else r[1]
    flags = []
    if o['db_changed']: flags.append('db-changed')
    if o['obj_changed']: flags.append('snapshot-changed')
    if o['sql']: flags.append('sql-executed')
    bad = None
    if got == 'value':
        if 'value' not in ok: bad = 'not-refused'
        elif value is not NOVALUE and value is not ANYVALUE and 'value' in ok and r[1] != json.loads(json.dumps(value)): bad = 'wrong-value'
    elif got not in ok:
        bad = ('readable-value-refused-with-%s' if ok == {'value'} else 'refused-with-%s') % got
    if bad is None and not flags: return None
    key = '%s:%s:%s' % (c['op'], c['ctx'], '+'.join([bad or 'ok'] + flags))
    what = '%s on a %s object after a %s%s session, %s: expected %s, got %s%s' % (
        c['op'], c['status'], 'strict ' if c['strict'] else '', c['ending'], c['ctx'].replace('_', ' '),
        '/'.join(sorted(ok)) + ('' if value in (NOVALUE, ANYVALUE) else ' = %r' % (value,)),
        r[1] if r[0] == 'exc' else 'value %r' % (r[1],), (' [' + ', '.join(flags) + ']') if flags else '')
    return key, what


def search(ctx, deep):
    obs = observations(ctx)
    failures, seen, nontriv = [], {}, set()
    dist = {'by_kind': {}, 'failing_cases_by_key': seen}
    for o in obs:
        if o['setup'] != 'ok': continue
        c = o['case']
        nontriv.add(json.dumps(c, sort_keys=True))
        k = drv.OP_KIND[c['op']]
        dist['by_kind'][k] = dist['by_kind'].get(k, 0) + 1
        j = judge(o)
        if j is None: continue
        key, what = j
        if key not in seen:
            failures.append(Failure(key, what, {'case': c}))
        seen[key] = seen.get(key, 0) + 1
    return Search(evaluations=len(obs), failures=failures, nontrivial=len(nontriv), distribution=dist, exhaustive=True,
                  samples=[obs[0]['case'], {'case': obs[len(obs) // 2]['case'], 'result': obs[len(obs) // 2].get('result')}])


_replayed = {}

def replay(ctx, data):
    k = json.dumps(data['case'], sort_keys=True)
    if k not in _replayed:
        # the first call runs every stored replay of the known findings in one interpreter
        batch = [data['case']]
        for f in vlib.known_for(ID):
            c = (f.get('replay') or {}).get('case')
            if c is not None and json.dumps(c, sort_keys=True) != k: batch.append(c)
        for c, o in zip(batch, vlib.run_impl('c32_driver.py', {'cases': batch}, timeout=300)):
            _replayed[json.dumps(c, sort_keys=True)] = o
    o = _replayed[k]
    if o['setup'] != 'ok': return Failure('scenario-not-built', o['setup'], data)
    j = judge(o)
    if j is None: return None
    return Failure(j[0], j[1], data)


LEVEL_TEXT = ('Machine-checked proof (Coq 8.16.1) over a guard table regenerated from pony/orm/core.py on every run: for each of 37 operations on '
              'entity objects and collections, every prefix path the source allows in a dead session either ends in the liveness guard (session-is-over '
              'error, nothing written) or is a pure read of loaded data, for all states (strict or not, deleted or not, outside or inside a new '
              'session) - except one recorded (operation, path) shape (in-place change of a tracked Json value, refuted by a witness); the 15 mutators/loaders '
              'proper (incl. SetInstance.create) are shown to start with the guard unconditionally, and is_empty / create / flush (repaired by 743d82e) '
              'are covered on every path. SessionCache.close is hand-modelled and proved to keep loaded scalars and fully loaded '
              'collections readable when not strict, to refuse everything else, and to refuse everything after a strict session. Tied to the '
              'implementation by an exhaustive product of 39 operations x 12 statuses x 4 endings x strict x 2 contexts on SQLite.')
LEVEL_NOTE = ('The proof is about prefix paths extracted by an ast scanner (trusted, fail-closed, cross-checked against every observed outcome); what '
              'operations do after a passed guard is outside the model. Only SQLite executes. Query-building methods of SetInstance are out of scope.')
TECHNIQUE = 'ast scanner -> finite guard table -> Coq (path semantics, forallb_forall lifting); hand model of close; exhaustive product on SQLite'
DESIGN_REF = 'DESIGN.md section 5, C32'
