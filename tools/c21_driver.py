"""C21 implementation driver: one reading db_session (worker thread R) whose operations are interleaved with complete
committed writer sessions (worker thread W) on one SQLite file.
JSON in: {"cases": [{"kind": "scalar", "db0": [a, b, v, z], "ops": [...]}, {"kind": "coll", "m2m": bool, "ops": [...]}]}
  scalar reader ops  ["R", a] read attribute a of P[1] | ["W", a, v] assign | ["F"] a query that fetches the row again
  scalar writer op   ["X", a, v]  another session sets P[1].a = v and commits
  coll reader ops    ["copy"] sorted ids by iterating G[1].coll | ["len"] len(G[1].coll) | ["refetch_items"] | ["refetch_item", i] | ["load_rev", t]
  coll writer ops    ["move", i, g] item i gets owner g (1, 2 or null) | ["link", t] | ["unlink", t]   (tags of G[1])
JSON out per case: what the reader observed / whether it ended in UnrepeatableReadError, and the model's event list
(the external values each re-fetch brought are read from the file with a raw connection just before the operation)."""
import json, os, sqlite3, sys, tempfile, shutil, time

import vlib
sys.path.insert(0, vlib.REPO)
import c20_sessions as S
from pony import orm

SC_ATTRS = ['a', 'b', 'v', 'z']          # v volatile, z lazy
NONLAZY = [0, 1, 2]


def setup(path):
    S.install_trace()
    db = orm.Database('sqlite', path, create_db=True)
    class P(db.Entity):
        a = orm.Optional(int)
        b = orm.Optional(int)
        v = orm.Optional(int, volatile=True)
        z = orm.Optional(int, lazy=True)
    class G(db.Entity):
        name = orm.Optional(str)
        items = orm.Set('I', nplus1_threshold=1000)
        uitems = orm.Set('IU', nplus1_threshold=1000)
        pitems = orm.Set('IP', nplus1_threshold=1000)
        tags = orm.Set('T', nplus1_threshold=1000)
    class I(db.Entity):
        owner = orm.Optional(G)
        note = orm.Optional(int)
    class IU(db.Entity):                       # the back-reference is a member of a secondary unique key
        owner = orm.Optional(G)
        number = orm.Required(int)
        note = orm.Optional(int)
        orm.composite_key(owner, number)
    class IP(db.Entity):                       # the back-reference is a member of the primary key
        owner = orm.Required(G)
        number = orm.Required(int)
        note = orm.Optional(int)
        orm.PrimaryKey(owner, number)
    class T(db.Entity):
        groups = orm.Set(G, nplus1_threshold=1000)
    db.generate_mapping(create_tables=True)
    return db, dict(P=P, G=G, I=I, IU=IU, IP=IP, T=T)


class Ctl(object):
    def __init__(self, db, E, raw):
        self.db, self.E, self.raw = db, E, raw
        self.reader = S.Worker('R')
        self.writer = S.Worker('W')
        self.qn = 0

    def write(self, fn):
        s = S.Session(self.writer, orm)
        s.begin()
        r = s.do(fn)
        e = s.leave(None) if r[0] == 'ok' else r[1]
        if e is not None: raise RuntimeError('writer session failed: %s: %s' % (type(e).__name__, e))

    def fresh(self):
        self.qn += 1
        return -self.qn


def run_scalar(ctl, case):
    P = ctl.E['P']; raw = ctl.raw
    raw.execute('DELETE FROM P'); raw.execute('INSERT INTO P (id, a, b, v, z) VALUES (1, ?, ?, ?, ?)', case['db0']); raw.commit()
    lock = ctl.db.provider.transaction_lock
    def committed():
        return list(raw.execute('SELECT a, b, v, z FROM P WHERE id = 1').fetchone())
    ctl_lazy_loaded[0] = False
    sess = S.Session(ctl.reader, orm); sess.begin()
    model, real, failed, other = [], [], False, []
    loaded = False
    pending = {}          # own writes not yet flushed
    uncommitted = {}      # own writes flushed (UPDATE executed) but not yet committed: visible to the reader's connection only
    v_unloaded = False    # a written volatile attribute is forgotten by the flush and loaded again (whole row) on the next access
    skipped = 0
    def seen_row():
        cur = committed()
        for a, v in uncommitted.items(): cur[a] = v
        return cur
    def flush_prelude():
        """a statement of the reader while it has unflushed writes: the flush comes first"""
        nonlocal v_unloaded
        if pending:
            cur = seen_row()
            model.append(['Flush', [[a, cur[a]] for a in range(4)]])
            if 2 in pending: v_unloaded = True
            uncommitted.update(pending); pending.clear()
    for op in case['ops']:
        if op[0] == 'X':
            if lock.locked(): skipped += 1; continue          # the writer would block on the reader's open transaction
            name, v = SC_ATTRS[op[1]], op[2]
            ctl.write(lambda: setattr(P[1], name, v))
            continue
        if failed: continue            # the reading session is over
        if not loaded:                 # the first P[1] of the session fetches the non-lazy columns
            cur = seen_row()
            model += [['Load', a, cur[a]] for a in NONLAZY]; loaded = True
        if op[0] == 'R':
            a = op[1]
            if a == 3 and not ctl_lazy_loaded[0]: flush_prelude()
            if a == 2 and v_unloaded:          # obj._load_(): the whole row again
                cur = seen_row()
                model += [['Load', x, cur[x]] for x in NONLAZY]; v_unloaded = False
            cur = seen_row()
            model.append(['Read', a, cur[a]])
            if a == 3: ctl_lazy_loaded[0] = True
            r = sess.do(lambda: getattr(P[1], SC_ATTRS[a]))
            if r[0] == 'ok': real.append(['obs', a, r[1]])
        elif op[0] == 'W':
            name, v = SC_ATTRS[op[1]], op[2]
            model.append(['Write', op[1], v]); pending[op[1]] = v
            r = sess.do(lambda: setattr(P[1], name, v))
            if r[0] == 'ok': real.append(['write', op[1], v])
        elif op[0] == 'F':
            flush_prelude()
            cur = seen_row()
            model += [['Load', a, cur[a]] for a in NONLAZY]
            if v_unloaded: v_unloaded = False
            k = ctl.fresh()
            r = sess.do(lambda: [p.id for p in P.select(lambda p: p.id > k)[:]])
        elif op[0] == 'K':             # commit() in the middle of the db_session: the session and its identity map stay alive
            flush_prelude()
            r = sess.do(lambda: orm.commit())
            if r[0] == 'ok': uncommitted.clear()
        else:
            raise ValueError(op)
        if r[0] == 'exc':
            failed = True
            if type(r[1]).__name__ not in ('UnrepeatableReadError', 'OptimisticCheckError'):
                other.append('%s: %s' % (type(r[1]).__name__, str(r[1])[:300]))
    if sess.alive: sess.abort()
    return {'failed': failed, 'events': real, 'model': model, 'other': other, 'skipped_writer_actions': skipped,
            'lock_left_held': lock.locked()}


ctl_lazy_loaded = [False]


def run_ref(ctl, case):
    """to-one reference changing under the reader: attribute 0 = I[1].owner (value = primary key of the referenced G, or None)"""
    G, I = ctl.E['G'], ctl.E['I']; raw = ctl.raw
    for t in ('G_T', 'I', 'IU', 'IP', 'T', 'G'): raw.execute('DELETE FROM "%s"' % t)
    raw.execute("INSERT INTO G (id, name) VALUES (1, 'g1'), (2, 'g2')")
    raw.execute('INSERT INTO I (id, owner) VALUES (1, ?)', (case['db0'],))
    raw.commit()
    sess = S.Session(ctl.reader, orm); sess.begin()
    model, real, failed, other, loaded = [], [], False, [], False
    for op in case['ops']:
        if op[0] == 'X':
            ctl.write(lambda: setattr(I[1], 'owner', None if op[1] is None else G[op[1]])); continue
        if failed: continue
        cur = raw.execute('SELECT owner FROM I WHERE id = 1').fetchone()[0]
        if not loaded:
            model.append(['Load', 0, cur]); loaded = True
        if op[0] == 'R':
            model.append(['Read', 0, cur])
            r = sess.do(lambda: (lambda o: None if o is None else o.id)(I[1].owner))
            if r[0] == 'ok': real.append(['obs', 0, r[1]])
        elif op[0] == 'F':
            model.append(['Load', 0, cur])
            k = ctl.fresh()
            r = sess.do(lambda: [x.id for x in I.select(lambda x: x.id > k)[:]])
        else:
            raise ValueError(op)
        if r[0] == 'exc':
            failed = True
            if type(r[1]).__name__ != 'UnrepeatableReadError': other.append('%s: %s' % (type(r[1]).__name__, str(r[1])[:300]))
    sess.abort()
    return {'failed': failed, 'events': real, 'model': model, 'other': other, 'lock_left_held': ctl.db.provider.transaction_lock.locked()}


def run_proj(ctl, case):
    """what the code does for values observed through scalar projections (select(p.a for p in P)): a projection creates no object
    state and no read bit, and is itself never compared with values the session holds.  Pinned behaviour, outside the statement."""
    P = ctl.E['P']; raw = ctl.raw
    out = []
    def scenario(name, first, second):
        raw.execute('DELETE FROM P'); raw.execute('INSERT INTO P (id, a, b, v, z) VALUES (1, 1, 2, 3, 4)'); raw.commit()
        sess = S.Session(ctl.reader, orm); sess.begin()
        r1 = sess.do(first)
        ctl.write(lambda: setattr(P[1], 'a', 9))
        r2 = sess.do(second) if sess.alive else ('exc', None)
        if sess.alive: sess.abort()
        out.append({'name': name, 'first': r1[1] if r1[0] == 'ok' else type(r1[1]).__name__, 'second': r2[1] if r2[0] == 'ok' else type(r2[1]).__name__})
    proj = lambda: orm.select(p.a for p in P)[:][0]
    k1, k2 = ctl.fresh(), ctl.fresh()
    proj2 = lambda: orm.select(p.a for p in P if p.id > k2)[:][0]
    scenario('projection, then attribute of the (not yet loaded) object', proj, lambda: P[1].a)
    scenario('attribute of the object, then projection', lambda: P[1].a, proj)
    scenario('projection, then another projection', proj, proj2)
    scenario('attribute, then re-fetch of the object by a query', lambda: P[1].a, lambda: [p.a for p in P.select(lambda p: p.id > k1)[:]])
    return {'table': out}


def run_coll(ctl, case):
    G, T = ctl.E['G'], ctl.E['T']; raw = ctl.raw
    m2m = case['m2m']
    ref = case.get('ref', 'plain')             # plain | unique | pk : what the items' back-reference is part of
    X = ctl.E[{'plain': 'I', 'unique': 'IU', 'pk': 'IP'}[ref]]
    tab = X.__name__
    name = 'tags' if m2m else {'plain': 'items', 'unique': 'uitems', 'pk': 'pitems'}[ref]
    coll = getattr(G, name)
    for t in ('G_T', 'I', 'IU', 'IP', 'T', 'G'): raw.execute('DELETE FROM "%s"' % t)
    raw.execute("INSERT INTO G (id, name) VALUES (1, 'g1'), (2, 'g2')")
    raw.execute('INSERT INTO I (id, owner) VALUES (1, 1), (2, 1), (3, 2)')
    raw.execute('INSERT INTO IU (id, owner, number) VALUES (1, 1, 1), (2, 1, 2), (3, 2, 3)')
    raw.execute('INSERT INTO IP (owner, number) VALUES (1, 1), (1, 2), (2, 3)')
    raw.execute('INSERT INTO T (id) VALUES (1), (2), (3)')
    raw.execute('INSERT INTO G_T (g, t) VALUES (1, 1), (1, 2)')
    raw.commit()
    idcol = 'owner * 10 + number' if ref == 'pk' else 'id'          # how the model names an item
    def mid(x):
        return x.owner.id * 10 + x.number if ref == 'pk' else x.id
    def members():
        if m2m: return [r[0] for r in raw.execute('SELECT t FROM G_T WHERE g = 1 ORDER BY t')]
        return [r[0] for r in raw.execute('SELECT %s FROM %s WHERE owner = 1 ORDER BY 1' % (idcol, tab))]
    sess = S.Session(ctl.reader, orm); sess.begin()
    model, real, failed, other = [], [], False, []
    for op in case['ops']:
        if op[0] == 'move':
            if ref == 'pk':        # a primary key cannot be changed through Pony: the other session is a raw connection
                raw.execute('UPDATE IP SET owner = ? WHERE number = ?', (op[2], op[1])); raw.commit()
            else:
                ctl.write(lambda: setattr(X[op[1]], 'owner', None if op[2] is None else G[op[2]]))
            continue
        if op[0] == 'link':
            ctl.write(lambda: G[1].tags.add(T[op[1]])); continue
        if op[0] == 'unlink':
            ctl.write(lambda: G[1].tags.remove(T[op[1]])); continue
        if failed: continue
        def peek():
            sd = G[1]._vals_.get(coll)
            if sd is None: return None, None
            pins = []
            if not m2m:
                for x in sd:
                    bit = x._bits_except_volatile_.get(X.owner, 0)
                    if x._rbits_ and x._rbits_ & bit: pins.append(mid(x))
            return sorted(mid(x) if not m2m else x.id for x in sd), sorted(pins)
        if op[0] == 'touch':       # the reader updates another attribute of a member it has seen (still in its cache: no query)
            i = op[1]
            r = sess.do(lambda: setattr(X[1, i] if ref == 'pk' else X[i], 'note', 7))
            if r[0] == 'exc':
                failed = True; other.append('touch: %s: %s' % (type(r[1]).__name__, str(r[1])[:200]))
            continue
        if op[0] == 'copy':
            model.append(['Copy', ref == 'pk' and not m2m, members()])       # Model copy_event: a pk-member back-reference gets no read bits
            r = sess.do(lambda: (sorted((mid(x) if not m2m else x.id) for x in getattr(G[1], name)), peek()))
            if r[0] == 'ok': real.append(['copy', r[1][0], r[1][0], r[1][1][1]])
        elif op[0] == 'len':
            model.append(['CObsLen', members()])
            r = sess.do(lambda: (len(getattr(G[1], name)), peek()))
            if r[0] == 'ok': real.append(['len', r[1][0], r[1][1][0], r[1][1][1]])
        elif op[0] == 'refetch_items':
            rows = raw.execute('SELECT %s, owner FROM %s ORDER BY 1' % (idcol, tab)).fetchall()
            model += [['CItemReload', i, o == 1] for i, o in rows]
            k = ctl.fresh()
            if ref == 'pk': r = sess.do(lambda: [x.number for x in X.select(lambda x: x.number > k)[:]])
            else: r = sess.do(lambda: [x.id for x in X.select(lambda x: x.id > k)[:]])
        elif op[0] == 'refetch_item':
            i = op[1]
            rows = raw.execute('SELECT %s, owner FROM %s WHERE %s = ?' % (idcol, tab, 'number' if ref == 'pk' else 'id'), (i,)).fetchall()
            model += [['CItemReload', j, o == 1] for j, o in rows]
            k = ctl.fresh()
            if ref == 'pk': r = sess.do(lambda: [x.number for x in X.select(lambda x: x.number == i and x.number > k)[:]])
            else: r = sess.do(lambda: [x.id for x in X.select(lambda x: x.id == i and x.id > k)[:]])
        elif op[0] == 'load_rev':
            t = op[1]
            linked = raw.execute('SELECT count(*) FROM G_T WHERE g = 1 AND t = ?', (t,)).fetchone()[0] == 1
            model.append(['CRevLoad', t, linked])
            r = sess.do(lambda: len(T[t].groups))
        else:
            raise ValueError(op)
        if r[0] == 'exc':
            failed = True
            if type(r[1]).__name__ != 'UnrepeatableReadError': other.append('%s: %s' % (type(r[1]).__name__, str(r[1])[:300]))
    commit = 'not-requested'
    if case.get('commit') and not failed:
        e = sess.leave(None)
        commit = 'committed' if e is None else type(e).__name__
    sess.abort()
    return {'failed': failed, 'events': real, 'model': model, 'other': other, 'commit': commit,
            'lock_left_held': ctl.db.provider.transaction_lock.locked()}


def main():
    payload = json.load(sys.stdin)
    tmp = tempfile.mkdtemp(prefix='c21-', dir=os.environ.get('VERIF_TMP', '/tmp'))
    out = {'results': [], 'stuck': None}
    try:
        path = os.path.join(tmp, 'c21.sqlite')
        db, E = setup(path)
        raw = sqlite3.connect(path, timeout=5)
        ctl = Ctl(db, E, raw)
        t0 = time.time()
        for k, case in enumerate(payload['cases']):
            try:
                out['results'].append({'scalar': run_scalar, 'ref': run_ref, 'proj': run_proj, 'coll': run_coll}[case['kind']](ctl, case))
            except S.Stuck as e:
                out['stuck'] = {'case': k, 'what': str(e)}
                break
        out['seconds'] = round(time.time() - t0, 2)
    except BaseException as e:
        import traceback
        out['error'] = '%s: %s\n%s' % (type(e).__name__, e, traceback.format_exc()[-3000:])
    finally:
        sys.stdout.write('\n@@JSON@@' + json.dumps(out))
        sys.stdout.flush()
        shutil.rmtree(tmp, ignore_errors=True)
        os._exit(0)


if __name__ == '__main__':
    main()
