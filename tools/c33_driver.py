"""C33 implementation driver: run generated histories with table-driven lifecycle hooks on SQLite and record the
interleaved log of hook calls and INSERT/UPDATE/DELETE statements (provider.execute of the driver's Database instance is wrapped to record them).

case = {"init": [ref_or_null, ...],                 objects 0..n-1 committed beforehand (val = 1); ref = oid of the referenced object
        "ops":  [["modify", o] | ["create", ref_or_null] | ["delete", o] | ["set_ref", o, p]],
        "hooks": [[before(bool), kind "I"|"U"|"D", oid, nth_call_of_that_object, [["modify", o] | ["create", ref_or_null]]], ...],
        "trigger": ["flush"] | ["obj_flush", o]}     then the session commits (second cache.flush)
Output per case: {"log": [[B|S|A, kind, oid], ...], "pre": statuses + ots + princ before the trigger (for the model),
                  "db": {oid: val}, "expected_val": {oid: val}, "error": null | text}
Object ids: oid o has primary key o+1.
"""
import json, re, sys

from pony import orm
from pony.orm import core

DB = None
LOG = []
CALLS = {}
TABLE = {}
OBJ = {}
STATE = {'next': 0, 'vals': {}}


def make_db():
    db = orm.Database('sqlite', ':memory:')

    class N(db.Entity):
        id = orm.PrimaryKey(int)
        val = orm.Required(int)
        ref = orm.Optional('N', reverse='refs')
        refs = orm.Set('N', reverse='ref')
        def before_insert(self): hook(True, 'I', self)
        def before_update(self): hook(True, 'U', self)
        def before_delete(self): hook(True, 'D', self)
        def after_insert(self): hook(False, 'I', self)
        def after_update(self): hook(False, 'U', self)
        def after_delete(self): hook(False, 'D', self)
    db.generate_mapping(create_tables=True)
    return db


def oid_of(obj):
    return obj.id - 1


def do_action(a):
    N = DB.N
    if a[0] == 'modify':
        x = OBJ.get(a[1])
        if x is None: return
        try:
            x.val = x.val + 1
            STATE['vals'][a[1]] = STATE['vals'].get(a[1], 1) + 1
        except core.OperationWithDeletedObjectError:
            pass
    elif a[0] == 'create':
        o = STATE['next']; STATE['next'] += 1
        p = OBJ.get(a[1]) if a[1] is not None else None
        OBJ[o] = N(id=o + 1, val=1, ref=p)
        STATE['vals'][o] = 1
    else: raise ValueError(a)


def hook(before, kind, obj):
    o = oid_of(obj)
    LOG.append(['B' if before else 'A', kind, o])
    n = CALLS.get(o, 0); CALLS[o] = n + 1
    for a in TABLE.get((before, kind, o, n), ()):
        do_action(a)


def record_statement(sql, arguments):
    """One log entry per provider.execute call of an INSERT / UPDATE / DELETE on N (object id taken from the arguments)."""
    head = sql.lstrip()[:6].upper()
    if head == 'INSERT':
        m = re.search(r'INSERT INTO "N" \(([^)]*)\)', sql)
        if not m: return
        cols = [c.strip().strip('"') for c in m.group(1).split(',')]
        LOG.append(['S', 'I', int(arguments[cols.index('id')]) - 1])
    elif head in ('UPDATE', 'DELETE'):
        if '"N"' not in sql: return
        i = sql.find('"id" = ?')
        if i < 0: return
        LOG.append(['S', 'U' if head == 'UPDATE' else 'D', int(arguments[sql[:i].count('?')]) - 1])


def install_recorder(db):
    prov = db.provider
    orig = prov.execute
    def execute(cursor, sql, arguments=None, returning_id=False):
        if RECORD[0] and arguments is not None and not isinstance(arguments, list): record_statement(sql, arguments)
        return orig(cursor, sql, arguments, returning_id)
    prov.execute = execute          # observation only, on this driver's provider instance


RECORD = [False]


def run_case(case):
    global DB
    if DB is None:
        DB = make_db(); install_recorder(DB)
    db = DB; N = db.N
    del LOG[:]; CALLS.clear(); TABLE.clear(); OBJ.clear()
    STATE['next'] = len(case['init']); STATE['vals'] = {}
    with orm.db_session:
        db.execute('delete from N')
        objs = []
        for i, r in enumerate(case['init']):
            objs.append(N(id=i + 1, val=1, ref=objs[r] if r is not None else None))
    for h in case['hooks']:
        TABLE[(bool(h[0]), h[1], h[2], h[3])] = h[4]
    out = {'error': None}
    try:
        with orm.db_session:
            for x in N.select().order_by(N.id)[:]:
                OBJ[oid_of(x)] = x; x.val; x.ref
                STATE['vals'][oid_of(x)] = 1
            del LOG[:]; CALLS.clear()
            order = []                                  # objects in the order they became pending
            assigned = {}
            for op in case['ops']:
                if op[0] == 'modify':
                    do_action(op)
                elif op[0] == 'create':
                    do_action(op)
                elif op[0] == 'delete':
                    OBJ[op[1]].delete()
                elif op[0] == 'set_ref':
                    OBJ[op[1]].ref = OBJ[op[2]] if op[2] is not None else None
                    assigned[op[1]] = op[2]
            cache = db._get_cache()
            out['pre'] = {
                'status': [OBJ[o]._status_ for o in range(STATE['next'])],
                'ots': [oid_of(x) for x in cache.objects_to_save if x is not None],
                'princ': [[oid_of(OBJ[o]._vals_[N.ref])] if OBJ[o]._vals_.get(N.ref) is not None and (
                              OBJ[o]._status_ == 'created' or (OBJ[o]._status_ == 'modified' and OBJ[o]._wbits_ & OBJ[o]._bits_[N.ref]))
                          else [] for o in range(STATE['next'])],
                'vals': [STATE['vals'].get(o, 1) for o in range(STATE['next'])],
                'modified': bool(cache.modified),
            }
            RECORD[0] = True
            try:
                t = case['trigger']
                if t[0] == 'flush': orm.flush()
                elif t[0] == 'obj_flush': OBJ[t[1]].flush()
                out['log_trigger_len'] = len(LOG)
                out['status_after_trigger'] = [OBJ[o]._status_ for o in range(STATE['next'])]
                orm.commit()
            finally:
                RECORD[0] = False
    except Exception as e:
        out['error'] = '%s: %s' % (type(e).__name__, str(e)[:200])
    out['log'] = [list(x) for x in LOG]
    with orm.db_session:
        out['db'] = {str(r[0] - 1): r[1] for r in db.select('select id, val from N')}
    out['expected_val'] = {str(o): v for o, v in STATE['vals'].items()}
    out['n'] = STATE['next']
    return out


def main():
    payload = json.load(sys.stdin)
    res = []
    for c in payload['cases']:
        try: res.append(run_case(c))
        except Exception as e:
            res.append({'error': 'driver: %s: %s' % (type(e).__name__, e), 'log': [], 'db': {}, 'expected_val': {}, 'n': 0})
    sys.stdout.write('\n@@JSON@@' + json.dumps(res))


if __name__ == '__main__':
    main()
