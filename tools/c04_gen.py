"""C04 helpers: the expression-tree universe shared by the Coq model (coq/Model/C04Expr.v) and the Python drivers.

A tree is a triple (kind, data, children):
    Name str | Const repr-text | NegConst text-of-abs-value | Compare [op names] | Lambda [arg names] | Attribute name |
    Keyword name-or-None | Slice (has_lower, has_upper, has_step) | Joined [n+1 literal segments] | Formatted (conv char or None, spec or None)
    every other kind: data None.
The tables PREC / REQ / allowed below are *mirrors* of the hand-written Coq tables; the correspondence run checks, inside Coq, that
every entry agrees (c04.table_cases), so a slip here is reported as a disagreement and cannot silently weaken a check.
"""
import ast, json

KINDS = ['Name', 'Const', 'NegConst', 'Or', 'And', 'Not', 'Compare', 'BitOr', 'BitXor', 'BitAnd', 'LShift', 'RShift', 'Add', 'Sub',
         'Mult', 'Div', 'FloorDiv', 'Mod', 'USub', 'UAdd', 'Invert', 'Pow', 'Attribute', 'Call', 'Subscript', 'IfExp', 'Lambda',
         'Tuple', 'List', 'IdxTuple', 'StarArg', 'StarElt', 'Keyword', 'Slice', 'Joined', 'Formatted', 'Other']
# tree kinds of the marking model only (Coq kind KOther): dict / set displays, generator expressions
OTHER_KINDS = ('Dict', 'Set', 'Gen')
ITEM_KINDS = {'IdxTuple', 'StarArg', 'StarElt', 'Keyword', 'Slice', 'Formatted'}
BINARY = ['BitOr', 'BitXor', 'BitAnd', 'LShift', 'RShift', 'Add', 'Sub', 'Mult', 'Div', 'FloorDiv', 'Mod', 'Pow']
UNARY = ['Not', 'USub', 'UAdd', 'Invert']
BOOL = ['Or', 'And']
BINSYM = {'BitOr': '|', 'BitXor': '^', 'BitAnd': '&', 'LShift': '<<', 'RShift': '>>', 'Add': '+', 'Sub': '-', 'Mult': '*', 'Div': '/',
          'FloorDiv': '//', 'Mod': '%', 'Pow': '**'}
UNSYM = {'Not': 'not ', 'USub': '-', 'UAdd': '+', 'Invert': '~'}
CMPOPS = ['Eq', 'NotEq', 'Lt', 'LtE', 'Gt', 'GtE', 'Is', 'IsNot', 'In', 'NotIn']
CMPSYM = {'Eq': '==', 'NotEq': '!=', 'Lt': '<', 'LtE': '<=', 'Gt': '>', 'GtE': '>=', 'Is': 'is', 'IsNot': 'is not', 'In': 'in', 'NotIn': 'not in'}

# Python grammar levels (low binds loosest): 0 expression (lambda, conditional) 1 disjunction 2 conjunction 3 inversion 4 comparison
# 5 | 6 ^ 7 & 8 shifts 9 sum 10 term 11 factor (unary) 12 power 13 primary (trailers) 14 atom
PREC = {'Lambda': 0, 'IfExp': 0, 'Or': 1, 'And': 2, 'Not': 3, 'Compare': 4, 'BitOr': 5, 'BitXor': 6, 'BitAnd': 7, 'LShift': 8, 'RShift': 8,
        'Add': 9, 'Sub': 9, 'Mult': 10, 'Div': 10, 'FloorDiv': 10, 'Mod': 10, 'USub': 11, 'UAdd': 11, 'Invert': 11, 'NegConst': 11, 'Pow': 12,
        'Attribute': 13, 'Call': 13, 'Subscript': 13}
for _k in KINDS + list(OTHER_KINDS): PREC.setdefault(_k, 14)


def req(p, i):
    """level at which the grammar parses the child at position class i of parent kind p"""
    if p == 'IfExp': return [1, 1, 0][i]
    if p == 'Or': return 2
    if p in ('And', 'Not'): return 3
    if p == 'Compare': return 5
    if p == 'Pow': return 13 if i == 0 else 11
    if p in BINARY: return PREC[p] + (0 if i == 0 else 1)
    if p in ('USub', 'UAdd', 'Invert'): return 11
    if p in ('Attribute', 'Call', 'Subscript') and i == 0: return 13
    if p == 'StarElt': return 5
    return 0


def npos(p):
    if p in ('Name', 'Const', 'NegConst'): return 0
    if p == 'IfExp': return 3
    if p in BINARY or p in ('Call', 'Subscript'): return 2
    return 1


def pos_of(p, idx):
    """position class of the idx-th child"""
    if p == 'IfExp' or p in BINARY or p == 'Subscript': return idx
    if p == 'Call': return min(idx, 1)
    return 0


def expr_kind(c):
    return c not in ITEM_KINDS


def allowed(p, i, c):
    if i >= npos(p): return False
    if p == 'Call' and i == 1: return expr_kind(c) or c in ('StarArg', 'Keyword')
    if p == 'Subscript' and i == 1: return (expr_kind(c) and c != 'Tuple') or c in ('Slice', 'IdxTuple')
    if p in ('Tuple', 'List'): return expr_kind(c) or c == 'StarElt'
    if p == 'IdxTuple': return expr_kind(c) or c == 'Slice'
    if p == 'Joined': return c == 'Formatted'
    return expr_kind(c)


def ref_needs(p, i, c):
    return allowed(p, i, c) and PREC[c] < req(p, i)


# ------------------------------------------------------------------------------------------------ trees <-> Python ast

class Unmodelled(Exception): pass

_BINCLS = {getattr(ast, k): k for k in BINARY}
_UNCLS = {getattr(ast, k): k for k in UNARY}
_BOOLCLS = {ast.Or: 'Or', ast.And: 'And'}


def from_ast(n, ctx='expr'):
    """Python ast expression -> tree. ctx: 'expr' | 'arg' (call argument) | 'elt' (list/tuple element) | 'slice' | 'idxelt'."""
    T = type(n)
    if T is ast.Name: return ('Name', n.id, [])
    if T is ast.Constant:
        v = n.value
        if isinstance(v, (int, float)) and not isinstance(v, bool) and (v < 0 or (isinstance(v, float) and str(v).startswith('-'))):
            return ('NegConst', repr(-v), [])
        if v is Ellipsis: raise Unmodelled('Ellipsis')
        return ('Const', repr(v), [])
    if T is ast.BoolOp: return (_BOOLCLS[type(n.op)], None, [from_ast(x) for x in n.values])
    if T is ast.UnaryOp: return (_UNCLS[type(n.op)], None, [from_ast(n.operand)])
    if T is ast.BinOp:
        if type(n.op) not in _BINCLS: raise Unmodelled(type(n.op).__name__)
        return (_BINCLS[type(n.op)], None, [from_ast(n.left), from_ast(n.right)])
    if T is ast.Compare: return ('Compare', [type(o).__name__ for o in n.ops], [from_ast(n.left)] + [from_ast(x) for x in n.comparators])
    if T is ast.IfExp: return ('IfExp', None, [from_ast(n.body), from_ast(n.test), from_ast(n.orelse)])
    if T is ast.Lambda:
        a = n.args
        if a.posonlyargs or a.kwonlyargs or a.defaults or a.kw_defaults or a.vararg or a.kwarg: raise Unmodelled('lambda signature')
        return ('Lambda', [x.arg for x in a.args], [from_ast(n.body)])
    if T is ast.Attribute: return ('Attribute', n.attr, [from_ast(n.value)])
    if T is ast.Call:
        args = [from_ast(x, 'arg') for x in n.args]
        kws = [('Keyword', k.arg, [from_ast(k.value)]) for k in n.keywords]
        return ('Call', None, [from_ast(n.func)] + args + kws)
    if T is ast.Starred:
        if ctx == 'arg': return ('StarArg', None, [from_ast(n.value)])
        if ctx == 'elt': return ('StarElt', None, [from_ast(n.value)])
        raise Unmodelled('Starred in %s' % ctx)
    if T is ast.Subscript:
        s = n.slice
        if isinstance(s, ast.Tuple): sl = ('IdxTuple', None, [from_ast(x, 'idxelt') for x in s.elts])
        else: sl = from_ast(s, 'slice')
        return ('Subscript', None, [from_ast(n.value), sl])
    if T is ast.Slice:
        if ctx not in ('slice', 'idxelt'): raise Unmodelled('Slice in %s' % ctx)
        parts = [x for x in (n.lower, n.upper, n.step) if x is not None]
        return ('Slice', (n.lower is not None, n.upper is not None, n.step is not None), [from_ast(x) for x in parts])
    if T is ast.Tuple: return ('Tuple', None, [from_ast(x, 'elt') for x in n.elts])
    if T is ast.List: return ('List', None, [from_ast(x, 'elt') for x in n.elts])
    if T is ast.Dict:
        if any(k is None for k in n.keys): raise Unmodelled('dict unpacking')
        return ('Dict', None, [from_ast(x) for x in n.keys] + [from_ast(x) for x in n.values])
    if T is ast.Set: return ('Set', None, [from_ast(x, 'elt') for x in n.elts])
    if T is ast.GeneratorExp:
        clauses, kids = [], []
        for g in n.generators:
            if isinstance(g.target, ast.Name): names = [g.target.id]
            elif isinstance(g.target, ast.Tuple) and all(isinstance(x, ast.Name) for x in g.target.elts): names = [x.id for x in g.target.elts]
            else: raise Unmodelled('generator target')
            clauses.append((names, len(g.ifs)))
            kids.append(from_ast(g.iter)); kids += [from_ast(x) for x in g.ifs]
        return ('Gen', clauses, kids + [from_ast(n.elt)])
    if T is ast.JoinedStr:
        lits, fields = [''], []
        for v in n.values:
            if isinstance(v, ast.Constant): lits[-1] += v.value
            elif isinstance(v, ast.FormattedValue):
                spec = None
                if v.format_spec is not None:
                    sp = v.format_spec
                    if not all(isinstance(x, ast.Constant) for x in sp.values): raise Unmodelled('nested format spec')
                    spec = ''.join(x.value for x in sp.values)
                fields.append(('Formatted', (None if v.conversion == -1 else chr(v.conversion), spec), [from_ast(v.value)]))
                lits.append('')
            else: raise Unmodelled('JoinedStr item')
        return ('Joined', lits, fields)
    raise Unmodelled(T.__name__)


def to_ast(t):
    k, d, cs = t
    L = ast.Load()
    if k == 'Name': return ast.Name(id=d, ctx=L)
    if k == 'Const': return ast.Constant(value=ast.literal_eval(d))
    if k == 'NegConst': return ast.Constant(value=-ast.literal_eval(d))
    if k in BOOL: return ast.BoolOp(op=getattr(ast, k)(), values=[to_ast(c) for c in cs])
    if k in UNARY: return ast.UnaryOp(op=getattr(ast, k)(), operand=to_ast(cs[0]))
    if k in BINARY: return ast.BinOp(left=to_ast(cs[0]), op=getattr(ast, k)(), right=to_ast(cs[1]))
    if k == 'Compare': return ast.Compare(left=to_ast(cs[0]), ops=[getattr(ast, o)() for o in d], comparators=[to_ast(c) for c in cs[1:]])
    if k == 'IfExp': return ast.IfExp(body=to_ast(cs[0]), test=to_ast(cs[1]), orelse=to_ast(cs[2]))
    if k == 'Lambda':
        return ast.Lambda(args=ast.arguments(posonlyargs=[], args=[ast.arg(arg=a) for a in d], kwonlyargs=[], kw_defaults=[], defaults=[]), body=to_ast(cs[0]))
    if k == 'Attribute': return ast.Attribute(value=to_ast(cs[0]), attr=d, ctx=L)
    if k == 'Call':
        return ast.Call(func=to_ast(cs[0]), args=[to_ast(c) for c in cs[1:] if c[0] != 'Keyword'],
                        keywords=[ast.keyword(arg=c[1], value=to_ast(c[2][0])) for c in cs[1:] if c[0] == 'Keyword'])
    if k in ('StarArg', 'StarElt'): return ast.Starred(value=to_ast(cs[0]), ctx=L)
    if k == 'Subscript': return ast.Subscript(value=to_ast(cs[0]), slice=to_ast(cs[1]), ctx=L)
    if k == 'Slice':
        it = iter(cs)
        return ast.Slice(lower=to_ast(next(it)) if d[0] else None, upper=to_ast(next(it)) if d[1] else None, step=to_ast(next(it)) if d[2] else None)
    if k in ('Tuple', 'IdxTuple'): return ast.Tuple(elts=[to_ast(c) for c in cs], ctx=L)
    if k == 'List': return ast.List(elts=[to_ast(c) for c in cs], ctx=L)
    if k == 'Dict':
        h = len(cs) // 2
        return ast.Dict(keys=[to_ast(c) for c in cs[:h]], values=[to_ast(c) for c in cs[h:]])
    if k == 'Set': return ast.Set(elts=[to_ast(c) for c in cs])
    if k == 'Gen':
        it = iter(cs); gens = []
        for names, nifs in d:
            S = ast.Store()
            tgt = ast.Name(id=names[0], ctx=S) if len(names) == 1 else ast.Tuple(elts=[ast.Name(id=x, ctx=S) for x in names], ctx=S)
            gens.append(ast.comprehension(target=tgt, iter=to_ast(next(it)), ifs=[to_ast(next(it)) for _ in range(nifs)], is_async=0))
        return ast.GeneratorExp(elt=to_ast(next(it)), generators=gens)
    if k == 'Joined':
        vals = []
        for i, lit in enumerate(d):
            if lit: vals.append(ast.Constant(value=lit))
            if i < len(cs): vals.append(to_ast(cs[i]))
        return ast.JoinedStr(values=vals)
    if k == 'Formatted':
        spec = None if d[1] is None else ast.JoinedStr(values=[ast.Constant(value=d[1])] if d[1] else [])
        return ast.FormattedValue(value=to_ast(cs[0]), conversion=-1 if d[0] is None else ord(d[0]), format_spec=spec)
    raise ValueError(k)


def fresh_ast(t):
    """A Python ast (Expression) of the tree with locations filled in, ready for compile()."""
    return ast.fix_missing_locations(ast.Expression(body=to_ast(t)))


class _FoldNeg(ast.NodeTransformer):
    def visit_UnaryOp(self, n):
        self.generic_visit(n)
        if isinstance(n.op, ast.USub) and isinstance(n.operand, ast.Constant) and isinstance(n.operand.value, (int, float)) \
                and not isinstance(n.operand.value, bool):
            return ast.Constant(value=-n.operand.value)
        return n


def dump_norm(node):
    """ast.dump after folding -<number literal> into a negative constant (so that NegConst trees compare equal to their reparse)."""
    import copy
    return ast.dump(_FoldNeg().visit(copy.deepcopy(node)))


def kinds_in(t, acc=None):
    acc = set() if acc is None else acc
    acc.add(t[0])
    for c in t[2]: kinds_in(c, acc)
    return acc


def triples_in(t, acc=None):
    """all (parent kind, position class, child kind) triples occurring in the tree"""
    acc = [] if acc is None else acc
    for i, c in enumerate(t[2]):
        acc.append((t[0], pos_of(t[0], i), c[0]))
        triples_in(c, acc)
    return acc


def size(t):
    return 1 + sum(size(c) for c in t[2])


def depth(t):
    return 1 + max([depth(c) for c in t[2]] or [0])


# ------------------------------------------------------------------------------------------------ printer mirror (tokens and text)

def print_tokens(t, needs, keep_spec=True, extra=None, short_idx=True):
    """Mirror of Coq `print`: list of tokens (tag, payload). `extra(path)` may ask for additional redundant parentheses (Python-side
    validation of "redundant parentheses preserve the parse" only)."""
    def go(t, path):
        k, d, cs = t
        ws = []
        for i, c in enumerate(cs):
            w = go(c, path + (i,))
            wrap = needs(k, pos_of(k, i), c[0])
            n = 1 if wrap else 0
            if extra is not None and expr_kind(c[0]): n += extra(path + (i,))
            for _ in range(n): w = [('LP', None)] + w + [('RP', None)]
            ws.append(w)
        return layout(k, d, ws, keep_spec, short_idx)
    return go(t, ())


def _inter(sep, ws):
    out = []
    for i, w in enumerate(ws):
        if i: out.append(sep)
        out += w
    return out


def layout(k, d, ws, keep_spec, short_idx=True):
    cat = [x for w in ws for x in w]
    if k == 'Name': return [('Name', d)]
    if k == 'Const': return [('Const', d)]
    if k == 'NegConst': return [('Un', 'USub'), ('Const', d)]
    if k in BOOL: return _inter(('Bool', k), ws)
    if k in UNARY: return [('Un', k)] + cat
    if k in BINARY: return _inter(('Bin', k), ws)
    if k == 'Compare':
        out = list(ws[0])
        for o, w in zip(d, ws[1:]): out += [('Cmp', o)] + w
        return out
    if k == 'IfExp': return ws[0] + [('If', None)] + ws[1] + [('Else', None)] + ws[2]
    if k == 'Lambda': return [('Lambda', list(d))] + cat
    if k == 'Attribute': return cat + [('Dot', d)]
    if k == 'Call': return ws[0] + [('LP', None)] + _inter(('Comma', None), ws[1:]) + [('RP', None)]
    if k == 'Subscript': return ws[0] + [('LB', None)] + ws[1] + [('RB', None)]
    if k == 'Tuple':
        if len(ws) == 1: return [('LP', None)] + ws[0] + [('Trail', None), ('RP', None)]
        return [('LP', None)] + _inter(('Comma', None), ws) + [('RP', None)]
    if k == 'List': return [('LB', None)] + _inter(('Comma', None), ws) + [('RB', None)]
    if k == 'IdxTuple':
        if short_idx and len(ws) == 0: return [('LP', None), ('RP', None)]
        if short_idx and len(ws) == 1: return ws[0] + [('Trail', None)]
        return _inter(('Comma', None), ws)
    if k in ('StarArg', 'StarElt'): return [('Star', None)] + cat
    if k == 'Keyword': return ([('DStar', None)] if d is None else [('Kw', d)]) + cat
    if k == 'Slice':
        it = iter(ws); out = []
        if d[0]: out += next(it)
        out.append(('Colon', None))
        if d[1]: out += next(it)
        if d[2]: out += [('Colon', None)] + next(it)
        return out
    if k == 'Joined':
        out = [('FBegin', None), ('FLit', d[0])]
        for w, lit in zip(ws, d[1:]): out += w + [('FLit', lit)]
        return out + [('FEnd', None)]
    if k == 'Formatted':
        return [('FOpen', None)] + cat + [('FClose', (d[0], d[1] if keep_spec else None))]
    raise ValueError(k)


def render(toks, esc):
    """Mirror of Coq `render`: the text of a token list. esc: re-escape braces in f-string literal segments."""
    out = []
    for tag, p in toks:
        if tag in ('Name', 'Const'): out.append(p)
        elif tag == 'Bool': out.append(' or ' if p == 'Or' else ' and ')
        elif tag == 'Un': out.append(UNSYM[p])
        elif tag == 'Bin': out.append(' %s ' % BINSYM[p])
        elif tag == 'Cmp': out.append(' %s ' % CMPSYM[p])
        elif tag == 'If': out.append(' if ')
        elif tag == 'Else': out.append(' else ')
        elif tag == 'Lambda': out.append('lambda %s: ' % ', '.join(p))
        elif tag == 'Dot': out.append('.' + p)
        elif tag == 'LP': out.append('(')
        elif tag == 'RP': out.append(')')
        elif tag == 'LB': out.append('[')
        elif tag == 'RB': out.append(']')
        elif tag == 'Comma': out.append(', ')
        elif tag == 'Trail': out.append(',')
        elif tag == 'Colon': out.append(':')
        elif tag == 'Star': out.append('*')
        elif tag == 'DStar': out.append('**')
        elif tag == 'Kw': out.append(p + '=')
        elif tag == 'FBegin': out.append("f'")
        elif tag == 'FEnd': out.append("'")
        elif tag == 'FLit': out.append(p.replace('{', '{{').replace('}', '}}') if esc else p)
        elif tag == 'FOpen': out.append('{')
        elif tag == 'FClose':
            out.append(('' if p[0] is None else '!' + p[0]) + ('' if p[1] is None else ':' + p[1]) + '}')
        else: raise ValueError(tag)
    return ''.join(out)


# ------------------------------------------------------------------------------------------------ well-formedness (mirror of Coq wf)

def has_kind(t, ks):
    return t[0] in ks or any(has_kind(c, ks) for c in t[2])


def quote_free(t):
    """no string constant / nested f-string below (the renderer's fixed f'...' quoting is only right then)"""
    if t[0] == 'Joined': return False
    if t[0] == 'Const' and t[1][:1] in '\'"bBrRuU': return False
    return all(quote_free(c) for c in t[2])


def wf(t, parse_model=True):
    """Arity and context constraints of the Coq predicate `wf` (parse_model: also the restriction under which the Coq parser theorem
    is stated: no NegConst).  Text-level restrictions of the generated universe (not part of Coq's wf, which is about tokens): no lambda and no
    string constant inside an f-string field, no integer literal as receiver of .attr / call / subscript (lexical: `1.real`; the code
    parenthesises such receivers since 2e38fbd, the token model does not know integer literals from other constants)."""
    k, d, cs = t
    n = len(cs)
    if k in OTHER_KINDS:          # known to the marking model only
        if parse_model: return False
        shape = {'Dict': n % 2 == 0, 'Set': n >= 1, 'Gen': d is not None and n == sum(1 + x[1] for x in d) + 1}[k]
        return shape and all(wf(c, parse_model) for c in cs)
    ar = {'Name': n == 0, 'Const': n == 0, 'NegConst': n == 0 and not parse_model, 'Or': n >= 2, 'And': n >= 2, 'IfExp': n == 3,
          'Call': n >= 1, 'Subscript': n == 2, 'Tuple': True, 'List': True, 'IdxTuple': True,
          'Compare': n >= 2 and d is not None and len(d) == n - 1, 'Lambda': n == 1, 'Attribute': n == 1, 'Keyword': n == 1,
          'StarArg': n == 1, 'StarElt': n == 1, 'Formatted': n == 1}
    if k in UNARY: ok = n == 1
    elif k in BINARY: ok = n == 2
    elif k == 'Slice': ok = n == sum(1 for b in d if b)
    elif k == 'Joined': ok = len(d) == n + 1
    else: ok = ar[k]
    if not ok: return False
    for i, c in enumerate(cs):
        if not allowed(k, pos_of(k, i), c[0]): return False
        if not wf(c, parse_model): return False
    if k == 'Call':
        seen_kw = False
        for c in cs[1:]:
            if c[0] == 'Keyword': seen_kw = True
            elif seen_kw: return False
    if k == 'Formatted' and (has_kind(cs[0], {'Lambda'}) or not quote_free(cs[0])): return False
    if k in ('Attribute', 'Call', 'Subscript') and cs[0][0] == 'Const' and cs[0][1].isdigit(): return False      # lexical, see above
    return True


# ------------------------------------------------------------------------------------------------ generator

NAMES = ['a', 'b', 'c', 'd', 'e']
ATTRS = ['p', 'q', 'r']
KWNAMES = ['k', 'j']
LITCHARS = 'xyz ,.-=+<>#%()[]'


class Gen(object):
    """Random well-formed trees. Every choice comes from the rng handed in."""
    def __init__(self, rng, negconst=False, invert=True, short_idx=True, fstr=True, braces=False, specs=True, lam=True, strconst=True):
        self.rng = rng; self.negconst = negconst; self.invert = invert; self.short_idx = short_idx
        self.fstr = fstr; self.braces = braces; self.specs = specs; self.lam = lam; self.strconst = strconst

    def atom(self, infield=False):
        r = self.rng
        x = r.random()
        if x < 0.62: return ('Name', r.choice(NAMES), [])
        if x < 0.9 or infield or not self.strconst: return ('Const', repr(r.choice([0, 1, 2, 3, 7])), [])
        return ('Const', repr(r.choice(['s', 'tu', ''])), [])

    def expr(self, depth, infield=False):
        r = self.rng
        if depth <= 0 or r.random() < 0.12:
            if self.negconst and r.random() < 0.15: return ('NegConst', repr(r.choice([1, 2, 5])), [])
            return self.atom(infield)
        sub = lambda: self.expr(depth - 1, infield)
        groups = ['bin', 'bin', 'bin', 'un', 'bool', 'cmp', 'ifexp', 'attr', 'call', 'sub', 'tuple', 'list', 'pow']
        if self.lam and not infield: groups.append('lambda')
        if self.fstr and not infield: groups.append('fstr')
        g = r.choice(groups)
        if g == 'bin': return (r.choice(BINARY), None, [sub(), sub()])
        if g == 'pow': return ('Pow', None, [sub(), sub()])
        if g == 'un':
            ks = UNARY if self.invert else ['Not', 'USub', 'UAdd']
            return (r.choice(ks), None, [sub()])
        if g == 'bool': return (r.choice(BOOL), None, [sub() for _ in range(r.choice([2, 2, 3]))])
        if g == 'cmp':
            n = r.choice([1, 1, 2])
            return ('Compare', [r.choice(CMPOPS) for _ in range(n)], [sub() for _ in range(n + 1)])
        if g == 'ifexp': return ('IfExp', None, [sub(), sub(), sub()])
        if g == 'lambda': return ('Lambda', r.sample(['u', 'v'], r.choice([0, 1, 2])), [sub()])
        if g == 'attr': return ('Attribute', r.choice(ATTRS), [self.receiver(sub())])
        if g == 'call':
            args = []
            for _ in range(r.choice([0, 1, 1, 2])):
                args.append(('StarArg', None, [sub()]) if r.random() < 0.15 else sub())
            for kw in r.sample(KWNAMES, r.choice([0, 0, 1, 2])):
                args.append(('Keyword', kw, [sub()]))
            if r.random() < 0.1: args.append(('Keyword', None, [sub()]))
            return ('Call', None, [self.receiver(sub())] + args)
        if g == 'sub':
            x = r.random()
            if x < 0.5:
                s = sub()
                if s[0] == 'Tuple': s = self.atom(infield)
            elif x < 0.8: s = self.slice(depth, infield)
            else:
                n = r.choice([0, 1, 2, 2, 3]) if self.short_idx else r.choice([2, 2, 3])
                s = ('IdxTuple', None, [self.slice(depth, infield) if r.random() < 0.25 else sub() for _ in range(n)])
            return ('Subscript', None, [self.receiver(sub()), s])
        if g in ('tuple', 'list'):
            n = r.choice([0, 1, 2, 2, 3])
            return ('Tuple' if g == 'tuple' else 'List', None, [('StarElt', None, [sub()]) if r.random() < 0.12 else sub() for _ in range(n)])
        if g == 'fstr':
            n = r.choice([0, 1, 1, 2])
            lits = [self.lit() for _ in range(n + 1)]
            fields = []
            for _ in range(n):
                conv = r.choice([None, None, 'r', 's', 'a'])
                spec = r.choice([None, None, None, '>3', '<4', '', '05']) if self.specs else None
                fields.append(('Formatted', (conv, spec), [self.expr(depth - 1, True)]))
            return ('Joined', lits, fields)
        raise ValueError(g)

    def receiver(self, v):
        if v[0] == 'Const' and v[1].isdigit(): return ('Name', self.rng.choice(NAMES), [])      # an integer literal receiver is a lexical matter
        return v

    def lit(self):
        r = self.rng
        n = r.choice([0, 0, 1, 2, 3])
        alphabet = LITCHARS + ('{}{}' if self.braces else '')
        return ''.join(r.choice(alphabet) for _ in range(n))

    def slice(self, depth, infield):
        r = self.rng
        d = (r.random() < 0.6, r.random() < 0.6, r.random() < 0.3)
        return ('Slice', d, [self.expr(depth - 1, infield) for b in d if b])


def minimal(kind, fill=None):
    """A smallest well-formed tree of the given kind (atoms as children); fill(i) supplies the i-th child."""
    at = lambda i: ('Name', NAMES[i % len(NAMES)], [])
    fill = fill or at
    n = {'Or': 2, 'And': 2, 'Compare': 2, 'IfExp': 3, 'Call': 2, 'Subscript': 2, 'Tuple': 2, 'List': 2, 'IdxTuple': 2}.get(kind)
    if kind in ('Name',): return ('Name', 'n', [])
    if kind == 'Const': return ('Const', '7', [])
    if kind == 'NegConst': return ('NegConst', '7', [])
    if kind in BINARY: n = 2
    if n is None: n = 1
    cs = [fill(i) for i in range(n)]
    d = None
    if kind == 'Compare': d = ['Lt']
    if kind == 'Lambda': d = ['u']
    if kind == 'Attribute': d = 'p'
    if kind == 'Keyword': d = 'k'
    if kind == 'Slice': d = (True, False, False)
    if kind == 'Joined': return ('Joined', ['x', 'y'], [('Formatted', (None, None), [fill(0)])])
    if kind == 'Formatted': d = (None, None)
    return (kind, d, cs)


def context_for(p, i, child):
    """A well-formed tree with `child` at position class i of a parent of kind p (item parents get their own enclosing node)."""
    names = iter(['g', 'h', 'm', 'n'])
    def other(): return ('Name', next(names), [])
    if p == 'IfExp': cs = [other(), other(), other()]; cs[i] = child; t = ('IfExp', None, cs)
    elif p in BINARY: cs = [other(), other()]; cs[i] = child; t = (p, None, cs)
    elif p in BOOL: t = (p, None, [child, other()]) if i == 0 else None
    elif p in UNARY: t = (p, None, [child])
    elif p == 'Compare': t = ('Compare', ['Lt'], [child, other()])
    elif p == 'Lambda': t = ('Lambda', ['u'], [child])
    elif p == 'Attribute': t = ('Attribute', 'p', [child])
    elif p == 'Call': t = ('Call', None, [child, other()] if i == 0 else [other(), child])
    elif p == 'Subscript': t = ('Subscript', None, [child, other()] if i == 0 else [other(), child])
    elif p in ('Tuple', 'List'): t = (p, None, [child, other()])
    elif p == 'IdxTuple': t = ('Subscript', None, [other(), ('IdxTuple', None, [child, other()])])
    elif p == 'StarArg': t = ('Call', None, [other(), ('StarArg', None, [child])])
    elif p == 'StarElt': t = ('List', None, [('StarElt', None, [child]), other()])
    elif p == 'Keyword': t = ('Call', None, [other(), ('Keyword', 'k', [child])])
    elif p == 'Slice': t = ('Subscript', None, [other(), ('Slice', (True, True, False), [child, other()])])
    elif p == 'Joined': t = ('Joined', ['x', 'y'], [child])
    elif p == 'Formatted': t = ('Joined', ['x', 'y'], [('Formatted', (None, None), [child])])
    else: t = None
    return t


def variants_for(p, i, child):
    """Several contexts for the same triple: the child first / in the middle / last where the parent is n-ary."""
    out = []
    t = context_for(p, i, child)
    if t is not None: out.append(t)
    o = lambda s: ('Name', s, [])
    if p in BOOL: out += [(p, None, [o('g'), child]), (p, None, [o('g'), child, o('h')])]
    if p == 'Compare': out += [('Compare', ['Lt'], [o('g'), child]), ('Compare', ['Eq', 'In'], [o('g'), child, o('h')])]
    if p == 'Call' and i == 1: out += [('Call', None, [o('g'), child])]
    if p in ('Tuple', 'List'): out += [(p, None, [child]), (p, None, [o('g'), child])]
    if p == 'Slice':
        out += [('Subscript', None, [o('g'), ('Slice', (False, True, False), [child])]),
                ('Subscript', None, [o('g'), ('Slice', (True, False, True), [o('h'), child])]),
                ('Subscript', None, [o('g'), ('Slice', (True, True, True), [o('h'), child, o('m')])])]
    if p == 'IdxTuple': out += [('Subscript', None, [o('g'), ('IdxTuple', None, [o('h'), child])])]
    return out


# ------------------------------------------------------------------------------------------------ Coq literals

def cstr(s):
    return '[' + ';'.join(str(ord(c)) for c in s) + ']'


def coq_label(k, d):
    if k == 'Name': return '(LName %s)' % cstr(d)
    if k == 'Const': return '(LConst %s)' % cstr(d)
    if k == 'NegConst': return '(LNegConst %s)' % cstr(d)
    if k == 'Compare': return '(LCompare [%s])' % ';'.join('C' + o for o in d)
    if k == 'Lambda': return '(LLambda [%s])' % ';'.join(cstr(a) for a in d)
    if k == 'Attribute': return '(LAttribute %s)' % cstr(d)
    if k == 'Keyword': return '(LKeyword %s)' % ('None' if d is None else '(Some %s)' % cstr(d))
    if k == 'Slice': return '(LSlice %s %s %s)' % tuple('true' if b else 'false' for b in d)
    if k == 'Joined': return '(LJoined [%s])' % ';'.join(cstr(x) for x in d)
    if k == 'Dict': return 'LDict'
    if k == 'Set': return 'LSet'
    if k == 'Gen': return '(LGen [%s])' % ';'.join('([%s], %d%%nat)' % (';'.join(cstr(x) for x in names), nifs) for names, nifs in d)
    if k == 'Formatted':
        return '(LFormatted %s %s)' % ('None' if d[0] is None else '(Some %d)' % ord(d[0]), 'None' if d[1] is None else '(Some %s)' % cstr(d[1]))
    return '(LOp K%s)' % k


def coq_expr(t):
    k, d, cs = t
    return '(Node %s [%s])' % (coq_label(k, d), ';'.join(coq_expr(c) for c in cs))


def tree_json(t):
    return json.dumps(t, sort_keys=True)


def tree_from_json(j):
    """JSON round trip turns tuples into lists; restore the tuple shape."""
    k, d, cs = j
    if k == 'Gen': d = [(list(a), b) for a, b in d]
    if k == 'Slice': d = tuple(d)
    if k == 'Formatted': d = tuple(d)
    return (k, d, [tree_from_json(c) for c in cs])


class IntGen(object):
    """Random trees whose value in a scope of small ints is (usually) an int or a short string: the external expressions of the
    end-to-end route.  Receivers, conditional expressions, lambdas, f-strings with specs and braces are all in the mix."""
    def __init__(self, rng):
        self.rng = rng

    def atom(self):
        r = self.rng
        if r.random() < 0.7: return ('Name', r.choice(NAMES), [])
        return ('Const', repr(r.choice([0, 1, 2, 3])), [])

    def test(self, depth):
        r = self.rng
        x = r.random()
        if x < 0.5: return ('Compare', [r.choice(['Lt', 'LtE', 'Eq', 'NotEq', 'Gt'])], [self.expr(depth - 1), self.expr(depth - 1)])
        if x < 0.7: return ('Not', None, [self.expr(depth - 1)])
        return self.expr(depth - 1)

    def expr(self, depth):
        r = self.rng
        if depth <= 0 or r.random() < 0.15: return self.atom()
        sub = lambda: self.expr(depth - 1)
        g = r.choice(['arith', 'arith', 'arith', 'bit', 'un', 'pow', 'bool', 'ifexp', 'ifexp', 'attr', 'method', 'index', 'lamcall', 'func'])
        if g == 'arith': return (r.choice(['Add', 'Sub', 'Mult', 'FloorDiv', 'Mod']), None, [sub(), sub()])
        if g == 'bit': return (r.choice(['BitOr', 'BitXor', 'BitAnd', 'LShift']), None, [sub(), ('Const', repr(r.choice([0, 1, 2])), []) if r.random() < 0.5 else sub()])
        if g == 'un': return (r.choice(['USub', 'UAdd']), None, [sub()])
        if g == 'pow': return ('Pow', None, [sub(), r.choice([('Const', '2', []), ('Const', '3', []), ('Name', 'b', []), ('Pow', None, [('Name', 'b', []), ('Const', '2', [])])])])
        if g == 'bool': return (r.choice(BOOL), None, [sub(), sub()])
        if g == 'ifexp': return ('IfExp', None, [sub(), self.test(depth), sub()])
        if g == 'attr': return ('Attribute', r.choice(['real', 'numerator']), [self.nonliteral(sub())])
        if g == 'method': return ('Call', None, [('Attribute', r.choice(['bit_length', '__abs__', '__neg__']), [self.nonliteral(sub())])])
        if g == 'index':
            disp = (r.choice(['List', 'Tuple']), None, [sub(), sub(), sub()])
            x = r.random()
            if x < 0.6: return ('Subscript', None, [disp, ('Const', repr(r.choice([0, 1, 2])), [])])
            if x < 0.8: return ('Subscript', None, [('Subscript', None, [disp, ('Slice', (True, False, False), [('Const', '1', [])])]), ('Const', '0', [])])
            return ('Subscript', None, [disp, ('USub', None, [('Const', '1', [])])])
        if g == 'lamcall': return ('Call', None, [('Lambda', ['u'], [('Add', None, [('Name', 'u', []), sub()])]), sub()])
        if g == 'func': return ('Call', None, [('Name', r.choice(['abs', 'len']), []), sub()]) if r.random() < 0.5 else \
                               ('Call', None, [('Name', 'len', []), self.fstr(depth)])
        raise ValueError(g)

    def nonliteral(self, t):
        if t[0] == 'Const' and t[1].isdigit(): return ('Name', self.rng.choice(NAMES), [])
        return t

    def fstr(self, depth):
        r = self.rng
        n = r.choice([1, 1, 2])
        lits = [r.choice(['', '', 'x', '{', '}', '{y}', '-']) for _ in range(n + 1)]
        fields = [('Formatted', (r.choice([None, None, 'r', 's']), r.choice([None, '>3', '<4', '04'])), [self.quotefree(self.expr(depth - 1))]) for _ in range(n)]
        return ('Joined', lits, fields)

    def quotefree(self, t):
        return t if quote_free(t) and not has_kind(t, {'Lambda'}) else self.atom()

    def top(self, depth):
        """an expression for the query route: int-valued, or an f-string compared with the string column"""
        if self.rng.random() < 0.12: return self.fstr(depth)
        return self.expr(depth)


class FragGen(object):
    """Typed random trees inside the fragment of coq/Model/C04Eval.v (integers, strings, tuples), with an occasional type error;
    used to validate that semantics against CPython."""
    SCOPE = {'a': 2, 'b': 0, 'c': -3, 'd': 'Jo', 'e': '', 'g': (1, 'x'), 'h': ()}
    BYTYPE = {'int': ['a', 'b', 'c'], 'str': ['d', 'e'], 'tup': ['g', 'h']}

    def __init__(self, rng): self.rng = rng; self.confused = False

    def gen(self, ty, depth):
        r = self.rng
        if r.random() < 0.04:
            ty = r.choice(['int', 'str', 'tup']); self.confused = True     # a deliberate type confusion now and then (str * int is Python, but not in the fragment)
        if depth <= 0 or r.random() < 0.2:
            if r.random() < 0.6: return ('Name', r.choice(self.BYTYPE[ty]), [])
            if ty == 'int': return ('Const', repr(r.choice([0, 1, 2, 7, 10])), [])
            if ty == 'str': return ('Const', repr(r.choice(['', 'x', 'Jo', 'ab c'])), [])
            return ('Tuple', None, [self.gen(r.choice(['int', 'str']), depth - 1) for _ in range(r.choice([0, 1, 2]))])
        sub = lambda t=ty: self.gen(t, depth - 1)
        anyt = lambda: r.choice(['int', 'str', 'tup'])
        opts = ['add', 'ifexp', 'bool', 'index']
        if ty == 'int': opts += ['sub', 'mult', 'usub', 'not', 'cmp', 'cmp']
        if ty == 'tup': opts += ['tuple', 'tuple']
        g = r.choice(opts)
        if g == 'add': return ('Add', None, [sub(), sub()])
        if g == 'sub': return ('Sub', None, [sub(), sub()])
        if g == 'mult': return ('Mult', None, [sub(), sub()])
        if g == 'usub': return ('USub', None, [sub()])
        if g == 'not': return ('Not', None, [sub(anyt())])
        if g == 'ifexp': return ('IfExp', None, [sub(), sub(anyt()), sub()])
        if g == 'bool': return (r.choice(BOOL), None, [sub() for _ in range(r.choice([2, 3]))])
        if g == 'tuple': return ('Tuple', None, [sub(anyt()) for _ in range(r.choice([0, 1, 2, 3]))])
        if g == 'index':
            if ty == 'str': return ('Subscript', None, [sub('str'), self.gen('int', depth - 1)])
            elts = [sub(ty) for _ in range(r.choice([1, 2, 3]))]
            return ('Subscript', None, [('Tuple', None, elts), self.gen('int', depth - 1)])
        if g == 'cmp':
            t = r.choice(['int', 'str']) if r.random() < 0.8 else 'tup'
            n = r.choice([1, 1, 2])
            ops = [r.choice(['Eq', 'NotEq'] if t == 'tup' else ['Eq', 'NotEq', 'Lt', 'LtE', 'Gt', 'GtE']) for _ in range(n)]
            return ('Compare', ops, [sub(t) for _ in range(n + 1)])
        raise ValueError(g)


def coq_pyv(v):
    if isinstance(v, bool): return '(VInt %d)' % int(v)
    if isinstance(v, int): return '(VInt (%d))' % v
    if isinstance(v, str): return '(VStr %s)' % cstr(v)
    if isinstance(v, tuple): return '(VTuple [%s])' % ';'.join(coq_pyv(x) for x in v)
    raise Unmodelled(type(v).__name__)


def coq_env(scope):
    arms = ' '.join('else if str_eqb s %s then Some %s' % (cstr(k), coq_pyv(v)) for k, v in sorted(scope.items()))
    return '(fun s : str => if false then None %s else None)' % arms
