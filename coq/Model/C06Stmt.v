(* C06: the placeholders of a statement as SQLBuilder renders them (param_str is translated from Param.__str__),
   and small helpers for the correspondence run.  Definitions only. *)
Require Import PonyV.Base.PyBase PonyV.Model.C06Str PonyV.Model.C06Lex PonyV.Model.C06Params PonyV.Gen.C06Quote.

(* the placeholder tokens of a statement whose PARAM nodes carry `keys`, in text order *)
Definition placeholders (st : paramstyle) (keys : list key) : list ptok := map (param_str st) (ids_of keys).

(* what the server reads back from a literal Pony wrote (per style: after the driver's %-step where there is one) *)
Definition server_lex (st : paramstyle) (t : str) : option str :=
  match server_text st t with Some t' => lex_std t' | None => None end.

Definition quote_char_of (mysql : bool) : Z := if mysql then 96 else 34.

(* boolean comparisons for the correspondence run *)
Definition args_eqb (a b : dbargs Z) : bool :=
  match a, b with
  | ATuple x, ATuple y => list_eqb Z.eqb x y
  | ADict x, ADict y => list_eqb (pair_eqb Z.eqb Z.eqb) x y
  | ANone, ANone => true
  | _, _ => false
  end.

(* the dict a Python dict comprehension builds from pairs in order: first insertion fixes the position, last value wins *)
Fixpoint dict_norm_go (seen : list Z) (kvs all : list (Z * Z)) : list (Z * Z) :=
  match kvs with
  | [] => []
  | (k, _) :: r =>
      if existsb (Z.eqb k) seen then dict_norm_go seen r all
      else match dict_get k all with
           | Some v => (k, v) :: dict_norm_go (k :: seen) r all
           | None => dict_norm_go seen r all
           end
  end.
Definition dict_norm (kvs : list (Z * Z)) : list (Z * Z) := dict_norm_go [] kvs kvs.

Definition args_norm (a : dbargs Z) : dbargs Z :=
  match a with ADict kvs => ADict (dict_norm kvs) | x => x end.
