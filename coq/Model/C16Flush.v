(* C16 - flush emits writes in an order the database accepts: executable model (definitions only).
   SessionCache.flush: remove_m2m for the removed link rows, then obj._save_() for every object of objects_to_save in queue order
   (Entity._save_principal_objects_ first saves, recursively, every referenced object that is still 'created'; the list
   dependent_objects is shared by the whole recursion and detects cycles), then add_m2m for the added link rows.
   The database checks foreign keys immediately, statement by statement (SQLite's default for Pony's schemas). *)
From Coq Require Import List Bool Arith Lia.
Import ListNotations.

Definition oid := nat.

Inductive status := Created | Modified | Deleted.

(* a pending object: for Created the foreign-key columns of the row to insert, for Modified the changed foreign-key columns
   (those with a write bit), each with its new value; rows are identified by the object handle (one id space for all tables) *)
Record obj := mkobj { o_id : oid; o_st : status; o_cols : list (nat * option oid) }.

Definition targets_of (cols : list (nat * option oid)) : list oid :=
  flat_map (fun c => match snd c with Some t => [t] | None => [] end) cols.
Definition targets (ob : obj) : list oid := targets_of (o_cols ob).

Inductive stmt :=
| SInsert (o : oid) (cols : list (nat * option oid))
| SUpdate (o : oid) (cols : list (nat * option oid))
| SDelete (o : oid)
| SLinkIns (x y : oid)
| SLinkDel (x y : oid).

(* ------------------------------------------------------------------------------------------------ the database *)
Record db := mkdb { rows : list (oid * list (nat * option oid)); lnk : list (oid * oid) }.

Definition has_row (d : db) (o : oid) : bool := existsb (fun r => Nat.eqb (fst r) o) (rows d).
Definition points_to (o : oid) (cols : list (nat * option oid)) : bool :=
  existsb (fun c => match snd c with Some t => Nat.eqb t o | None => false end) cols.
(* The referential action generate_mapping declares for a column is part of the column id: odd ids are ON DELETE SET NULL columns
   (optional references), even ids have no action the model relies on (NO ACTION; CASCADE is treated as NO ACTION: conservative). *)
Definition setnull_col (c : nat) : bool := Nat.odd c.
Definition hard_points_to (o : oid) (cols : list (nat * option oid)) : bool :=
  existsb (fun c => negb (setnull_col (fst c)) && match snd c with Some t => Nat.eqb t o | None => false end) cols.
(* rows other than o itself that hold o in a column without SET NULL *)
Definition referenced (d : db) (o : oid) : bool :=
  existsb (fun r => negb (Nat.eqb (fst r) o) && hard_points_to o (snd r)) (rows d).
(* ON DELETE SET NULL applied to one row *)
Definition null_refs (o : oid) (cols : list (nat * option oid)) : list (nat * option oid) :=
  map (fun c => match snd c with Some t => if Nat.eqb t o && setnull_col (fst c) then (fst c, None) else c | None => c end) cols.

Definition set_cols (old new : list (nat * option oid)) : list (nat * option oid) :=
  new ++ filter (fun c => negb (existsb (fun n => Nat.eqb (fst n) (fst c)) new)) old.

(* one statement under immediate foreign-key enforcement; None = IntegrityError *)
Definition exec (d : db) (s : stmt) : option db :=
  match s with
  | SInsert o cols =>
      if has_row d o then None
      else if forallb (fun t => has_row d t || Nat.eqb t o) (targets_of cols) then Some (mkdb ((o, cols) :: rows d) (lnk d)) else None
  | SUpdate o cols =>
      if negb (has_row d o) then None
      else if forallb (has_row d) (targets_of cols)
           then Some (mkdb (map (fun r => if Nat.eqb (fst r) o then (o, set_cols (snd r) cols) else r) (rows d)) (lnk d))
           else None
  | SDelete o =>
      if referenced d o then None          (* a remaining reference through a column without SET NULL: IntegrityError *)
      else Some (mkdb (map (fun r => (fst r, null_refs o (snd r))) (filter (fun r => negb (Nat.eqb (fst r) o)) (rows d)))
                      (filter (fun l => negb (Nat.eqb (fst l) o || Nat.eqb (snd l) o)) (lnk d)))     (* link tables: ON DELETE CASCADE *)
  | SLinkIns x y => if has_row d x && has_row d y then Some (mkdb (rows d) ((x, y) :: lnk d)) else None
  | SLinkDel x y => Some (mkdb (rows d) (filter (fun l => negb (Nat.eqb (fst l) x && Nat.eqb (snd l) y)) (lnk d)))
  end.

Fixpoint exec_all (d : db) (ss : list stmt) : option db :=
  match ss with
  | [] => Some d
  | s :: ss' => match exec d s with Some d' => exec_all d' ss' | None => None end
  end.

(* ------------------------------------------------------------------------------------------------ flush *)
Definition lookup (q : list obj) (o : oid) : option obj := find (fun ob => Nat.eqb (o_id ob) o) q.
Definition drop (q : list obj) (o : oid) : list obj := filter (fun ob => negb (Nat.eqb (o_id ob) o)) q.
Definition is_created (q : list obj) (o : oid) : bool :=
  match lookup q o with Some ob => match o_st ob with Created => true | _ => false end | None => false end.
Definition mem (o : oid) (l : list oid) : bool := existsb (Nat.eqb o) l.

Inductive res :=
| ROk (q : list obj) (out : list stmt) (deps : list oid)      (* remaining queue, statements so far, dependent_objects *)
| RCycle (chain : list oid)                                   (* UnresolvableCyclicDependency *)
| RFuel.

(* Entity._save_principal_objects_: for every referenced object that is still 'created': val._save_(dependent_objects) *)
Fixpoint principals (sv : oid -> list obj -> list stmt -> list oid -> res) (ts : list oid)
                    (q : list obj) (out : list stmt) (deps : list oid) : res :=
  match ts with
  | [] => ROk q out deps
  | t :: ts' =>
      if is_created q t
      then match sv t q out deps with
           | ROk q' out' deps' => principals sv ts' q' out' deps'
           | e => e
           end
      else principals sv ts' q out deps
  end.

(* obj._save_(dependent_objects) *)
Fixpoint save (fuel : nat) (o : oid) (q : list obj) (out : list stmt) (deps : list oid) : res :=
  match fuel with
  | O => RFuel
  | S f =>
      match lookup q o with
      | None => ROk q out deps
      | Some ob =>
          match o_st ob with
          | Deleted => ROk (drop q o) (out ++ [SDelete o]) deps
          | st =>
              if mem o deps then RCycle (deps ++ [o]) else
              match principals (save f) (targets ob) q out (deps ++ [o]) with
              | ROk q' out' deps' =>
                  ROk (drop q' o) (out' ++ [match st with Created => SInsert o (o_cols ob) | _ => SUpdate o (o_cols ob) end]) deps'
              | e => e
              end
          end
      end
  end.

(* for obj in cache.objects_to_save: if obj is not None: obj._save_()   (saved objects leave the queue) *)
Fixpoint save_all (n : nat) (fuel : nat) (q : list obj) (out : list stmt) : res :=
  match n with
  | O => match q with [] => ROk q out [] | _ => RFuel end
  | S n' =>
      match q with
      | [] => ROk q out []
      | ob :: _ => match save fuel (o_id ob) q out [] with
                   | ROk q' out' _ => save_all n' fuel q' out'
                   | e => e
                   end
      end
  end.

Record pending := mkpending { p_queue : list obj; p_added : list (oid * oid); p_removed : list (oid * oid) }.

Inductive flush_result := FOk (ss : list stmt) | FCycle (chain : list oid) | FFuel.

Definition flush (p : pending) : flush_result :=
  let n := length (p_queue p) in
  match save_all n (S n) (p_queue p) (map (fun l => SLinkDel (fst l) (snd l)) (p_removed p)) with
  | ROk _ out _ => FOk (out ++ map (fun l => SLinkIns (fst l) (snd l)) (p_added p))
  | RCycle c => FCycle c
  | RFuel => FFuel
  end.

(* commit: the statements run in one transaction; an error (cycle, or a rejected statement) rolls everything back *)
Definition commit (d : db) (p : pending) : db * bool :=
  match flush p with
  | FOk ss => match exec_all d ss with Some d' => (d', true) | None => (d, false) end
  | _ => (d, false)
  end.

(* ------------------------------------------------------------------------------------------------ well-formed pending sets *)
Definition pending_st (q : list obj) (o : oid) : option status := option_map o_st (lookup q o).

(* the new value of every changed column that held d is something else *)
Definition overrides (row new : list (nat * option oid)) (d : oid) : bool :=
  forallb (fun c => match snd c with
                    | Some t => if Nat.eqb t d then existsb (fun n => Nat.eqb (fst n) (fst c)) new else true
                    | None => true end) row
  && negb (points_to d new).

(* position of the first object with this id *)
Fixpoint before (q : list obj) (r d : oid) : bool :=
  match q with
  | [] => false
  | ob :: q' => if Nat.eqb (o_id ob) d then false else if Nat.eqb (o_id ob) r then true else before q' r d
  end.

Definition wf_obj (d : db) (q : list obj) (ob : obj) : bool :=
  match o_st ob with
  | Created => negb (has_row d (o_id ob))
               && forallb (fun t => (has_row d t || is_created q t) && negb (Nat.eqb t (o_id ob))
                                    && negb (match pending_st q t with Some Deleted => true | _ => false end)) (targets ob)
  | Modified => has_row d (o_id ob)
                && forallb (fun t => (has_row d t || is_created q t)
                                     && negb (match pending_st q t with Some Deleted => true | _ => false end)) (targets ob)
  | Deleted => has_row d (o_id ob)
               && forallb (fun r => negb (negb (Nat.eqb (fst r) (o_id ob)) && hard_points_to (o_id ob) (snd r))
                                    || (before q (fst r) (o_id ob)
                                        && match lookup q (fst r) with
                                           | Some rb => match o_st rb with
                                                        | Deleted => true
                                                        | Modified => overrides (snd r) (o_cols rb) (o_id ob)
                                                        | Created => false end
                                           | None => false end)) (rows d)
  end.

Fixpoint nodup_ids (q : list obj) : bool :=
  match q with [] => true | ob :: q' => negb (existsb (fun x => Nat.eqb (o_id x) (o_id ob)) q') && nodup_ids q' end.

(* objects_to_save may hold the same object more than once (Entity._delete_ re-queues an object that a nested call has queued as
   'modified' in between): entries with the same id must be the same record.  lookup finds the first slot, drop empties all of them,
   exactly as _save_ runs at the first slot and the later slot has become None by the time the loop reaches it. *)
Definition status_eqb (a b : status) : bool :=
  match a, b with Created, Created | Modified, Modified | Deleted, Deleted => true | _, _ => false end.
Definition col_eqb (a b : nat * option oid) : bool :=
  Nat.eqb (fst a) (fst b) && match snd a, snd b with Some x, Some y => Nat.eqb x y | None, None => true | _, _ => false end.
Fixpoint cols_eqb (a b : list (nat * option oid)) : bool :=
  match a, b with [], [] => true | x :: a', y :: b' => col_eqb x y && cols_eqb a' b' | _, _ => false end.
Definition obj_eqb (a b : obj) : bool := Nat.eqb (o_id a) (o_id b) && status_eqb (o_st a) (o_st b) && cols_eqb (o_cols a) (o_cols b).
Fixpoint coherent_ids (q : list obj) : bool :=
  match q with
  | [] => true
  | ob :: q' => forallb (fun x => negb (Nat.eqb (o_id x) (o_id ob)) || obj_eqb x ob) q' && coherent_ids q'
  end.

Definition wf_links (d : db) (p : pending) : bool :=
  forallb (fun l => (has_row d (fst l) || is_created (p_queue p) (fst l)) && (has_row d (snd l) || is_created (p_queue p) (snd l))
                    && negb (match pending_st (p_queue p) (fst l) with Some Deleted => true | _ => false end)
                    && negb (match pending_st (p_queue p) (snd l) with Some Deleted => true | _ => false end)) (p_added p).

Definition wf_pending (d : db) (p : pending) : bool :=
  coherent_ids (p_queue p) && forallb (wf_obj d (p_queue p)) (p_queue p) && wf_links d p
  && nodup_ids (map (fun r => mkobj (fst r) Created []) (rows d)).

(* the references between new objects can be ordered: a rank that decreases along every reference to a 'created' object *)
Definition ranked (q : list obj) (rank : oid -> nat) : Prop :=
  forall ob t, In ob q -> o_st ob = Created -> In t (targets ob) -> is_created q t = true -> rank t < rank (o_id ob).
