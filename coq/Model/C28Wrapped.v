(* C28 - the link between the model's operations (Model/C28Tracked.v) and the method tables that tools/c28_scan.py
   regenerates on every run (Gen/Mutators.v): which of the model's methods does the Tracked* class wrap?  Definitions only. *)
From Coq Require Import String List Bool.
Require Import PonyV.Model.C28Tracked PonyV.Gen.Mutators.
#[local] Open Scope string_scope.
Import ListNotations.

Definition mname_str (m : mname) : string :=
  match m with
  | MLSetItem => "__setitem__" | MLDelItem => "__delitem__" | MLAppend => "append" | MLExtend => "extend"
  | MLInsert => "insert" | MLPop => "pop" | MLRemove => "remove" | MLReverse => "reverse" | MLSort => "sort"
  | MLClear => "clear" | MLIAdd => "__iadd__" | MLIMul => "__imul__"
  | MDSetItem => "__setitem__" | MDDelItem => "__delitem__" | MDUpdate => "update" | MDSetDefault => "setdefault"
  | MDPop => "pop" | MDPopItem => "popitem" | MDClear => "clear" | MDIOr => "__ior__"
  end.

Definition is_list_m (m : mname) : bool :=
  match m with
  | MLSetItem | MLDelItem | MLAppend | MLExtend | MLInsert | MLPop | MLRemove | MLReverse | MLSort | MLClear | MLIAdd | MLIMul => true
  | _ => false
  end.

Definition all_mnames : list mname :=
  [MLSetItem; MLDelItem; MLAppend; MLExtend; MLInsert; MLPop; MLRemove; MLReverse; MLSort; MLClear; MLIAdd; MLIMul;
   MDSetItem; MDDelItem; MDUpdate; MDSetDefault; MDPop; MDPopItem; MDClear; MDIOr].

Definition smem (s : string) (l : list string) : bool := existsb (String.eqb s) l.

(* the instance of the parameter [wr] of Model/C28Tracked.v for the code in /repo *)
Definition wr_gen (m : mname) : bool :=
  smem (mname_str m) (if is_list_m m then tracked_list_wrapped else tracked_dict_wrapped).

(* TrackedArray: the list methods as TrackedArray exposes them *)
Definition wr_gen_array (m : mname) : bool := is_list_m m && smem (mname_str m) tracked_array_wrapped.

(* the operators that fix f0ecc86 added to the Tracked* classes (named for C28_operators_wrapped) *)
Definition n_iadd : string := "__iadd__".
Definition n_imul : string := "__imul__".
Definition n_ior : string := "__ior__".

(* every CPython mutator name has an operation in the model (or is the constructor, which the Tracked* classes replace) *)
Definition modelled_list_names : list string := map mname_str (filter is_list_m all_mnames).
Definition modelled_dict_names : list string := map mname_str (filter (fun m => negb (is_list_m m)) all_mnames).

Definition covered_list (s : string) : bool := smem s tracked_list_wrapped || smem s tracked_list_overridden.
Definition covered_dict (s : string) : bool := smem s tracked_dict_wrapped || smem s tracked_dict_overridden.
Definition covered_array (s : string) : bool := smem s tracked_array_wrapped || smem s tracked_array_overridden.
