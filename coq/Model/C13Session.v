(* C13 - executable model of the modification paths of pony/orm/core.py with their undo protocol:
   Attribute.__set__ (direct and as reverse call), Attribute.update_reverse, Set.__set__, Set.reverse_add / reverse_remove,
   SetInstance.add / remove, Entity.__init__, Entity._delete_ (recursive, with fuel), Entity.set,
   SessionCache.update_simple_index / update_composite_index, and the part of flush/commit that resets the session bookkeeping.
   What the code forgets to undo is modelled as written (unlogged writes) and marks the run with a `taint` naming the code site.
   Model only (no proofs).  World: one db_session; all attribute values loaded; integer scalars; explicit integer primary key
   (attribute 0); no inheritance. *)
From Coq Require Import ZArith NArith List Bool Lia.
Import ListNotations.
Require Import PonyV.Model.C13Heap.

Inductive akind := KPk | KInt | KRef | KSet.

Record attr := mkattr {
  a_kind : akind;
  a_required : bool;
  a_unique : bool;        (* unique=True scalar: a simple key *)
  a_hasbit : bool;        (* obj._bits_[attr] != 0 : the attribute has a column of its own *)
  a_target : nat;         (* entity of the other side *)
  a_reverse : nat;        (* attribute index of the other side, in a_target *)
  a_cascade : bool        (* attr.cascade_delete as computed by Attribute.linked *)
}.

Record entity := mkent {
  e_attrs : list attr;
  e_skeys : list nat;            (* entity._simple_keys_ *)
  e_ckeys : list (list nat)      (* entity._composite_keys_ *)
}.

Definition schema := list entity.

Definition dummy_attr := mkattr KInt false false false 0 0 false.
Definition get_ent (sch : schema) (e : nat) : entity := nth e sch (mkent [] [] []).
Definition get_attr (sch : schema) (e a : nat) : attr := nth a (e_attrs (get_ent sch e)) dummy_attr.

Inductive arg := AInt (z : Z) | ANone | AObj (h : oid) | AObjs (hs : list oid) | AForeign | ADefault.

Inductive op :=
| ONew (e : nat) (pk : Z) (kw : list (nat * arg))
| OSet (h : oid) (a : nat) (x : arg)
| OSetMany (h : oid) (kw : list (nat * arg))
| ODelete (h : oid)
| OAdd (h : oid) (a : nat) (hs : list oid)
| ORemove (h : oid) (a : nat) (hs : list oid)
| OCommit.

Definition is_none (v : value) : bool := match v with VNone => true | _ => false end.
Definition is_del (st : status) : bool := match st with SMarked | SDeleted | SCancelled => true | _ => false end.
Definition mem (x : oid) (l : list oid) : bool := existsb (Nat.eqb x) l.
Definition minus (a b : list oid) : list oid := filter (fun x => negb (mem x b)) a.
Definition union (a b : list oid) : list oid := a ++ minus b a.
Definition bit_of (a : nat) : N := N.shiftl 1 (N.of_nat a).
Definition is_empty {A} (l : list A) : bool := match l with [] => true | _ => false end.

Definition in_ckey (a : nat) (ck : list nat) : bool := existsb (Nat.eqb a) ck.
Definition part_of_unique (en : entity) (a : nat) (at_ : attr) : bool := a_unique at_ || existsb (in_ckey a) (e_ckeys en).

(* key of object o for an index spec, with attribute a read as v *)
Definition key_with (s : state) (o : oid) (spec : list nat) (a : nat) (v : value) : list value :=
  map (fun b => if Nat.eqb b a then v else g_val s o b) spec.
Definition key_of (s : state) (o : oid) (spec : list nat) : list value := map (g_val s o) spec.
Definition has_none (k : list value) : bool := existsb is_none k.
Definition key_eqb := list_eqb value_eqb.

Definition set_writes (f : oid -> loc) (n : nat) (l : list oid) : list (loc * cell) :=
  map (fun x => (f x, CBool (mem x l))) (seq 0 n).

Definition fuel0 : nat := 64.

Section Model.
Variable sch : schema.
Variable flt : option (nat * nat).     (* injected fault: (site, k) *)

Definition get : M state := gets (fun s => s).

(* writes together with the closure that restores what the written locations held *)
Definition logged_writes (w : list (loc * cell)) : M unit :=
  s <- get ;; block w (map (fun lx => UW (fst lx) (s (fst lx))) w).

(* ------------------------------------------------------------------------------------------------
   SessionCache.update_simple_index / update_composite_index (one function: a simple key is a spec of length 1).
   The writes and the entries appended to the caller's `undo` list form one block. *)
Definition update_index (o e : nat) (spec : list nat) (prev new : list value) : M unit :=
  tick_idx flt ;;;
  let prevN := has_none prev in
  let newN := has_none new in
  if (prevN && newN) || key_eqb prev new then ret tt else
  s <- get ;;
  match (if newN then None else g_idx s e spec new) with
  | Some o2 =>
      if Nat.eqb o2 o then add_taint TInconsistent ;;; fail EAssert        (* a stale entry of the object itself: not reachable from consistent states *)
      else fail ECacheIndex
  | None =>
      let w1 := if newN then [] else [(LIdx e spec new, CObj (Some o))] in
      let u1 := if newN then [] else [UW (LIdx e spec new) (CObj None)] in
      if prevN then
        block w1 u1
      else
        match g_idx s e spec prev with
        | Some o3 =>
            if Nat.eqb o3 o then
              let w := w1 ++ [(LIdx e spec prev, CObj None)] in
              let u := u1 ++ [UW (LIdx e spec prev) (CObj (Some o))] in
              block w u
            else add_taint TInconsistent ;;; writes (w1 ++ [(LIdx e spec prev, CObj None)])      (* `del` removes somebody else's entry *)
        | None => add_taint TInconsistent ;;; writes w1 ;;; fail EKey                            (* del cache_index[old]: KeyError *)
        end
  end.

(* the index updates of Attribute.__set__ for attribute a changing from old to new (values of the other attributes from the state) *)
Definition attr_index_updates (o e a : nat) (old new : value) : M unit :=
  let en := get_ent sch e in
  let at_ := get_attr sch e a in
  (if a_unique at_ then update_index o e [a] [old] [new] else ret tt) ;;;
  iterM (fun ck => if in_ckey a ck
                   then s <- get ;; update_index o e ck (key_with s o ck a old) (key_with s o ck a new)
                   else ret tt) (e_ckeys en).

(* Attribute.__set__, first half: write bits, status, save queue, the value; append the closure that restores them *)
Definition touch (o a : nat) (newv : value) : M unit :=
  s <- get ;;
  let at_ := get_attr sch (g_cls s o) a in
  let st0 := g_status s o in
  let wb0 := g_wbits s o in
  let old := g_val s o a in
  match wb0, a_hasbit at_ with
  | Some w, true =>
      let w' := N.lor w (bit_of a) in
      if status_eqb st0 SModified then
        block [(LWbits o, CBits (Some w')); (LVal o a, CVal newv)]
              [UW (LStatus o) (CStatus st0); UW (LWbits o) (CBits wb0); UW (LVal o a) (CVal old)]
      else
        match st0, g_savepos s o with
        | SInserted, None | SUpdated, None =>
            let q := g_queue s in
            block [(LWbits o, CBits (Some w')); (LStatus o, CStatus SModified); (LSavePos o, CPos (Some (length q)));
                   (LQueue, CQueue (q ++ [Some o])); (LVal o a, CVal newv)]
                  [UW (LStatus o) (CStatus st0); UW (LWbits o) (CBits wb0); UQPop o; UW (LSavePos o) (CPos None); UW (LVal o a) (CVal old)]
        | _, _ => add_taint TInconsistent ;;; fail EAssert
        end
  | _, _ =>
      block [(LVal o a, CVal newv)] [UW (LStatus o) (CStatus st0); UW (LWbits o) (CBits wb0); UW (LVal o a) (CVal old)]
  end.

(* ------------------------------------------------------------------------------------------------ Set.reverse_add / reverse_remove
   (attribute ra of entity re; `objs` are the owners of the collections, `item` the object added to / removed from each) *)
Definition reverse_add (re ra : nat) (objs : list oid) (item : oid) : M unit :=
  tick_radd flt ;;;
  s <- get ;;
  (* for obj in objects: if obj._status_ in del_statuses: throw_object_was_deleted(obj)   -- before any mutation *)
  if existsb (fun ob => is_del (g_status s ob)) objs then fail EDeleted else
  if existsb (fun ob => g_bool s (LItem ob ra item) || g_bool s (LAdded ob ra item)) objs
  then add_taint TInconsistent ;;; fail EAssert
  else
    block (flat_map (fun ob => [(LItem ob ra item, CBool true);
                                (if g_bool s (LRemoved ob ra item) then (LRemoved ob ra item, CBool false) else (LAdded ob ra item, CBool true));
                                (LMod re ra ob, CBool true)]) objs)
          (flat_map (fun ob => [UW (LItem ob ra item) (CBool false);
                                (if g_bool s (LRemoved ob ra item) then UW (LRemoved ob ra item) (CBool true) else UW (LAdded ob ra item) (CBool false))]
                               ++ (if g_bool s (LMod re ra ob) then [] else [UW (LMod re ra ob) (CBool false)])) objs).

Definition reverse_remove (re ra : nat) (objs : list oid) (item : oid) : M unit :=
  s <- get ;;
  if existsb (fun ob => negb (g_bool s (LItem ob ra item)) || g_bool s (LRemoved ob ra item)) objs
  then add_taint TInconsistent ;;; fail EAssert
  else
    let in_added ob := g_bool s (LAdded ob ra item) in
    block (flat_map (fun ob => [(LMod re ra ob, CBool true); (LItem ob ra item, CBool false);
                                (if in_added ob then (LAdded ob ra item, CBool false) else (LRemoved ob ra item, CBool true))]) objs)
          (flat_map (fun ob => [UW (LItem ob ra item) (CBool true);
                                (if in_added ob then UW (LAdded ob ra item) (CBool true) else UW (LRemoved ob ra item) (CBool false))]
                               ++ (if g_bool s (LMod re ra ob) then [] else [UW (LMod re ra ob) (CBool false)])) objs).

(* ------------------------------------------------------------------------------------------------ Attribute.__set__ as a reverse call
   x.r := newv on behalf of the other side.  `inner y a` = reverse.__set__(y, None, undo_funcs) one level further down. *)
Definition attr_set_rev_gen (inner : oid -> nat -> M unit) (x r : nat) (newv : value) : M unit :=
  s <- get ;;
  guard (negb (is_del (g_status s x))) EDeleted ;;;
  let e := g_cls s x in
  let at_ := get_attr sch e r in
  guard (negb (is_none newv && a_required at_)) EValue ;;;
  let old := g_val s x r in
  touch x r newv ;;;
  if value_eqb old newv then ret tt else
  attr_index_updates x e r old newv ;;;
  match old with
  | VRef oldo =>
      let ta := get_attr sch (a_target at_) (a_reverse at_) in
      match a_kind ta with
      | KSet => reverse_remove (a_target at_) (a_reverse at_) [oldo] x
      | _ => if is_none newv then ret tt
             else if a_required ta then fail EConstraint
             else inner oldo (a_reverse at_)
      end
  | _ => ret tt
  end.

Definition attr_set_rev0 (x r : nat) (newv : value) : M unit := attr_set_rev_gen (fun _ _ => fail EFuel) x r newv.
Definition attr_set_rev (x r : nat) (newv : value) : M unit := attr_set_rev_gen (fun y a => attr_set_rev0 y a VNone) x r newv.

(* ------------------------------------------------------------------------------------------------ Attribute.update_reverse *)
Definition update_reverse (del : oid -> M unit) (o e a : nat) (old new : value) : M unit :=
  let at_ := get_attr sch e a in
  let te := a_target at_ in
  let ra := a_reverse at_ in
  let rt := get_attr sch te ra in
  match a_kind rt with
  | KSet =>
      (match old with VRef x => reverse_remove te ra [x] o | _ => ret tt end) ;;;
      (match new with VRef y => reverse_add te ra [y] o | _ => ret tt end)
  | _ =>
      (match old with
       | VRef x => if a_cascade at_ then del x
                   else if a_required rt then fail EConstraint
                   else attr_set_rev x ra VNone
       | _ => ret tt end) ;;;
      (match new with VRef y => attr_set_rev y ra (VRef o) | _ => ret tt end)
  end.

(* ------------------------------------------------------------------------------------------------ Set.__set__ *)
(* the bookkeeping after the try block (as a reverse call it registers a closure that restores the SetData and modified_collections): items := new; added / removed as the code computes them (repo 83f8eb8: the locals
   are kept in sync; repo 11753a1: for a one-to-many collection the removals were already recorded by reverse_remove through the items) *)
Definition set_tail (direct : bool) (m2m : bool) (o e a : nat) (newl to_add to_remove : list oid) : M unit :=
  s <- get ;;
  let n := g_next s in
  let A := members s (LAdded o a) in
  let R := members s (LRemoved o a) in
  let A1 := if is_empty to_add then A else union A (minus to_add R) in
  let R1 := if is_empty to_add then R else minus R to_add in
  let A2 := if m2m && negb (is_empty to_remove) then minus A1 to_remove else A1 in
  let R2 := if m2m && negb (is_empty to_remove) then union R1 (minus to_remove A1) else R1 in
  (if direct then writes else logged_writes)
    (set_writes (LItem o a) n newl ++ set_writes (LAdded o a) n A2 ++ set_writes (LRemoved o a) n R2 ++ [(LMod e a o, CBool true)]).

Definition set_set (del : oid -> M unit) (direct : bool) (o e a : nat) (newl : list oid) : M unit :=
  s <- get ;;
  let items := members s (LItem o a) in
  let to_add := minus newl items in
  let to_remove := minus items newl in
  if is_empty to_add && is_empty to_remove then ret tt else
  let at_ := get_attr sch e a in
  let te := a_target at_ in
  let ra := a_reverse at_ in
  let rt := get_attr sch te ra in
  (match a_kind rt with
   | KSet => reverse_remove te ra to_remove o ;;; reverse_add te ra to_add o
   | _ => (if a_cascade at_ then iterM del to_remove else iterM (fun x => attr_set_rev x ra VNone) to_remove) ;;;
          iterM (fun x => attr_set_rev x ra (VRef o)) to_add
   end) ;;;
  set_tail direct (match a_kind rt with KSet => true | _ => false end) o e a newl to_add to_remove.

(* ------------------------------------------------------------------------------------------------ Entity._delete_ *)
Definition key_specs (en : entity) : list (list nat) := map (fun a => [a]) (e_skeys en) ++ e_ckeys en.

(* the final step of _delete_ and its closure, registered together (so closures and queue pops stay in LIFO order).  st0 / sp are the
   status and _save_pos_ read when the call started (the code branches on them), pst / psp what they are now (a nested call may have put
   the object on the queue): the closure restores the latter. *)
Definition del_finish (o e : nat) (st0 : status) (sp : option nat) : M unit :=
  s <- get ;;
  let en := get_ent sch e in
  let keys := filter (fun sk => negb (has_none (snd sk))) (map (fun spec => (spec, key_of s o spec)) (key_specs en)) in
  if negb (forallb (fun sk => opt_eqb Nat.eqb (g_idx s e (fst sk) (snd sk)) (Some o)) keys)
  then add_taint TInconsistent ;;; fail EKey else
  let idxw := map (fun sk => (LIdx e (fst sk) (snd sk), CObj None)) keys in
  let idxu := map (fun sk => UW (LIdx e (fst sk) (snd sk)) (CObj (Some o))) keys in
  let q := g_queue s in
  let pst := g_status s o in
  let psp := g_savepos s o in
  match st0 with
  | SCreated =>
      let pk := [g_val s o 0] in
      match sp with
      | Some i =>
          if opt_eqb (opt_eqb Nat.eqb) (nth_error q i) (Some (Some o)) && opt_eqb Nat.eqb (g_idx s e [0] pk) (Some o) then
            block (idxw ++ [(LQueue, CQueue (set_nth q i None)); (LSavePos o, CPos None); (LStatus o, CStatus SCancelled); (LIdx e [0] pk, CObj None)])
                  ([UDelQueue o (Some i) psp; UW (LStatus o) (CStatus pst)] ++ idxu ++ [UW (LIdx e [0] pk) (CObj (Some o))])
          else add_taint TInconsistent ;;; fail EAssert
      | None => add_taint TInconsistent ;;; fail EAssert
      end
  | _ =>
      let hole := match st0, sp with
                  | SModified, Some i => if opt_eqb (opt_eqb Nat.eqb) (nth_error q i) (Some (Some o)) then Some (set_nth q i None) else None
                  | SModified, None => None
                  | _, None => Some q
                  | _, Some _ => None
                  end in
      match hole with
      | None => add_taint TInconsistent ;;; fail EAssert
      | Some q1 =>
          block (idxw ++ [(LQueue, CQueue (q1 ++ [Some o])); (LSavePos o, CPos (Some (length q1))); (LStatus o, CStatus SMarked)])
                ([UDelQueue o sp psp; UW (LStatus o) (CStatus pst)] ++ idxu)
      end
  end.

Definition set_attr_ids (en : entity) : list nat :=
  map fst (filter (fun p => match a_kind (snd p) with KSet => true | _ => false end) (combine (seq 0 (length (e_attrs en))) (e_attrs en))).
Definition ref_attr_ids (en : entity) : list nat :=
  map fst (filter (fun p => match a_kind (snd p) with KRef => true | _ => false end) (combine (seq 0 (length (e_attrs en))) (e_attrs en))).

Definition del_coll (del : oid -> M unit) (o e a : nat) : M unit :=
  s <- get ;;
  let at_ := get_attr sch e a in
  let rt := get_attr sch (a_target at_) (a_reverse at_) in
  let its := members s (LItem o a) in
  if is_empty its then ret tt
  else if a_cascade at_ then iterM del its
  else if negb (a_required rt) then set_set del false o e a []
  else fail EConstraint.

Definition del_ref (del : oid -> M unit) (o e a : nat) : M unit :=
  s <- get ;;
  let at_ := get_attr sch e a in
  let rt := get_attr sch (a_target at_) (a_reverse at_) in
  match g_val s o a with
  | VRef v =>
      match a_kind rt with
      | KSet => reverse_remove (a_target at_) (a_reverse at_) [v] o
      | _ => if a_cascade at_ then del v
             else if negb (a_required rt) then attr_set_rev v (a_reverse at_) VNone
             else fail EConstraint
      end
  | _ => ret tt
  end.

Fixpoint delete (fuel : nat) (o : oid) : M unit :=
  match fuel with
  | O => fail EFuel
  | S f =>
      s <- get ;;
      let st0 := g_status s o in
      if is_del st0 then ret tt else
      let sp := g_savepos s o in
      let e := g_cls s o in
      let en := get_ent sch e in
      iterM (del_coll (delete f) o e) (set_attr_ids en) ;;;
      iterM (del_ref (delete f) o e) (ref_attr_ids en) ;;;
      del_finish o e st0 sp
  end.

Definition del_top : oid -> M unit := delete fuel0.

(* ------------------------------------------------------------------------------------------------ argument validation *)
Definition validate (at_ : attr) (x : arg) : M value :=
  match x with
  | AForeign => fail ETransaction
  | ANone | ADefault => if a_required at_ then fail EValue else ret VNone
  | AInt z => match a_kind at_ with KInt | KPk => ret (VInt z) | _ => fail EType end
  | AObj h => match a_kind at_ with KRef => ret (VRef h) | _ => fail EType end
  | AObjs _ => fail EType
  end.

Definition validate_set (x : arg) : M (list oid) :=
  match x with
  | AObjs hs => ret hs
  | ADefault => ret []
  | AForeign => fail ETransaction
  | _ => fail EType
  end.

Definition is_set_attr (at_ : attr) : bool := match a_kind at_ with KSet => true | _ => false end.
Definition has_reverse (at_ : attr) : bool := match a_kind at_ with KRef | KSet => true | _ => false end.

(* status / wbits / objects_to_save part shared by the plain path of Attribute.__set__ and by Entity.set: returns the writes *)
Definition bits_writes (force : bool) (s : state) (o : oid) (mask : N) : option (list (loc * cell)) :=
  match g_wbits s o with
  | None => Some []
  | Some w =>
      if N.eqb mask 0 && negb force then Some [] else     (* Attribute.__set__ tests `and bit`; Entity.set does not *)
      let wb := [(LWbits o, CBits (Some (N.lor w mask)))] in
      if status_eqb (g_status s o) SModified then Some wb
      else match g_status s o, g_savepos s o with
           | SInserted, None | SUpdated, None =>
               let q := g_queue s in
               Some (wb ++ [(LStatus o, CStatus SModified); (LSavePos o, CPos (Some (length q))); (LQueue, CQueue (q ++ [Some o]))])
           | _, _ => None
           end
  end.

(* ------------------------------------------------------------------------------------------------ setattr(obj, name, value) *)
Definition op_set (o a : nat) (x : arg) : M unit :=
  s <- get ;;
  guard (negb (is_del (g_status s o))) EDeleted ;;;
  let e := g_cls s o in
  let en := get_ent sch e in
  let at_ := get_attr sch e a in
  if is_set_attr at_ then
    newl <- validate_set x ;;
    set_set del_top true o e a newl
  else
    v <- validate at_ x ;;
    let old := g_val s o a in
    if negb (has_reverse at_) && negb (part_of_unique en a at_) then
      match bits_writes false s o (if a_hasbit at_ then bit_of a else 0%N) with
      | Some w => writes (w ++ [(LVal o a, CVal v)])
      | None => add_taint TInconsistent ;;; fail EAssert
      end
    else
      touch o a v ;;;
      if value_eqb old v then ret tt else
      attr_index_updates o e a old v ;;;
      if has_reverse at_ then update_reverse del_top o e a old v else ret tt.

(* ------------------------------------------------------------------------------------------------ SetInstance.add / remove *)
Definition op_add (o a : nat) (hs : list oid) : M unit :=
  s <- get ;;
  guard (negb (is_del (g_status s o))) EDeleted ;;;
  let e := g_cls s o in
  let at_ := get_attr sch e a in
  if is_empty hs then ret tt else
  let new := minus hs (members s (LItem o a)) in
  let te := a_target at_ in
  let ra := a_reverse at_ in
  let rt := get_attr sch te ra in
  (match a_kind rt with
   | KSet => reverse_add te ra new o
   | _ => iterM (fun x => attr_set_rev x ra (VRef o)) new
   end) ;;;
  s2 <- get ;;
  let n := g_next s2 in
  let A := members s2 (LAdded o a) in
  let R := members s2 (LRemoved o a) in
  let new' := if is_empty R then new else minus new R in
  let Rfin := if is_empty R then R else minus R new in
  writes (set_writes (LItem o a) n (union (members s2 (LItem o a)) new) ++ set_writes (LAdded o a) n (union A new')
          ++ set_writes (LRemoved o a) n Rfin ++ [(LMod e a o, CBool true)]).

Definition op_remove (o a : nat) (hs : list oid) : M unit :=
  s <- get ;;
  guard (negb (is_del (g_status s o))) EDeleted ;;;
  let e := g_cls s o in
  let at_ := get_attr sch e a in
  let R0 := members s (LRemoved o a) in
  let hs1 := if is_empty R0 then hs else minus hs R0 in
  if is_empty hs1 then ret tt else
  let its := filter (fun x => g_bool s (LItem o a x)) hs1 in
  let te := a_target at_ in
  let ra := a_reverse at_ in
  let rt := get_attr sch te ra in
  match a_kind rt with
  | KSet =>
      reverse_remove te ra its o ;;;
      s2 <- get ;;
      let n := g_next s2 in
      let A := members s2 (LAdded o a) in
      let R := members s2 (LRemoved o a) in
      let its' := if is_empty A then its else minus its A in
      let Afin := if is_empty A then A else minus A its in
      writes (set_writes (LItem o a) n (minus (members s2 (LItem o a)) its) ++ set_writes (LAdded o a) n Afin
              ++ set_writes (LRemoved o a) n (union R its') ++ [(LMod e a o, CBool true)])
  | _ =>
      (* one-to-many: reverse_remove, called through the items, has already updated this SetData (repo 11753a1) *)
      if a_cascade at_ then iterM del_top its else iterM (fun x => attr_set_rev x ra VNone) its
  end.

(* ------------------------------------------------------------------------------------------------ Entity.set with keyword arguments *)
Fixpoint validate_kw (e : nat) (kw : list (nat * arg)) : M (list (nat * value) * list (nat * list oid)) :=
  match kw with
  | [] => ret ([], [])
  | (a, x) :: kw' =>
      let at_ := get_attr sch e a in
      if is_set_attr at_ then
        l <- validate_set x ;; r <- validate_kw e kw' ;; ret (fst r, (a, l) :: snd r)
      else
        v <- validate at_ x ;; r <- validate_kw e kw' ;; ret ((a, v) :: fst r, snd r)
  end.

Definition lookup {A} (a : nat) (l : list (nat * A)) : option A :=
  match find (fun p => Nat.eqb (fst p) a) l with Some p => Some (snd p) | None => None end.

Definition key_with_many (s : state) (o : oid) (spec : list nat) (av : list (nat * value)) : list value :=
  map (fun b => match lookup b av with Some v => v | None => g_val s o b end) spec.

(* status / _wbits_ / objects_to_save of Entity.set with its undo_func (registered first, so undone last; repo cd0fda9):
   the queue is popped only if this call queued the object *)
Definition set_touch (o : oid) (mask : N) (has_av : bool) : M unit :=
  s <- get ;;
  let st0 := g_status s o in
  let wb0 := g_wbits s o in
  match wb0, has_av with
  | Some w, true =>
      let w' := N.lor w mask in
      if status_eqb st0 SModified then
        block [(LWbits o, CBits (Some w'))] [UW (LStatus o) (CStatus st0); UW (LWbits o) (CBits wb0)]
      else
        match st0, g_savepos s o with
        | SInserted, None | SUpdated, None =>
            let q := g_queue s in
            block [(LWbits o, CBits (Some w')); (LStatus o, CStatus SModified); (LSavePos o, CPos (Some (length q))); (LQueue, CQueue (q ++ [Some o]))]
                  [UW (LStatus o) (CStatus st0); UW (LWbits o) (CBits wb0); UQPop o; UW (LSavePos o) (CPos None)]
        | _, _ => add_taint TInconsistent ;;; fail EAssert
        end
  | _, _ => block [] [UW (LStatus o) (CStatus st0); UW (LWbits o) (CBits wb0)]
  end.

Definition op_setmany (o : nat) (kw : list (nat * arg)) : M unit :=
  s <- get ;;
  guard (negb (is_del (g_status s o))) EDeleted ;;;
  let e := g_cls s o in
  let en := get_ent sch e in
  r <- validate_kw e kw ;;
  let avdict := fst r in
  let colls := snd r in
  let mask := fold_left (fun m p => if a_hasbit (get_attr sch e (fst p)) then N.lor m (bit_of (fst p)) else m) avdict 0%N in
  if negb (is_empty avdict) && is_empty colls
     && negb (existsb (fun p => let at_ := get_attr sch e (fst p) in has_reverse at_ || part_of_unique en (fst p) at_) avdict)
  then
    (* only plain attributes: nothing can fail any more *)
    match bits_writes true s o mask with
    | Some w => writes (w ++ map (fun p => (LVal o (fst p), CVal (snd p))) avdict)
    | None => add_taint TInconsistent ;;; fail EAssert
    end
  else
    set_touch o mask (negb (is_empty avdict)) ;;;
    let av := filter (fun p => negb (value_eqb (snd p) (g_val s o (fst p)))) avdict in
    iterM (fun a => match lookup a av with
                    | Some v => update_index o e [a] [g_val s o a] [v]
                    | None => ret tt end) (e_skeys en) ;;;
    iterM (fun ck => if existsb (fun p => in_ckey (fst p) ck) av
                     then update_index o e ck (key_of s o ck) (key_with_many s o ck av)
                     else ret tt) (e_ckeys en) ;;;
    iterM (fun p => if has_reverse (get_attr sch e (fst p)) then update_reverse del_top o e (fst p) (g_val s o (fst p)) (snd p) else ret tt) av ;;;
    iterM (fun p => set_set del_top false o e (fst p) (snd p)) colls ;;;
    writes (map (fun p => (LVal o (fst p), CVal (snd p))) av).

(* ------------------------------------------------------------------------------------------------ Entity.__init__ *)
(* a write to the new object's own fields: the half-built object is unreachable after a failed constructor, so these are
   treated as undone (the allocation itself is not observable) *)
Definition own (l : loc) (c : cell) : M unit :=
  s <- get ;; block [(l, c)] [UW l (s l)].

Fixpoint validate_all (e : nat) (attrs : list attr) (j : nat) (kw : list (nat * arg)) : M (list (nat * value) * list (nat * list oid)) :=
  match attrs with
  | [] => ret ([], [])
  | at_ :: rest =>
      let x := match lookup j kw with Some x => x | None => ADefault end in
      match a_kind at_ with
      | KPk => validate_all e rest (S j) kw
      | KSet => l <- validate_set x ;; r <- validate_all e rest (S j) kw ;; ret (fst r, (j, l) :: snd r)
      | _ => v <- validate at_ x ;; r <- validate_all e rest (S j) kw ;; ret ((j, v) :: fst r, snd r)
      end
  end.

Definition op_new (e : nat) (pk : Z) (kw : list (nat * arg)) : M unit :=
  s <- get ;;
  let en := get_ent sch e in
  r <- validate_all e (e_attrs en) 0 kw ;;
  let av := fst r in
  let colls := snd r in
  let valof a := match lookup a av with Some v => v | None => if Nat.eqb a 0 then VInt pk else VNone end in
  let keys := filter (fun sk => negb (has_none (snd sk))) (map (fun spec => (spec, map valof spec)) (key_specs en)) in
  guard (forallb (fun sk => match g_idx s e (fst sk) (snd sk) with None => true | Some _ => false end) keys) ECacheIndex ;;;
  guard (match g_idx s e [0] [VInt pk] with None => true | Some _ => false end) ECacheIndex ;;;
  let o := g_next s in
  own LNext (CNat (S o)) ;;; own (LCls o) (CNat e) ;;; own (LStatus o) (CStatus SCreated) ;;; own (LWbits o) (CBits None) ;;;
  own (LSavePos o) (CPos None) ;;; own (LVal o 0) (CVal (VInt pk)) ;;;
  own (LIdx e [0] [VInt pk]) (CObj (Some o)) ;;;      (* _get_from_identity_map_; removed again by __init__'s except clause *)
  (* for attr, val in avdict.items(): entity attribute order, collections at their own position *)
  iterM (fun j => let at_ := get_attr sch e j in
                  match a_kind at_ with
                  | KPk => ret tt
                  | KSet => match lookup j colls with
                            | Some l => set_set del_top false o e j l
                            | None => ret tt end
                  | _ => let v := valof j in
                         own (LVal o j) (CVal v) ;;;
                         if has_reverse at_ then update_reverse del_top o e j VNone v else ret tt
                  end) (seq 0 (length (e_attrs en))) ;;;
  s2 <- get ;;
  let q := g_queue s2 in
  writes (map (fun sk => (LIdx e (fst sk) (snd sk), CObj (Some o))) keys
          ++ [(LSavePos o, CPos (Some (length q))); (LQueue, CQueue (q ++ [Some o]))]).

(* ------------------------------------------------------------------------------------------------ commit (session bookkeeping only)
   SessionCache.flush: _calc_modified_m2m, saves, then the queue and modified_collections are cleared.  Only meaningful on
   states no tainted failure has touched; the SQL side is the subject of C15/C16. *)
Definition all_set_attrs : list (nat * nat) :=
  flat_map (fun ei => map (fun a => (fst ei, a)) (set_attr_ids (snd ei))) (combine (seq 0 (length sch)) sch).

Definition commit_attr (s : state) (done : list (nat * nat)) (ea : nat * nat) : state * list (nat * nat) :=
  let e := fst ea in let a := snd ea in
  let n := g_next s in
  let at_ := get_attr sch e a in
  let objs := members s (LMod e a) in
  if is_empty objs then (s, done) else
  let rt := get_attr sch (a_target at_) (a_reverse at_) in
  let reset ob s' := apply_writes (set_writes (LAdded ob a) n [] ++ set_writes (LRemoved ob a) n []) s' in
  match a_kind rt with
  | KSet =>
      if existsb (fun d => Nat.eqb (fst d) (a_target at_) && Nat.eqb (snd d) (a_reverse at_)) done
      then (fold_left (fun s' ob => reset ob s') objs s, done)      (* the skipped reverse side: added / removed are reset as well *)
      else (fold_left (fun s' ob => if status_eqb (g_status s' ob) SMarked
                                    then apply_writes (set_writes (LItem ob a) n []) (reset ob s')
                                    else reset ob s') objs s, (e, a) :: done)
  | _ => (fold_left (fun s' ob => reset ob s') objs s, done)
  end.

Definition commit_obj (s : state) (oo : option oid) : state :=
  match oo with
  | None => s
  | Some o =>
      let s1 := upd s (LSavePos o) (CPos None) in
      match g_status s o with
      | SCreated => upd (upd s1 (LStatus o) (CStatus SInserted)) (LWbits o) (CBits (Some 0%N))
      | SModified => upd (upd s1 (LStatus o) (CStatus SUpdated)) (LWbits o) (CBits (Some 0%N))
      | SMarked => upd (upd s1 (LStatus o) (CStatus SDeleted)) (LIdx (g_cls s o) [0] [g_val s o 0]) (CObj None)
      | _ => s1
      end
  end.

Definition commit (s : state) : state :=
  let s1 := fst (fold_left (fun sd ea => commit_attr (fst sd) (snd sd) ea) all_set_attrs (s, [])) in
  let s2 := fold_left commit_obj (g_queue s1) s1 in
  let n := g_next s2 in
  let s3 := fold_left (fun s' ea => apply_writes (set_writes (LMod (fst ea) (snd ea)) n []) s') all_set_attrs s2 in
  upd s3 LQueue (CQueue []).

(* ------------------------------------------------------------------------------------------------ one top-level call *)
Definition body (o : op) : M unit :=
  match o with
  | ONew e pk kw => op_new e pk kw
  | OSet h a x => op_set h a x
  | OSetMany h kw => op_setmany h kw
  | ODelete h => del_top h
  | OAdd h a hs => op_add h a hs
  | ORemove h a hs => op_remove h a hs
  | OCommit => fun c => ROk tt (set_st c (commit (c_st c)))
  end.

Record outcome := mkout { o_state : state; o_err : option err; o_taints : list taint }.

(* the except clause: `for undo_func in reversed(undo_funcs): undo_func()` (Entity.set too since repo cd0fda9).
   An assertion failing inside an undo_func replaces the original exception. *)
Definition step (s : state) (o : op) : outcome :=
  match body o (mkctx s [] [] 0 0) with
  | ROk _ c => mkout (c_st c) None (c_taint c)
  | RErr e c =>
      let '(s', ok) := replay (c_log c) (c_st c) in
      mkout s' (Some (if ok then e else EAssert)) (c_taint c)
  end.

End Model.

(* histories: fold step over (fault, op) pairs from the empty session *)
Definition run_ops (sch : schema) (ops : list (option (nat * nat) * op)) : list outcome :=
  snd (fold_left (fun acc fo => let out := step sch (fst fo) (fst acc) (snd fo) in (o_state out, snd acc ++ [out])) ops (empty, [])).
