(* C30: pony.utils.parse_expr written literally over its three regular expressions (Gen/C30Regex.v) and the regex semantics of
   Model/C30Regex.v -- the loop structure, lastindex tests, `pos` arithmetic and bracket counter of the Python source.
   Proofs/C30RegexParseProofs.v shows it equal to the scanner model parse_expr_rest.  Definitions only. *)
Require Import PonyV.Base.PyBase PonyV.Model.C06Str PonyV.Model.C30Scan PonyV.Model.C30Regex PonyV.Gen.C30Regex.

Section ParseRe.
Variable is_w : Z -> bool.
Variable is_sp : Z -> bool.

(* x = match.group() compared with the one-character strings `open` / `close`: only a one-character bracket match can be equal *)
Definition tok_kind (st : str) : option Z := match st with c :: _ => if is_bracket c then Some c else None | [] => None end.
(* open = match.group(3): the character in front of match.end() *)
Definition open_char (s rest : str) : Z := nth (length s - length rest - 1) s 0.

Fixpoint br_loop_re (fuel : nat) (opn cls : Z) (depth : nat) (s : str) : option str :=
  match fuel with
  | O => None
  | S f =>
      match re_search is_w is_sp expr3_re s with
      | None => None                                  (* raise ValueError() *)
      | Some (st, r) =>
          match tok_kind st with
          | Some c =>
              if c =? opn then br_loop_re f opn cls (S depth) r
              else if c =? cls then match depth with O => Some r | S d => br_loop_re f opn cls d r end
              else br_loop_re f opn cls depth r
          | None => br_loop_re f opn cls depth r
          end
      end
  end.

Fixpoint tails_re (fuel : nat) (s : str) : option str :=
  match fuel with
  | O => None
  | S f =>
      match re_match is_w is_sp expr2_re s with
      | None => Some s                                (* return s[start:pos] *)
      | Some (g, r) =>
          if Nat.eqb g 1 then Some r                  (* ";" - explicit end of expression *)
          else if Nat.eqb g 2 then tails_re f r       (* .identifier *)
          else let c := open_char s r in
               match br_loop_re (length r) c (closer c) 0 r with
               | Some rest => tails_re f rest
               | None => None
               end
      end
  end.

Definition parse_expr_re (s : str) : option str :=
  match re_match is_w is_sp expr1_re s with
  | None => None                                      (* raise ValueError() *)
  | Some (g, r) => if Nat.eqb g 1 then tails_re (S (length s)) r else tails_re (S (length s)) s
  end.

End ParseRe.
