(* C30: a small backtracking regular-expression matcher with the priority semantics of Python's re (leftmost alternative first,
   greedy / lazy repetition, backtracking into earlier choices), used as the SPECIFICATION of the scanner model
   Model/C30Scan.v: the three regular expressions of pony.utils.parse_expr are translated from the compiled patterns' parse
   trees on every run (Gen/C30Regex.v) and Proofs/C30RegexProofs.v shows that head1 / trailer / next_tok are exactly their
   match / search results.  Definitions only. *)
Require Import PonyV.Base.PyBase PonyV.Model.C06Str PonyV.Model.C30Scan.

(* members of a character set *)
Inductive citem : Type := CLit (c : Z) | CRange (a b : Z) | CWord | CSpace.

Inductive re : Type :=
| REps                                   (* matches the empty string *)
| RChr (neg : bool) (items : list citem) (* one character in (not in, when neg) the set: LITERAL, NOT_LITERAL, IN, ANY *)
| RSeq (a b : re)
| RAlt (a b : re)                        (* a tried first *)
| RStar (greedy : bool) (a : re)         (* a* / a*? *)
| RGroup (i : nat) (a : re).             (* capturing group number i *)

Section Match.
Variable is_w : Z -> bool.
Variable is_sp : Z -> bool.

Definition citem_match (c : Z) (i : citem) : bool :=
  match i with
  | CLit x => c =? x
  | CRange a b => (a <=? c) && (c <=? b)
  | CWord => is_w c
  | CSpace => is_sp c
  end.
Definition chr_match (neg : bool) (items : list citem) (c : Z) : bool := xorb neg (existsb (citem_match c) items).

Section Cont.
Variable A : Type.

(* rm r g s k: match r at the head of s; g = number of the group closed last (match.lastindex); k = what follows
   (continuation: receives lastindex and the remaining text; None = fail, backtrack).  The first success in priority order wins.
   A repetition only iterates while the iteration consumed something (Python stops an empty iteration as well). *)
Fixpoint rm (r : re) (g : nat) (s : str) (k : nat -> str -> option A) {struct r} : option A :=
  match r with
  | REps => k g s
  | RChr neg items => match s with c :: s' => if chr_match neg items c then k g s' else None | [] => None end
  | RSeq a b => rm a g s (fun g' s' => rm b g' s' k)
  | RAlt a b => match rm a g s k with Some x => Some x | None => rm b g s k end
  | RGroup i a => rm a g s (fun _ s' => k i s')
  | RStar greedy a =>
      (fix star (n : nat) (g : nat) (s : str) {struct n} : option A :=
         match n with
         | O => k g s
         | S n' =>
             let iter := rm a g s (fun g' s' => if (length s' <? length s)%nat then star n' g' s' else None) in
             if greedy then match iter with Some x => Some x | None => k g s end
             else match k g s with Some x => Some x | None => iter end
         end) (length s) g s
  end.
End Cont.

(* pattern.match(s, pos) for s = text from pos on: (lastindex, text after the match) *)
Definition re_match (r : re) (s : str) : option (nat * str) := rm (nat * str) r 0 s (fun g s' => Some (g, s')).

(* pattern.search(s, pos): the leftmost position where the pattern matches: (text from the start of the match, text after it) *)
Fixpoint re_search (r : re) (s : str) : option (str * str) :=
  match rm str r 0 s (fun _ s' => Some s') with
  | Some rest => Some (s, rest)
  | None => match s with [] => None | _ :: s' => re_search r s' end
  end.

End Match.
