(* C32 - hand model of SessionCache.close (pony/orm/core.py): how the objects of a session are detached, strict and
   non-strict, and of reading an attribute / a collection of a detached object.  Definitions only. *)
Require Import PonyV.Base.PyBase.

Inductive aval : Type :=
| AScalar (v : Z)                          (* a loaded value (value identifiers are assigned by the harness) *)
| AColl (items : list Z) (full : bool).    (* SetData: known items, is_fully_loaded *)

Record dobj : Type := mkobj {
  o_vals   : option (list (nat * aval));   (* obj._vals_ : attribute index -> value;  None after strict detaching *)
  o_has_db : bool;                         (* obj._dbvals_ is not None *)
  o_cache  : bool                          (* obj._session_cache_ is not None *)
}.

Fixpoint lookup (a : nat) (l : list (nat * aval)) : option aval :=
  match l with [] => None | (k, v) :: r => if Nat.eqb k a then Some v else lookup a r end.

(* non-strict: every collection that is not fully loaded is forgotten (obj._vals_[attr] = None), everything else stays *)
Definition keep (kv : nat * aval) : bool := match snd kv with AColl _ false => false | _ => true end.
Definition detach_vals (l : list (nat * aval)) : list (nat * aval) := filter keep l.

(* SessionCache.close for one object of cache.objects.  connected = (cache.connection is not None): when the session never
   touched the database, close() returns before the detaching loop and the object keeps everything (its cache is dead). *)
Definition close_obj (strict connected : bool) (o : dobj) : dobj :=
  if negb connected then o
  else if strict then mkobj None false false
  else mkobj (option_map detach_vals (o_vals o)) false false.

Inductive rd : Type := RValue (v : aval) | RSessionOver.

(* Attribute.get / SetInstance readers on a detached object: a present value is returned, anything else needs a load,
   and Attribute.load / Set.load start with the liveness guard *)
Definition read (o : dobj) (a : nat) : rd :=
  match o_vals o with
  | None => RSessionOver
  | Some l => match lookup a l with
              | Some (AScalar v) => RValue (AScalar v)
              | Some (AColl it true) => RValue (AColl it true)
              | _ => RSessionOver
              end
  end.

Fixpoint zlist_eqb (a b : list Z) : bool :=
  match a, b with [], [] => true | x :: r, y :: s => (x =? y)%Z && zlist_eqb r s | _, _ => false end.
Definition aval_eqb (a b : aval) : bool :=
  match a, b with
  | AScalar x, AScalar y => (x =? y)%Z
  | AColl i f, AColl j g => zlist_eqb i j && Bool.eqb f g
  | _, _ => false
  end.
Fixpoint vals_eqb (a b : list (nat * aval)) : bool :=
  match a, b with
  | [], [] => true
  | (k, v) :: r, (k', v') :: s => Nat.eqb k k' && aval_eqb v v' && vals_eqb r s
  | _, _ => false
  end.
Definition dobj_eqb (a b : dobj) : bool :=
  match o_vals a, o_vals b with
  | None, None => true
  | Some x, Some y => vals_eqb x y
  | _, _ => false
  end && Bool.eqb (o_has_db a) (o_has_db b) && Bool.eqb (o_cache a) (o_cache b).
