(* C22 - the translator cache key as coded and the lookup that goes with it (definitions only).

   Query.__init__:        query._key = HashableDict(code_key=code_key, vartypes=vartypes, left_join=left_join, filters=())
                          (filter()/where()/order_by() extend `filters`; vartypes = types of the external variables)
   Query._get_translator: translator = database._translator_cache.get(query_key)
                          for key, val in translator.fixed_param_values.items():
                              if val != new_vars[key]: <invalidate>; return None
                          return translator
   A translation may depend on the VALUE of some parameters (string slice bounds, getattr names): those values are not part of the
   key, they are recorded in translator.fixed_param_values and compared at every lookup. *)
From Coq Require Import List Bool.
Import ListNotations.

Section TranslatorKey.
  Variables Code VT Filt Val Tr : Type.
  Variable veqb : Val -> Val -> bool.

  Record qinput := { q_code : Code; q_vartypes : VT; q_left_join : bool; q_filters : Filt; q_vals : nat -> Val }.
  Definition qkey (i : qinput) : Code * VT * bool * Filt := (q_code i, q_vartypes i, q_left_join i, q_filters i).

  (* a cache entry: the translator and its fixed_param_values *)
  Record tentry := { e_tr : Tr; e_fixed : list (nat * Val) }.

  (* the lookup of _get_translator on the entry found under the key: None = stale (invalidated, translated again) *)
  Definition accept (e : tentry) (i : qinput) : option Tr :=
    if forallb (fun pv => veqb (snd pv) (q_vals i (fst pv))) (e_fixed e) then Some (e_tr e) else None.
End TranslatorKey.
