(* C19 / C17 / C35 - the connection / transaction / lock state machine of Pony's SQLite provider.

   Executable model (definitions only, no proofs) of, line by line:
     pony/orm/dbproviders/sqlite.py   SQLiteProvider.acquire_lock, release_lock, set_transaction_mode, commit, rollback, drop,
                                      release; SQLitePool._connect (file database)
     pony/orm/dbapiprovider.py        DBAPIProvider.connect, commit, rollback, release, drop, execute; Pool.connect, release, drop
     pony/orm/core.py                 SessionCache.connect, reconnect (SQLite: should_reconnect = False), prepare_connection_for_query_execution,
                                      flush (statement level), commit, rollback, release, close, flush_and_commit; Database._get_cache,
                                      _exec_sql, execute/select, commit, rollback, get_connection; module-level flush, commit, rollback,
                                      rollback_and_reraise, transact_reraise; DBSessionContextManager.__exit__/_commit_or_rollback;
                                      Entity.get_for_update/_find_in_db_ (transaction part)
   Every DB-API call (connect, cursor, execute, commit, rollback, close) asks the fault oracle `oracle n` (n = index of the
   call in this thread) whether it raises; a raising call is not performed.  The model's output is the trace of driver calls
   (each with the state of the provider lock and of the driver-level transaction at the time of the call), the exception
   that leaves the session, and the final lock / pool / connection bookkeeping.

   Ghost fields (never read by the modelled code): `mine` (this thread is the one that acquired provider.transaction_lock),
   `out` (the pool connection is checked out by a cache), `closed` (ids on which close() was called), `bad` (protocol violations:
   releasing an unlocked lock, self-deadlock, double release to the pool, use of a dead connection). *)
From Coq Require Import List Bool Arith Lia.
Import ListNotations.

Inductive shape := ShOpt | ShImm | ShSer | ShDdl.
(* DBSessionContextManager.__init__: immediate = immediate or ddl or serializable or not optimistic *)
Definition shape_imm (sh : shape) : bool := match sh with ShOpt => false | _ => true end.
Definition shape_ddl (sh : shape) : bool := match sh with ShDdl => true | _ => false end.

Inductive stmt := SFkOn | SCsLike | SFkGet | SFkOff | SBegin | SSelect | SWrite.
Inductive call := KConnect | KCursor | KExecute (q : stmt) | KExecMany (q : stmt) | KCommit | KRollback | KClose.

(* a driver call: what, on which connection, did it succeed, provider.transaction_lock.locked() and the driver-level
   transaction flag of the connection at the time of the call (these five are compared with the real wrapper's record);
   ghost: this thread is the lock holder, number of ORM changes not yet flushed *)
Record event : Type := Ev { e_call : call; e_con : nat; e_ok : bool; e_lock : bool; e_txn : bool; e_mine : bool; e_pend : nat }.
Definition ev5 (k : call) (id : nat) (ok lk txn : bool) : event := Ev k id ok lk txn false 0.

Inductive exn := EDb | EDrv | EAttr | ENotImpl | EUnexp | ECommit | ERollback | EBody | EAssert | EConnClosed | ERuntime.
Inductive res := Ok | Err (e : exn) | Blocked.

Inductive badness := BadReleaseUnlocked | BadStolenLock | BadSelfDeadlock | BadDoubleCheckout | BadDoubleRelease | BadDeadConn | BadLeakOnConnect.

Record st : Type := mkSt {
  lock : bool;
  mine : bool;
  p_has : bool;
  p_id : nat;
  p_fk : bool;
  p_cs : bool;
  p_txn : bool;
  p_pidset : bool;
  out : bool;
  next : nat;
  closed : list nat;
  sess : shape;
  k_reg : bool;
  k_has : bool;
  k_id : nat;
  k_intxn : bool;
  k_imm : bool;
  k_fk : bool;
  k_pending : nat;
  k_mrem : bool;
  k_madd : bool;
  k_forupd : nat;
  k_saved : bool;
  ncall : nat;
  trace : list event;
  bad : list badness
}.

Definition set_lock (v : bool) (s : st) : st := mkSt v (mine s) (p_has s) (p_id s) (p_fk s) (p_cs s) (p_txn s) (p_pidset s) (out s) (next s) (closed s) (sess s) (k_reg s) (k_has s) (k_id s) (k_intxn s) (k_imm s) (k_fk s) (k_pending s) (k_mrem s) (k_madd s) (k_forupd s) (k_saved s) (ncall s) (trace s) (bad s).
Definition set_mine (v : bool) (s : st) : st := mkSt (lock s) v (p_has s) (p_id s) (p_fk s) (p_cs s) (p_txn s) (p_pidset s) (out s) (next s) (closed s) (sess s) (k_reg s) (k_has s) (k_id s) (k_intxn s) (k_imm s) (k_fk s) (k_pending s) (k_mrem s) (k_madd s) (k_forupd s) (k_saved s) (ncall s) (trace s) (bad s).
Definition set_p_has (v : bool) (s : st) : st := mkSt (lock s) (mine s) v (p_id s) (p_fk s) (p_cs s) (p_txn s) (p_pidset s) (out s) (next s) (closed s) (sess s) (k_reg s) (k_has s) (k_id s) (k_intxn s) (k_imm s) (k_fk s) (k_pending s) (k_mrem s) (k_madd s) (k_forupd s) (k_saved s) (ncall s) (trace s) (bad s).
Definition set_p_id (v : nat) (s : st) : st := mkSt (lock s) (mine s) (p_has s) v (p_fk s) (p_cs s) (p_txn s) (p_pidset s) (out s) (next s) (closed s) (sess s) (k_reg s) (k_has s) (k_id s) (k_intxn s) (k_imm s) (k_fk s) (k_pending s) (k_mrem s) (k_madd s) (k_forupd s) (k_saved s) (ncall s) (trace s) (bad s).
Definition set_p_fk (v : bool) (s : st) : st := mkSt (lock s) (mine s) (p_has s) (p_id s) v (p_cs s) (p_txn s) (p_pidset s) (out s) (next s) (closed s) (sess s) (k_reg s) (k_has s) (k_id s) (k_intxn s) (k_imm s) (k_fk s) (k_pending s) (k_mrem s) (k_madd s) (k_forupd s) (k_saved s) (ncall s) (trace s) (bad s).
Definition set_p_cs (v : bool) (s : st) : st := mkSt (lock s) (mine s) (p_has s) (p_id s) (p_fk s) v (p_txn s) (p_pidset s) (out s) (next s) (closed s) (sess s) (k_reg s) (k_has s) (k_id s) (k_intxn s) (k_imm s) (k_fk s) (k_pending s) (k_mrem s) (k_madd s) (k_forupd s) (k_saved s) (ncall s) (trace s) (bad s).
Definition set_p_txn (v : bool) (s : st) : st := mkSt (lock s) (mine s) (p_has s) (p_id s) (p_fk s) (p_cs s) v (p_pidset s) (out s) (next s) (closed s) (sess s) (k_reg s) (k_has s) (k_id s) (k_intxn s) (k_imm s) (k_fk s) (k_pending s) (k_mrem s) (k_madd s) (k_forupd s) (k_saved s) (ncall s) (trace s) (bad s).
Definition set_p_pidset (v : bool) (s : st) : st := mkSt (lock s) (mine s) (p_has s) (p_id s) (p_fk s) (p_cs s) (p_txn s) v (out s) (next s) (closed s) (sess s) (k_reg s) (k_has s) (k_id s) (k_intxn s) (k_imm s) (k_fk s) (k_pending s) (k_mrem s) (k_madd s) (k_forupd s) (k_saved s) (ncall s) (trace s) (bad s).
Definition set_out (v : bool) (s : st) : st := mkSt (lock s) (mine s) (p_has s) (p_id s) (p_fk s) (p_cs s) (p_txn s) (p_pidset s) v (next s) (closed s) (sess s) (k_reg s) (k_has s) (k_id s) (k_intxn s) (k_imm s) (k_fk s) (k_pending s) (k_mrem s) (k_madd s) (k_forupd s) (k_saved s) (ncall s) (trace s) (bad s).
Definition set_next (v : nat) (s : st) : st := mkSt (lock s) (mine s) (p_has s) (p_id s) (p_fk s) (p_cs s) (p_txn s) (p_pidset s) (out s) v (closed s) (sess s) (k_reg s) (k_has s) (k_id s) (k_intxn s) (k_imm s) (k_fk s) (k_pending s) (k_mrem s) (k_madd s) (k_forupd s) (k_saved s) (ncall s) (trace s) (bad s).
Definition set_closed (v : list nat) (s : st) : st := mkSt (lock s) (mine s) (p_has s) (p_id s) (p_fk s) (p_cs s) (p_txn s) (p_pidset s) (out s) (next s) v (sess s) (k_reg s) (k_has s) (k_id s) (k_intxn s) (k_imm s) (k_fk s) (k_pending s) (k_mrem s) (k_madd s) (k_forupd s) (k_saved s) (ncall s) (trace s) (bad s).
Definition set_sess (v : shape) (s : st) : st := mkSt (lock s) (mine s) (p_has s) (p_id s) (p_fk s) (p_cs s) (p_txn s) (p_pidset s) (out s) (next s) (closed s) v (k_reg s) (k_has s) (k_id s) (k_intxn s) (k_imm s) (k_fk s) (k_pending s) (k_mrem s) (k_madd s) (k_forupd s) (k_saved s) (ncall s) (trace s) (bad s).
Definition set_k_reg (v : bool) (s : st) : st := mkSt (lock s) (mine s) (p_has s) (p_id s) (p_fk s) (p_cs s) (p_txn s) (p_pidset s) (out s) (next s) (closed s) (sess s) v (k_has s) (k_id s) (k_intxn s) (k_imm s) (k_fk s) (k_pending s) (k_mrem s) (k_madd s) (k_forupd s) (k_saved s) (ncall s) (trace s) (bad s).
Definition set_k_has (v : bool) (s : st) : st := mkSt (lock s) (mine s) (p_has s) (p_id s) (p_fk s) (p_cs s) (p_txn s) (p_pidset s) (out s) (next s) (closed s) (sess s) (k_reg s) v (k_id s) (k_intxn s) (k_imm s) (k_fk s) (k_pending s) (k_mrem s) (k_madd s) (k_forupd s) (k_saved s) (ncall s) (trace s) (bad s).
Definition set_k_id (v : nat) (s : st) : st := mkSt (lock s) (mine s) (p_has s) (p_id s) (p_fk s) (p_cs s) (p_txn s) (p_pidset s) (out s) (next s) (closed s) (sess s) (k_reg s) (k_has s) v (k_intxn s) (k_imm s) (k_fk s) (k_pending s) (k_mrem s) (k_madd s) (k_forupd s) (k_saved s) (ncall s) (trace s) (bad s).
Definition set_k_intxn (v : bool) (s : st) : st := mkSt (lock s) (mine s) (p_has s) (p_id s) (p_fk s) (p_cs s) (p_txn s) (p_pidset s) (out s) (next s) (closed s) (sess s) (k_reg s) (k_has s) (k_id s) v (k_imm s) (k_fk s) (k_pending s) (k_mrem s) (k_madd s) (k_forupd s) (k_saved s) (ncall s) (trace s) (bad s).
Definition set_k_imm (v : bool) (s : st) : st := mkSt (lock s) (mine s) (p_has s) (p_id s) (p_fk s) (p_cs s) (p_txn s) (p_pidset s) (out s) (next s) (closed s) (sess s) (k_reg s) (k_has s) (k_id s) (k_intxn s) v (k_fk s) (k_pending s) (k_mrem s) (k_madd s) (k_forupd s) (k_saved s) (ncall s) (trace s) (bad s).
Definition set_k_fk (v : bool) (s : st) : st := mkSt (lock s) (mine s) (p_has s) (p_id s) (p_fk s) (p_cs s) (p_txn s) (p_pidset s) (out s) (next s) (closed s) (sess s) (k_reg s) (k_has s) (k_id s) (k_intxn s) (k_imm s) v (k_pending s) (k_mrem s) (k_madd s) (k_forupd s) (k_saved s) (ncall s) (trace s) (bad s).
Definition set_k_pending (v : nat) (s : st) : st := mkSt (lock s) (mine s) (p_has s) (p_id s) (p_fk s) (p_cs s) (p_txn s) (p_pidset s) (out s) (next s) (closed s) (sess s) (k_reg s) (k_has s) (k_id s) (k_intxn s) (k_imm s) (k_fk s) v (k_mrem s) (k_madd s) (k_forupd s) (k_saved s) (ncall s) (trace s) (bad s).
Definition set_k_mrem (v : bool) (s : st) : st := mkSt (lock s) (mine s) (p_has s) (p_id s) (p_fk s) (p_cs s) (p_txn s) (p_pidset s) (out s) (next s) (closed s) (sess s) (k_reg s) (k_has s) (k_id s) (k_intxn s) (k_imm s) (k_fk s) (k_pending s) v (k_madd s) (k_forupd s) (k_saved s) (ncall s) (trace s) (bad s).
Definition set_k_madd (v : bool) (s : st) : st := mkSt (lock s) (mine s) (p_has s) (p_id s) (p_fk s) (p_cs s) (p_txn s) (p_pidset s) (out s) (next s) (closed s) (sess s) (k_reg s) (k_has s) (k_id s) (k_intxn s) (k_imm s) (k_fk s) (k_pending s) (k_mrem s) v (k_forupd s) (k_saved s) (ncall s) (trace s) (bad s).
Definition set_k_forupd (v : nat) (s : st) : st := mkSt (lock s) (mine s) (p_has s) (p_id s) (p_fk s) (p_cs s) (p_txn s) (p_pidset s) (out s) (next s) (closed s) (sess s) (k_reg s) (k_has s) (k_id s) (k_intxn s) (k_imm s) (k_fk s) (k_pending s) (k_mrem s) (k_madd s) v (k_saved s) (ncall s) (trace s) (bad s).
Definition set_k_saved (v : bool) (s : st) : st := mkSt (lock s) (mine s) (p_has s) (p_id s) (p_fk s) (p_cs s) (p_txn s) (p_pidset s) (out s) (next s) (closed s) (sess s) (k_reg s) (k_has s) (k_id s) (k_intxn s) (k_imm s) (k_fk s) (k_pending s) (k_mrem s) (k_madd s) (k_forupd s) v (ncall s) (trace s) (bad s).
Definition set_ncall (v : nat) (s : st) : st := mkSt (lock s) (mine s) (p_has s) (p_id s) (p_fk s) (p_cs s) (p_txn s) (p_pidset s) (out s) (next s) (closed s) (sess s) (k_reg s) (k_has s) (k_id s) (k_intxn s) (k_imm s) (k_fk s) (k_pending s) (k_mrem s) (k_madd s) (k_forupd s) (k_saved s) v (trace s) (bad s).
Definition set_trace (v : list event) (s : st) : st := mkSt (lock s) (mine s) (p_has s) (p_id s) (p_fk s) (p_cs s) (p_txn s) (p_pidset s) (out s) (next s) (closed s) (sess s) (k_reg s) (k_has s) (k_id s) (k_intxn s) (k_imm s) (k_fk s) (k_pending s) (k_mrem s) (k_madd s) (k_forupd s) (k_saved s) (ncall s) v (bad s).
Definition set_bad (v : list badness) (s : st) : st := mkSt (lock s) (mine s) (p_has s) (p_id s) (p_fk s) (p_cs s) (p_txn s) (p_pidset s) (out s) (next s) (closed s) (sess s) (k_reg s) (k_has s) (k_id s) (k_intxn s) (k_imm s) (k_fk s) (k_pending s) (k_mrem s) (k_madd s) (k_forupd s) (k_saved s) (ncall s) (trace s) v.

Definition log (k : call) (id : nat) (ok : bool) (txn : bool) (s : st) : st :=
  set_ncall (S (ncall s)) (set_trace (Ev k id ok (lock s) txn (mine s) (k_pending s) :: trace s) s).
Definition add_bad (b : badness) (s : st) : st := set_bad (b :: bad s) s.

Definition M := st -> res * st.
Definition ret : M := fun s => (Ok, s).
Definition raise (e : exn) : M := fun s => (Err e, s).
Definition bind (m f : M) : M := fun s => match m s with (Ok, s') => f s' | r => r end.
Definition try_except (m : M) (h : exn -> M) : M := fun s => match m s with (Err e, s') => h e s' | r => r end.
(* try: m finally: f   -- an exception raised by f replaces the outcome of m *)
Definition try_finally (m f : M) : M := fun s =>
  match m s with
  | (Blocked, s') => (Blocked, s')
  | (r, s') => match f s' with (Ok, s'') => (r, s'') | r' => r' end
  end.
Definition when (b : bool) (m : M) : M := if b then m else ret.
Definition upd (f : st -> st) : M := fun s => (Ok, f s).
Definition assert_ (b : bool) : M := if b then ret else raise EAssert.
Notation "m1 ;; m2" := (bind m1 m2) (at level 61, right associativity).

Section WithOracle.
Variable oracle : nat -> bool.     (* oracle n = true: the n-th DB-API call of this thread raises *)

(* ---- DB-API primitives ---- *)
Definition effect (k : call) (s : st) : st :=
  match k with
  | KExecute SFkOn => set_p_fk true s
  | KExecute SCsLike => set_p_cs true s
  | KExecute SFkOff => set_p_fk false s
  | KExecute SBegin => set_p_txn true s
  | KCommit | KRollback => set_p_txn false s
  | _ => s
  end.

(* a call on connection `id` (cursor / execute / commit / rollback) *)
Definition dbcall (k : call) (id : nat) : M := fun s =>
  let live := p_has s && (p_id s =? id) in
  let txn := live && p_txn s in
  let drv_err := match k with KExecute SBegin => txn | _ => false end in   (* SQLite: cannot start a transaction within a transaction *)
  let ok := live && negb (oracle (ncall s)) && negb drv_err in
  let s1 := log k id ok txn s in
  if ok then (Ok, effect k s1)
  else (Err EDb, if live then s1 else add_bad BadDeadConn s1).

(* sqlite.connect(...) followed by `pool.con = con` *)
Definition db_connect : M := fun s =>
  let id := next s in
  if oracle (ncall s) then (Err EDb, log KConnect id false false s)
  else let s1 := log KConnect id true false s in
       let s2 := if p_has s then add_bad BadLeakOnConnect s1 else s1 in
       (Ok, set_p_has true (set_p_id id (set_p_fk false (set_p_cs false (set_p_txn false (set_next (S id) s2)))))).

(* con.close() on a connection that has been taken out of the pool; counted as closed even if close() raises *)
Definition db_close (id : nat) : M := fun s =>
  let ok := negb (oracle (ncall s)) in
  let s1 := set_closed (id :: closed s) (log KClose id ok (p_txn s) s) in
  if ok then (Ok, s1) else (Err EDb, s1).

(* ---- SQLiteProvider.acquire_lock / release_lock (threading.Lock) ---- *)
Definition acquire : M := fun s =>
  if lock s then (Blocked, if mine s then add_bad BadSelfDeadlock s else s)
  else (Ok, set_mine true (set_lock true s)).
Definition release_lock : M := fun s =>
  if lock s then (Ok, set_mine false (set_lock false (if mine s then s else add_bad BadStolenLock s)))
  else (Err ERuntime, add_bad BadReleaseUnlocked s).

(* ---- Pool.connect + SQLitePool._connect;  DBAPIProvider.connect ----
   Pool.connect: `if pool.con is not None and pool.pid != pid: ...` (fork check, C36), then `if pool.con is None: pool._connect();
   pool.pid = pid`.  SQLitePool.__init__ (run once per thread) does not create the attribute `pid` (p_pidset = it exists).
   SQLitePool._connect (since /repo 54964b5): con = sqlite.connect(...); try: <functions, the two PRAGMAs> except: con.close(); raise;
   pool.con = con.  The connection being initialised is kept in the pool fields of the model (nothing can observe them before
   _connect returns) and is taken out again on failure. *)
Definition pool_connect : M := fun s =>
  if p_has s
  then (if p_pidset s then (Ok, s) else (Err EAttr, s))
  else (db_connect ;;
        try_except ((fun s1 => dbcall (KExecute SFkOn) (p_id s1) s1) ;; (fun s1 => dbcall (KExecute SCsLike) (p_id s1) s1))
                   (fun e => (fun s1 => db_close (p_id s1) (set_p_has false s1)) ;; raise e) ;;
        upd (set_p_pidset true)) s.
Definition prov_connect : M :=
  pool_connect ;; (fun s => (Ok, set_out true (if out s then add_bad BadDoubleCheckout s else s))).

(* Pool.drop: assert con is pool.con; pool.con = None; con.close() *)
Definition pool_drop (id : nat) : M := fun s =>
  if p_has s && (p_id s =? id) then db_close id (set_out false (set_p_has false s))
  else (Err EAssert, s).
(* Pool.release: assert con is pool.con; try: con.rollback() except: pool.drop(con); raise *)
Definition pool_release (id : nat) : M := fun s =>
  if p_has s && (p_id s =? id)
  then try_except (dbcall KRollback id ;; upd (set_out false)) (fun e => pool_drop id ;; raise e)
                  (if out s then s else add_bad BadDoubleRelease s)
  else (Err EAssert, s).

(* ---- SQLiteProvider.set_transaction_mode ---- *)
Definition set_transaction_mode (id : nat) : M :=
  (fun s => assert_ (negb (k_intxn s)) s) ;;
  (fun s => when (k_imm s) acquire s) ;;
  try_finally
    (dbcall KCursor id ;;
     (fun s => when (shape_ddl (sess s))
                 (dbcall (KExecute SFkGet) id ;;
                  (fun s1 => let fk := p_fk s1 in
                             (when fk (dbcall (KExecute SFkOff) id) ;;
                              (* since /repo 78a42e8: `if cache.saved_fk_state is None: cache.saved_fk_state = bool(fk)`.  k_fk = the saved state
                                 is True; None and False are both k_fk = false: a saved False can only come from a connection whose
                                 foreign keys were already off, and then every later reading in this cache is False as well *)
                              upd (fun s2 => set_k_fk (k_fk s2 || fk) s2) ;; (fun s2 => assert_ (k_imm s2) s2)) s1)) s) ;;
     (fun s => when (k_imm s) (dbcall (KExecute SBegin) id ;; upd (set_k_intxn true)) s))
    (fun s => when (k_imm s && negb (k_intxn s)) release_lock s).

(* ---- SQLiteProvider.commit / rollback / drop (around DBAPIProvider.commit / rollback / drop) ---- *)
Definition prov_commit (id : nat) : M := fun s =>
  let intx := k_intxn s in
  try_finally (dbcall KCommit id ;; upd (set_k_intxn false)) (when intx (upd (set_k_intxn false) ;; release_lock)) s.
Definition prov_rollback (id : nat) : M := fun s =>
  let intx := k_intxn s in
  try_finally (dbcall KRollback id ;; upd (set_k_intxn false)) (when intx (upd (set_k_intxn false) ;; release_lock)) s.
Definition prov_drop (id : nat) : M := fun s =>
  let intx := k_intxn s in
  try_finally (pool_drop id ;; upd (set_k_intxn false)) (when intx (upd (set_k_intxn false) ;; release_lock)) s.

(* ---- SQLiteProvider.release, then DBAPIProvider.release ---- *)
Definition prov_release (id : nat) : M := fun s =>
  let ddl := shape_ddl (sess s) in
  (when (ddl && k_fk s)
        (try_except (dbcall KCursor id ;; dbcall (KExecute SFkOn) id) (fun e => pool_drop id ;; raise e)) ;;
   (if ddl then prov_drop id else pool_release id)) s.

(* ---- SessionCache ---- *)
(* Database._get_cache: the registered cache of this thread, or a new SessionCache *)
Definition get_cache : M := fun s =>
  if k_reg s then (Ok, s)
  else (Ok, set_k_reg true (set_k_has false (set_k_intxn false (set_k_imm (shape_imm (sess s))
             (set_k_fk false (set_k_pending 0 (set_k_mrem false (set_k_madd false (set_k_forupd 0 (set_k_saved false s)))))))))).

Definition cache_connect : M :=
  (fun s => assert_ (negb (k_has s)) s) ;;
  (fun s => if k_intxn s then (Err EConnClosed, s) else (Ok, s)) ;;
  prov_connect ;;
  (fun s => let id := p_id s in
            (try_except (set_transaction_mode id) (fun e => prov_drop id ;; raise e) ;;
             upd (fun s1 => set_k_has true (set_k_id id s1))) s).

(* prepare_connection_for_query_execution without its final flush; cache.reconnect(e) re-raises e on SQLite *)
Definition prepare_nf : M := fun s =>
  if negb (k_has s) then cache_connect s
  else if k_imm s && negb (k_intxn s) then set_transaction_mode (k_id s) s
  else (Ok, s).

(* Database._exec_sql while cache.noflush_counter > 0 (inside flush) *)
Definition stmt_call (many : bool) (q : stmt) : call := if many then KExecMany q else KExecute q.
Definition exec_with (prepare : M) (start : bool) (many : bool) (q : stmt) : M :=
  get_cache ;;
  when start (upd (set_k_imm true)) ;;
  prepare ;;
  (* connection.cursor() is called outside wrap_dbapi_exceptions: a driver error escapes unwrapped (EDrv) *)
  (fun s => (try_except (dbcall KCursor (k_id s)) (fun _ => raise EDrv) ;; dbcall (stmt_call many q) (k_id s)) s) ;;
  (fun s => when (k_imm s) (upd (set_k_intxn true)) s).

Definition wrap_orm (e : exn) : exn := match e with EDb => EUnexp | _ => e end.   (* _save_created_: DatabaseError -> UnexpectedError *)

(* cache.modified *)
Definition modified (s : st) : bool := (0 <? k_pending s) || k_mrem s || k_madd s.

(* the saving loop of SessionCache.flush: one INSERT/UPDATE/DELETE per pending object; a saved object is appended to
   cache.saved_objects (k_saved: the list is not empty) until call_after_save_hooks() empties it at the end of the loop *)
Definition flush_mark (s : st) : st := set_k_saved true (set_k_pending (pred (k_pending s)) s).
Fixpoint flush_loop (k : nat) : M :=
  match k with
  | O => ret
  | S k' => try_except (exec_with prepare_nf true false SWrite) (fun e => raise (wrap_orm e)) ;;
            upd flush_mark ;;
            flush_loop k'
  end.
(* attr.remove_m2m / attr.add_m2m: one executemany on the link table through _exec_sql(sql, arguments_list) - WITHOUT
   start_transaction: it relies on flush having set cache.immediate *)
Definition exec_m2m : M := exec_with prepare_nf false true SWrite.
Definition flush_body : M :=
  (fun s => when (k_mrem s) exec_m2m s) ;;
  (fun s => flush_loop (k_pending s) s) ;;
  (fun s => when (k_madd s) exec_m2m s) ;;
  upd (fun s => set_k_mrem false (set_k_madd false (set_k_saved false s))).

(* SessionCache.flush: `assert not cache.saved_objects` fails after an earlier flush that died half way and was caught *)
Definition cache_flush : M := fun s =>
  if k_saved s then (Err EAssert, s) else
  let prev := k_imm s in
  (upd (set_k_imm true) ;;
   try_finally flush_body
               (fun s1 => if k_intxn s1 then (Ok, s1) else (Ok, set_k_imm prev s1))) s.

Definition prepare : M := prepare_nf ;; (fun s => when (modified s) cache_flush s).
Definition exec (start : bool) (q : stmt) : M := exec_with prepare start false q.

(* SessionCache.close(rollback) *)
Definition cache_close (rb : bool) : M :=
  (fun s => assert_ (k_reg s) s) ;;
  (fun s => assert_ (rb || negb (k_intxn s)) s) ;;
  upd (set_k_reg false) ;;
  (fun s => if negb (k_has s) then (Ok, s)
            else let id := k_id s in
                 (upd (set_k_has false) ;;
                  try_finally
                    (when rb (try_except (prov_rollback id) (fun e => prov_drop id ;; raise e)) ;;
                     prov_release id)
                    (upd (set_k_forupd 0))) s).

(* SessionCache.commit *)
Definition cache_commit : M :=
  (fun s => assert_ (k_reg s) s) ;;
  try_except
    ((fun s => when (modified s) cache_flush s) ;;
     (fun s => when (k_intxn s) ((fun s1 => assert_ (k_has s1) s1) ;; (fun s1 => prov_commit (k_id s1) s1)) s) ;;
     upd (fun s => set_k_imm true (set_k_forupd 0 s)))
    (fun e => cache_close true ;; raise e).

(* module-level rollback(), commit(), rollback_and_reraise, flush() for one database *)
Definition core_rollback : M := fun s =>
  if k_reg s then try_except (cache_close true) (fun _ => raise ERollback) s else (Ok, s).
Definition rollback_and_reraise (e : exn) : M := fun s =>
  match core_rollback s with (Blocked, s') => (Blocked, s') | (_, s') => (Err e, s') end.
Definition core_commit : M := fun s =>
  if k_reg s
  then (try_except cache_flush rollback_and_reraise ;;
        try_except cache_commit (fun _ => raise ECommit)) s
  else (Ok, s).
Definition core_flush : M := fun s => if k_reg s then cache_flush s else (Ok, s).
(* Database.commit (flush_and_commit), Database.rollback *)
Definition db_commit : M := fun s =>
  if k_reg s
  then (try_except cache_flush (fun e => cache_close true ;; raise e) ;;
        try_except cache_commit (fun _ => raise ECommit)) s
  else (Ok, s).
Definition db_rollback : M := core_rollback.
(* Database.get_connection *)
Definition get_connection : M :=
  get_cache ;;
  (fun s => when (negb (k_intxn s)) (upd (set_k_imm true) ;; prepare ;; upd (set_k_intxn true)) s) ;;
  (fun s => assert_ (k_has s) s).

(* Database.disconnect() (only allowed outside a db_session): roll back a cache left over from interactive use, then
   provider.disconnect() -> Pool.disconnect: con = pool.con; pool.con = None; if con is not None: con.close() *)
Definition pool_disconnect : M := fun s => if p_has s then db_close (p_id s) (set_p_has false s) else (Ok, s).
Definition db_disconnect : M := (fun s => if k_reg s then cache_close true s else (Ok, s)) ;; pool_disconnect.

(* ---- session bodies ---- *)
Inductive op := OSelect | OForUpd | ONew | OFlush | ORawWrite | OCommit | ORollback | ODbCommit | ODbRollback | ORaise | OGetConn
  | OLink | OUnlink                       (* a many-to-many link added / removed between loaded objects: no SQL before the flush *)
  | OGetFU (cached locked : bool)         (* get_for_update(...) by any key, the object being / not being in the session cache / in cache.for_update *)
  | OGetFURev (locked : bool).            (* get_for_update(<one-to-one attribute that has no column> = obj): found through the reverse attribute *)

Definition run_op (o : op) : M :=
  match o with
  | OSelect => exec false SSelect
  | OForUpd => get_cache ;; upd (set_k_imm true) ;; exec false SSelect ;;
               (fun s => assert_ (k_intxn s) s) ;; upd (fun s => set_k_forupd (S (k_forupd s)) s)
  | ONew => get_cache ;; upd (fun s => set_k_pending (S (k_pending s)) s)
  | OFlush => core_flush
  | ORawWrite => exec true SWrite
  | OCommit => core_commit
  | ORollback => core_rollback
  | ODbCommit => db_commit
  | ODbRollback => db_rollback
  | ORaise => raise EBody
  | OGetConn => get_connection
  | OLink => get_cache ;; upd (set_k_madd true)
  | OUnlink => get_cache ;; upd (set_k_mrem true)
  (* EntityMeta._find_in_cache_: an object found in the cache is used only if it is already locked; otherwise _find_in_db_ *)
  | OGetFU cached locked =>
      if cached && locked then get_cache
      else get_cache ;; upd (set_k_imm true) ;; exec false SSelect ;;
           (fun s => assert_ (k_intxn s) s) ;; upd (fun s => set_k_forupd (S (k_forupd s)) s)
  (* the object is found in the cache through reverse.__get__; if it is not locked yet _find_in_db_ is asked, and
     _construct_sql_ raises NotImplementedError for an attribute without columns - before anything is touched *)
  | OGetFURev locked => get_cache ;; (if locked then ret else raise ENotImpl)
  end.

(* the body of a db_session: a list of (operation, does the body catch an exception raised by it) *)
Fixpoint run_body (b : list (op * bool)) : M :=
  match b with
  | [] => ret
  | (o, catch) :: b' => fun s =>
      match run_op o s with
      | (Ok, s') => run_body b' s'
      | (Err e, s') => if catch then run_body b' s' else (Err e, s')
      | (Blocked, s') => (Blocked, s')
      end
  end.

(* DBSessionContextManager.__exit__ / _commit_or_rollback (allowed_exceptions = ()) *)
Definition session_exit (r : res) : M :=
  match r with
  | Ok => core_commit ;; (fun s => if k_reg s then cache_close false s else (Ok, s))
  | Err e => fun s => match core_rollback s with (Blocked, s') => (Blocked, s') | (_, s') => (Err e, s') end
  | Blocked => fun s => (Blocked, s)
  end.

Definition run_session (sh : shape) (b : list (op * bool)) : M := fun s =>
  let s0 := set_sess sh s in
  match run_body b s0 with (r, s1) => session_exit r s1 end.

(* consecutive sessions of one thread; the result is what left the last one *)
Fixpoint run_sessions (l : list (shape * list (op * bool))) : M :=
  match l with
  | [] => ret
  | (sh, b) :: l' => fun s => match run_session sh b s with
                              | (Blocked, s') => (Blocked, s')
                              | (r, s') => match l' with [] => (r, s') | _ => run_sessions l' s' end
                              end
  end.

End WithOracle.

(* initial states: a thread that never connected / the connection made by Database.bind() sits in the pool /
   the thread connected before and disconnected (pool.pid exists) *)
Definition st_empty : st := mkSt false false false 0 false false false false false 0 [] ShOpt false false 0 false false false 0 false false 0 false 0 [] [].
Definition st_pooled : st := mkSt false false true 0 true true false true false 1 [] ShOpt false false 0 false false false 0 false false 0 false 0 [] [].

Definition st_disconnected : st := set_p_pidset true st_empty.

Definition faults_oracle (fs : list nat) : nat -> bool := fun n => existsb (Nat.eqb n) fs.

(* ---- decidable equalities and the observation compared with the real implementation (correspondence run) ---- *)
Definition stmt_eqb (a b : stmt) : bool :=
  match a, b with SFkOn, SFkOn | SCsLike, SCsLike | SFkGet, SFkGet | SFkOff, SFkOff | SBegin, SBegin | SSelect, SSelect | SWrite, SWrite => true | _, _ => false end.
Definition call_eqb (a b : call) : bool :=
  match a, b with
  | KConnect, KConnect | KCursor, KCursor | KCommit, KCommit | KRollback, KRollback | KClose, KClose => true
  | KExecute x, KExecute y => stmt_eqb x y
  | KExecMany x, KExecMany y => stmt_eqb x y
  | _, _ => false
  end.
Definition event_eqb (a b : event) : bool :=
  call_eqb (e_call a) (e_call b) && (e_con a =? e_con b) && eqb (e_ok a) (e_ok b) && eqb (e_lock a) (e_lock b) && eqb (e_txn a) (e_txn b).
Fixpoint list_eqb {A} (f : A -> A -> bool) (l1 l2 : list A) : bool :=
  match l1, l2 with [] , [] => true | x :: l1', y :: l2' => f x y && list_eqb f l1' l2' | _, _ => false end.
Definition exn_eqb (a b : exn) : bool :=
  match a, b with EDb, EDb | EDrv, EDrv | EAttr, EAttr | ENotImpl, ENotImpl | EUnexp, EUnexp | ECommit, ECommit | ERollback, ERollback | EBody, EBody | EAssert, EAssert
                | EConnClosed, EConnClosed | ERuntime, ERuntime => true | _, _ => false end.
Definition res_eqb (a b : res) : bool :=
  match a, b with Ok, Ok | Blocked, Blocked => true | Err x, Err y => exn_eqb x y | _, _ => false end.

Record observation : Type := Obs {
  o_trace : list event;        (* driver calls in order *)
  o_res : res;                 (* what left the (last) db_session *)
  o_lock : bool;               (* provider.transaction_lock.locked() afterwards *)
  o_pool : option nat;         (* id of pool.con *)
  o_pragmas : bool * bool;     (* foreign_keys / case_sensitive_like of the pooled connection *)
  o_closes : list nat;         (* number of close() calls per connection id 0, 1, ... *)
  o_registered : bool;         (* local.db2cache still holds a cache *)
  o_bad : bool                 (* the model flagged a protocol violation *)
}.
Definition observe (rs : res * st) : observation :=
  let (r, s) := rs in
  Obs (rev (trace s)) r (lock s) (if p_has s then Some (p_id s) else None)
      (if p_has s then (p_fk s, p_cs s) else (false, false))
      (map (fun id => count_occ Nat.eq_dec (closed s) id) (seq 0 (next s))) (k_reg s)
      (match bad s with [] => false | _ => true end).
Definition opt_nat_eqb (a b : option nat) : bool :=
  match a, b with None, None => true | Some x, Some y => x =? y | _, _ => false end.
Definition obs_eqb (a b : observation) : bool :=
  list_eqb event_eqb (o_trace a) (o_trace b) && res_eqb (o_res a) (o_res b) && eqb (o_lock a) (o_lock b) &&
  opt_nat_eqb (o_pool a) (o_pool b) && eqb (fst (o_pragmas a)) (fst (o_pragmas b)) && eqb (snd (o_pragmas a)) (snd (o_pragmas b)) &&
  list_eqb Nat.eqb (o_closes a) (o_closes b) && eqb (o_registered a) (o_registered b) && eqb (o_bad a) (o_bad b).

Fixpoint failing_from (i : nat) (l : list bool) : list nat :=
  match l with [] => [] | b :: l' => if b then failing_from (S i) l' else i :: failing_from (S i) l' end.
Definition failing (l : list bool) : list nat := failing_from 0 l.

(* ---- reading a trace (newest event first, as stored in `trace`) ---- *)
(* the live connection of the thread and whether a driver-level transaction is open on it, recomputed from the events alone *)
Definition cstate := option (nat * bool).
Definition scan_step (c : cstate) (e : event) : cstate :=
  match e_call e with
  | KClose => None                                   (* Pool.drop forgets the connection before close(), even if close() raises *)
  | KConnect => if e_ok e then Some (e_con e, false) else c
  | KExecute SBegin => if e_ok e then match c with Some (id, _) => Some (id, true) | None => None end else c
  | KCommit | KRollback => if e_ok e then match c with Some (id, _) => Some (id, false) | None => None end else c
  | _ => c
  end.
Fixpoint scan (tr : list event) : cstate :=
  match tr with [] => None | e :: older => scan_step (scan older) e end.
Definition txn_of (c : cstate) (id : nat) : bool :=
  match c with Some (i, t) => (i =? id) && t | None => false end.
(* every event's transaction flag is the one determined by the BEGIN / COMMIT / ROLLBACK / connect / close events before it *)
Fixpoint flags_ok (tr : list event) : bool :=
  match tr with [] => true | e :: older => eqb (e_txn e) (txn_of (scan older) (e_con e)) && flags_ok older end.

Definition is_write (e : event) : bool := match e_call e with KExecute SWrite | KExecMany SWrite => true | _ => false end.
Definition is_stmt (e : event) : bool := match e_call e with KExecute SWrite | KExecMany SWrite | KExecute SSelect => true | _ => false end.

(* what every driver call of a session of shape `sh` must satisfy (oth = another thread holds the provider lock):
   - a write is issued inside an open driver-level transaction, with the provider lock held by this thread      (C17, C35)
   - in an immediate / serializable / ddl session this holds for every statement, reads included               (C35)
   - COMMIT is issued inside an open transaction and after every pending ORM change has been flushed           (C17)
   - this thread holds the lock only if no other thread does                                                    (C19, C35) *)
Definition good_ev (sh : shape) (oth : bool) (e : event) : bool :=
  (if is_write e || (is_stmt e && shape_imm sh) then e_txn e && e_lock e && e_mine e else true) &&
  (match e_call e with KCommit => e_txn e && (e_pend e =? 0) | _ => true end) &&
  (if e_mine e then negb oth && e_lock e else true).

(* ---- several threads sharing the provider lock (Pool, local.db2cache and the fault oracle are per thread) ---- *)
Inductive action := AOp (o : op) | AExit (exc : bool) (next_shape : shape).
Definition tstep (oracle : nat -> bool) (a : action) : M :=
  match a with
  | AOp o => run_op oracle o
  | AExit exc sh' => fun s => match session_exit oracle (if exc then Err EBody else Ok) s with
                              | (Blocked, s') => (Blocked, s')
                              | (r, s') => (r, set_sess sh' s')
                              end
  end.
Definition gstate := (bool * (nat -> st))%type.          (* provider.transaction_lock, thread states (their own `lock` field is stale) *)
(* thread i performs action a atomically; a thread that would block on the lock does not move (its thread-local prefix
   commutes with everything the other threads do) *)
Definition gstep (orc : nat -> nat -> bool) (g : gstate) (ia : nat * action) : gstate :=
  let (i, a) := ia in
  let (L, ts) := g in
  match tstep (orc i) a (set_lock L (ts i)) with
  | (Blocked, _) => g
  | (_, s') => (lock s', fun j => if j =? i then s' else ts j)
  end.
Definition grun (orc : nat -> nat -> bool) (g : gstate) (l : list (nat * action)) : gstate := fold_left (gstep orc) l g.
Definition g_init (sh : nat -> shape) : gstate := (false, fun i => set_sess (sh i) st_empty).
