(* C01/C02 - conditions over a to-many collection combined freely with and / or / not (generalises Model/C01Coll.v):

       select(<proj> for g in G if <formula>)

   where the formula is any condition of Model/C01Expr.v over g's own attributes in which the leaves [ESub (40 + k)] stand for the
   k-th subquery condition - exists(m for m in g.members if c) / g.members, v in (m.a for m in g.members if c), v in g.members.a -
   and the leaves [ECol (40 + k) t nullable] for the k-th scalar subquery: count(m for m in g.members if c), and sum / min / max /
   count(<item> for m in g.members if c) over a scalar expression <item> of m and g (sum: int, not nullable, 0 for no members;
   min / max: the item's type, None for no non-None value).  The selected expression may mention the scalar subqueries too.  `not exists(...)`,
   `v not in (...)`, `not (v in (...))` are the formula [ENot (ESub _)]: the translator writes NOT EXISTS / NOT IN, which the
   correspondence harness reads as NOT (EXISTS ..) / NOT (x IN ..) - identities of SQL's three-valued logic.
   The translation of the formula is the one of Model/C01Translate.v ([ESub i] is a BoolExprMonad whose SQL is the subquery
   condition, column i); this file adds the list of subqueries with their SQL shape (as in Model/C01Coll.v, IN always over
   `... AND m.a IS NOT NULL` for an optional a), their SQL values and their Python values.  Definitions only. *)
Require Import PonyV.Base.PyBase PonyV.Model.C01Expr PonyV.Model.C01Sql PonyV.Model.C01Translate PonyV.Model.C01Eqb
               PonyV.Model.C01Query PonyV.Model.C01Join PonyV.Model.C01Coll PonyV.Model.C01Aggr.

Definition sub_base : nat := 40.

Inductive subq : Type :=
| SQExists (c : option expr)
| SQIn (v : expr) (a : attr) (s : setform)
| SQCount (c : option expr)
| SQAgg (f : afn) (item : expr) (c : option expr).   (* sum | min | max | count (<item> for m in g.members if c) *)

Inductive xsub : Type :=
| XSExists (s : sub)                    (* ['EXISTS', from, where]                                   *)
| XSIn (v item : qx) (s : sub)          (* ['IN', v, ['SELECT', ['ALL', item], from, where]]          *)
| XSCount (s : sub)                     (* ['SELECT', ['AGGREGATES', ['COUNT', True, m.id]], from, where] *)
| XSAgg (f : afn) (distinct : bool) (item : qx) (s : sub).   (* ['SELECT', ['AGGREGATES', [f, distinct, item]], from, where] *)

Section Translate.
Variable d : dname.

(* known bad, outside the model: an item whose SQL mentions no column of m (`sum(g.number for m in g.members)`, also
   `sum((g.number if m.u in () else 1) for ...)` where `m.u in ()` is translated to the constant `0 = 1`, or a column of m that
   occurs only under IS NULL / IS NOT NULL, which SQLite may fold away): SQL attributes an aggregate
   whose argument has outer references only to the OUTER query - finding collection-aggregate-of-outer-only-item.  (The sum of a
   boolean item is decoded as an int since repo commit 37ddc86.) *)
Fixpoint qx_has_col (p : nat -> bool) (q : qx) : bool :=
  match q with
  | QVal _ | QParam _ => false
  | QCol j => p j
  | QBin _ a b => qx_has_col p a || qx_has_col p b
  | QUn (QIsNull | QIsNotNull) _ => false            (* SQLite folds `<NOT NULL column> IS NULL` to a constant before it scopes the aggregate *)
  | QUn _ a => qx_has_col p a
  | QAnd l | QOr l | QCoalesce l | QMinMax _ l => existsb (qx_has_col p) l
  | QIn _ a l => match l with [] => false | _ => qx_has_col p a || existsb (qx_has_col p) l end    (* the builder writes `0 = 1` / `1 = 1` for an empty list: a is not in the text *)
  | QCase c t f => qx_has_col p c || qx_has_col p t || qx_has_col p f
  end.
Definition item_ok (item : qx) : bool := qx_has_col (fun i => (i <? 10)%nat) item.

Definition tr_subq (s : subq) : option xsub :=
  match s with
  | SQExists c => option_map (fun cs => XSExists (sub_join, cs)) (tr_conds d c)
  | SQIn v a s =>
      match tr_project d v, ty_of v with
      | Some q, Some (TV t) =>
          if vty_eqb t (a_ty a) then
            match s with
            | SGen c => option_map (fun cs => XSIn q (QCol (a_id a)) (sub_join, cs ++ not_null_check a true)) (tr_conds d c)
            | SAttr => Some (XSIn q (QCol (a_id a)) (sub_join, not_null_check a true))
            end
          else None
      | _, _ => None
      end
  | SQCount c => option_map (fun cs => XSCount (sub_join, cs)) (tr_conds d c)
  | SQAgg f item c =>
      match f, ty_of item, tr_project d item, tr_conds d c with
      | FAvg, _, _, _ => None                      (* a float: outside the value domain *)
      | _, Some (TV t), Some q, Some cs => if aggr_ty_ok f t && item_ok q then Some (XSAgg f (match f with FCount => true | _ => false end) q (sub_join, cs)) else None
      | _, _, _, _ => None
      end
  end.

Fixpoint tr_subqs (l : list subq) : option (list xsub) :=
  match l with
  | [] => Some []
  | s :: r => match tr_subq s, tr_subqs r with Some x, Some xs => Some (x :: xs) | _, _ => None end
  end.
End Translate.

Definition xsub_eqb (a b : xsub) : bool :=
  match a, b with
  | XSExists s, XSExists s' => sub_eqb s s'
  | XSIn v i s, XSIn v' i' s' => qx_eqb v v' && qx_eqb i i' && sub_eqb s s'
  | XSCount s, XSCount s' => sub_eqb s s'
  | XSAgg f b q s, XSAgg f' b' q' s' => afn_eqb f f' && Bool.eqb b b' && qx_eqb q q' && sub_eqb s s'
  | _, _ => false
  end.
Fixpoint xsubs_eqb (a b : list xsub) : bool :=
  match a, b with [] , [] => true | x :: a', y :: b' => xsub_eqb x y && xsubs_eqb a' b' | _, _ => false end.
Definition oxsubs_eqb (a : option (list xsub)) (b : list xsub) : bool :=
  match a with Some l => xsubs_eqb l b | None => false end.

Section Sem.
Variable d : dname.
Variable params : nat -> pyv.
Variable db : jdb.

(* ------------------------------------------------------------------------------------------- SQL side *)
Definition xval (g : row) (x : xsub) : qv :=
  match x with
  | XSExists s => bv d (match sub_rows d params db g s with [] => false | _ => true end)
  | XSIn v item s =>
      qin d false (qeval d (encenv d (genv params g)) v) (map (fun m => qeval d (encenv d (menv params g m)) item) (sub_rows d params db g s))
  | XSCount s => IntV (Z.of_nat (count_distinct (map (fun m => enc d (m 0%nat)) (sub_rows d params db g s))))
  | XSAgg f distinct item s => qaggr_vals f distinct (map (fun m => qeval d (encenv d (menv params g m)) item) (sub_rows d params db g s))
  end.

(* the row of g as the outer conditions see it: g's columns, and column 40 + k = the value of the k-th subquery *)
Definition senv (xs : list xsub) (g : row) : qenv :=
  mkqenv (fun i => if (sub_base <=? i)%nat then nth (i - sub_base) (map (xval g) xs) NullV
                   else if (i <? 10)%nat then NullV else if (i <? 20)%nat then enc d (g (i - 10)%nat) else NullV)
         (fun i => enc d (params i)).

Definition sql_form_rows (distinct : bool) (xs : list xsub) (conds : list qx) (q : qx) : list qv :=
  let l := map (fun g => qeval d (senv xs g) q) (filter (fun g => where_truth d (senv xs g) conds) (tG db)) in
  if distinct then dedup qv_eqb l else l.

(* ------------------------------------------------------------------------------------------- Python side *)
Definition pyval (g : row) (s : subq) : pyv :=
  match s with
  | SQExists c => PBool (existsb (cond_holds params c g) (members db g))
  | SQIn v a s =>
      let c := match s with SGen c => c | SAttr => None end in
      py_of_tv (in_coll false (ref_eval (genv params g) v) (map (fun m => m (a_id a)) (filter (cond_holds params c g) (members db g))))
  | SQCount c => PInt (Z.of_nat (length (filter (cond_holds params c g) (members db g))))
  | SQAgg f item c =>
      match py_aggr_vals f (match f with FCount => true | _ => false end)
                         (map (fun m => ref_eval (menv params g m) item) (filter (cond_holds params c g) (members db g))) with
      | AVal v => v
      | AFrac _ _ => PNone
      end
  end.

Definition fenv (subs : list subq) (g : row) : env :=
  mkenv (fun i => if (sub_base <=? i)%nat then nth (i - sub_base) (map (pyval g) subs) PNone
                  else if (i <? 10)%nat then PNone else if (i <? 20)%nat then g (i - 10)%nat else PNone) params.

Definition py_form_rows (distinct : bool) (subs : list subq) (filt proj : expr) : list pyv :=
  let l := map (fun g => ref_eval (fenv subs g) proj) (filter (fun g => py_truthy filt (ref_eval (fenv subs g) filt)) (tG db)) in
  if distinct then dedup pyv_eqb l else l.
End Sem.
