(* C01/C02 - the operator instances on which the translation is known NOT to compute Python's result (the exact
   complement of the theorems' domain), as a boolean over (dialect, row, expression).  Each disjunct is a recorded
   finding with a `_refuted` witness in Findings/C01.v / Findings/C02.v.  Definitions only.

     a // b   SQLite, PostgreSQL: `/` truncates toward zero  -> wrong when b does not divide a and the signs differ
              MySQL: `/` is exact division                    -> wrong whenever b does not divide a
     a % b    remainder takes the sign of the dividend        -> wrong when b does not divide a and the signs differ
     a / b    translated like //                              -> wrong whenever b does not divide a
     b = 0    Python raises ZeroDivisionError: outside the statement (SQLite / MySQL give NULL, PostgreSQL an error)
     min/max  PostgreSQL least / greatest ignore NULLs        -> wrong when some but not all arguments are None
     len      MySQL length() counts bytes                     -> wrong for non-ASCII strings
     not x    x a nullable bool *expression* (not an attribute), PostgreSQL: NOT coalesce(x, true) -> wrong when x is None *)
Require Import PonyV.Base.PyBase PonyV.Model.C01Expr PonyV.Model.C01Sql.

Definition same_sign (x y : Z) : bool := Bool.eqb (0 <=? x) (0 <=? y).

Definition arith_safe (d : dname) (op : aop) (x y : Z) : bool :=
  match op with
  | Add | Sub | Mul => true
  | FloorDiv => negb (y =? 0) && ((x mod y =? 0) || (negb (match d with DMysql => true | _ => false end) && same_sign x y))
  | Mod => negb (y =? 0) && ((x mod y =? 0) || same_sign x y)
  | TrueDiv => negb (y =? 0) && (x mod y =? 0)
  end.

Definition ascii (s : str) : bool := forallb (fun c => c <? 128) s.

Definition is_attr (e : expr) : bool := match e with EAttr _ => true | _ => false end.

Section Safe.
Variable d : dname.
Variable en : env.

Fixpoint safe (e : expr) : bool :=
  match e with
  | EAttr _ | EInt _ | EStr _ | EBool _ | ENone | EParam _ _ | ECol _ _ _ | ESub _ => true
  | EArith op a b =>
      safe a && safe b &&
      match int_of (reval true en a), int_of (reval true en b) with
      | Some x, Some y => arith_safe d op x y
      | _, _ => true
      end
  | ENeg a | EAbs a | EIn _ a _ => safe a
  | ELen a =>
      safe a && match d, reval true en a with DMysql, PStr s => ascii s | _, _ => true end
  | EConcat a b | ECmp _ a b | EAnd a b | EOr a b => safe a && safe b
  | ENot a =>
      safe a &&
      negb (pg d && negb (is_attr a) && match ty_of a with Some (TV TBool) => true | _ => false end && is_none (reval true en a))
  | EIf c t f => safe c && safe t && safe f
  | ECoalesce args => forallb safe args
  | EMinMax _ args =>
      forallb safe args &&
      (negb (pg d) || forallb (fun a => is_none (reval true en a)) args || forallb (fun a => negb (is_none (reval true en a))) args)
  end.
End Safe.
