(* C06, re-execution: model of Query._get_translator for a query in which ONE external value is rendered inline as a
   literal (string index / slice bound, getattr name).  The translator cache is keyed by the query code and the TYPES of its
   variables, so a None-valued and an int-valued bound never share a translator (tag); a cached translator is re-used only
   while every value recorded in fixed_param_values equals the value supplied for this run, otherwise it is dropped and the
   query is translated again.  `miss` is the cache-miss path translated from source (Gen/C06Pin.v).  Definitions only. *)
Require Import PonyV.Base.PyBase.

Section Rerun.
Variable miss : option Z -> Z * option Z.      (* supplied value -> (literal in the SQL, value recorded) *)

Definition entry : Type := (Z * option Z)%type.
Definition tag (v : option Z) : bool := match v with None => true | Some _ => false end.
Definition tcache : Type := bool -> option entry.
Definition tempty : tcache := fun _ => None.
Definition upd (c : tcache) (t : bool) (e : entry) : tcache := fun t' => if Bool.eqb t' t then Some e else c t'.

(* for key, val in translator.fixed_param_values.items(): if val != new_vars[key]: drop *)
Definition still_valid (pin : option Z) (v : option Z) : bool :=
  match pin with
  | None => true                                              (* nothing recorded: nothing to compare *)
  | Some p => match v with Some x => x =? p | None => false end
  end.

(* one execution: the literal that is in the statement sent for this run, and the cache afterwards *)
Definition run1 (c : tcache) (v : option Z) : Z * tcache :=
  match c (tag v) with
  | Some (lit, pin) => if still_valid pin v then (lit, c) else (fst (miss v), upd c (tag v) (miss v))
  | None => (fst (miss v), upd c (tag v) (miss v))
  end.

Fixpoint run (c : tcache) (h : list (option Z)) : list Z :=
  match h with
  | [] => []
  | v :: r => let (lit, c') := run1 c v in lit :: run c' r
  end.
End Rerun.
