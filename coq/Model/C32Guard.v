(* C32 - model of what an operation on an object of a *finished* session does, as far as its prefix up to the first
   liveness guard / database access / return is concerned.  The paths themselves are generated from /repo's source
   (Gen/Guards.v, tools/py2coq/guards.py); this file gives them a semantics.  Definitions only. *)
Require Import PonyV.Base.PyBase.

Inductive pre : Type :=
| VGuard        (* if obj._vals_ is None: throw_db_session_is_over(..)      -- fires only after a strict session *)
| DelCheck      (* if obj._status_ in del_statuses: throw_object_was_deleted(obj) *)
| Write         (* a change of session state reachable from the object *)
| Placeholder.  (* obj._vals_[attr] = SetData(): an empty, not-loaded SetData (observationally the same as absent) *)

Inductive term : Type :=
| TGuard        (* if cache is None or not cache.is_alive: throw_db_session_is_over(..) *)
| TDb           (* reaches the database / the current session's cache without a liveness guard *)
| TAssert       (* assert cache is not None and cache.is_alive *)
| TReturn
| TRaiseDeleted
| TRaiseOther.

Record path : Type := mkpath { p_pre : list pre; p_term : term }.

(* the situation of the caller: the object's session is dead in every state of this model *)
Record dstate : Type := mkd {
  vals_gone  : bool;   (* obj._vals_ is None: the session was strict (and had connected) *)
  deleted    : bool;   (* obj._status_ in del_statuses *)
  in_session : bool    (* the attempt is made inside a new db_session (otherwise outside any) *)
}.

Inductive outcome : Type :=
| OSessionOver      (* DatabaseSessionIsOver *)
| ODeleted          (* OperationWithDeletedObjectError *)
| OAssertion        (* AssertionError *)
| OTxError          (* TransactionError that is not the session-is-over error ("db_session is required", "mix objects") *)
| ORanQuery         (* no error: the operation went to the database of the *new* session *)
| OValue            (* returned normally using loaded data only *)
| OOther.           (* another exception raised before anything was touched (argument errors) *)

Definition outcome_eqb (a b : outcome) : bool :=
  match a, b with
  | OSessionOver, OSessionOver | ODeleted, ODeleted | OAssertion, OAssertion | OTxError, OTxError
  | ORanQuery, ORanQuery | OValue, OValue | OOther, OOther => true
  | _, _ => false
  end.

(* run the pre-steps; Some o = stopped with outcome o; the bool is "something was written" *)
Fixpoint run_pre (st : dstate) (l : list pre) (w : bool) : option outcome * bool :=
  match l with
  | [] => (None, w)
  | VGuard :: r => if vals_gone st then (Some OSessionOver, w) else run_pre st r w
  | DelCheck :: r => if deleted st then (Some ODeleted, w) else run_pre st r w
  | Write :: r => run_pre st r true
  | Placeholder :: r => run_pre st r w
  end.

(* possible results of the terminal (database access inside a new session may run the query, be refused by a later
   cross-session check, or find nothing to do and go on; which one depends on data the model does not see) *)
Definition run_term (st : dstate) (t : term) (w : bool) : list (outcome * bool) :=
  match t with
  | TGuard => [(OSessionOver, w)]
  | TDb => if in_session st then [(ORanQuery, true); (OTxError, w); (OValue, w)] else [(OTxError, w)]
  | TAssert => [(OAssertion, w)]
  | TReturn => [(OValue, w)]
  | TRaiseDeleted => [(ODeleted, w)]
  | TRaiseOther => [(OOther, w)]
  end.

Definition run (st : dstate) (p : path) : list (outcome * bool) :=
  match run_pre st (p_pre p) false with
  | (Some o, w) => [(o, w)]
  | (None, w) => run_term st (p_term p) w
  end.

(* sequential composition of operations (g.items.add(x) = Set.__get__ ; SetInstance.add): a TReturn continues *)
Definition seq_path (p q : path) : path :=
  match p_term p with
  | TReturn => mkpath (p_pre p ++ p_pre q) (p_term q)
  | _ => p
  end.
Definition seq_paths (ps qs : list path) : list path := flat_map (fun p => map (seq_path p) qs) ps.
Fixpoint seq_all (l : list (list path)) : list path :=
  match l with
  | [] => [mkpath [] TReturn]
  | ps :: r => seq_paths ps (seq_all r)
  end.

Definition ow_eqb (a b : outcome * bool) : bool := outcome_eqb (fst a) (fst b) && Bool.eqb (snd a) (snd b).
Definition possible (st : dstate) (ps : list path) (obs : outcome * bool) : bool :=
  existsb (fun p => existsb (ow_eqb obs) (run st p)) ps.

(* static classification of a path *)
Definition has_write (l : list pre) : bool := existsb (fun s => match s with Write => true | _ => false end) l.
Definition touches_session (p : path) : bool :=
  has_write (p_pre p) || match p_term p with TGuard | TDb | TAssert => true | _ => false end.
Definition path_guarded (p : path) : bool :=
  negb (has_write (p_pre p)) && match p_term p with TDb | TAssert => false | _ => true end.

Fixpoint failing_from (n : nat) (l : list bool) : list nat :=
  match l with [] => [] | b :: r => (if b then [] else [n]) ++ failing_from (S n) r end.
Definition failing (l : list bool) : list nat := failing_from 0 l.
