(* C01/C02 - several aggregates in one query and GROUP BY: select((<item>, ..., <item>) for p in P [if c]) over one entity, every item
   either a scalar expression (a grouping key: `p.g`, `p.r + 1`) or an aggregate of Model/C01Aggr.v (`count(p)`, `sum(p.a)`, ...):

       SELECT <items> FROM P WHERE <c> GROUP BY <the key items, in order>

   With no key item the query has one result row even over no rows (Model/C01Aggr.v is the one-item case).  SQL: the kept rows are
   partitioned by the values of the key items (NULL keys form one group); Python (Pony's documented meaning of aggregates in a
   select list): the comprehension's rows grouped by the values of the non-aggregate items, aggregates evaluated per group.  The
   order of the groups is unspecified in SQL; both sides list them in order of first appearance and the correspondence harness
   compares sorted lists.  Definitions only. *)
Require Import PonyV.Base.PyBase PonyV.Model.C01Expr PonyV.Model.C01Sql PonyV.Model.C01Translate PonyV.Model.C01Eqb
               PonyV.Model.C01Query PonyV.Model.C01Aggr.

Inductive sitem : Type := SKey (e : expr) | SAgg (g : aggr).
Inductive qitem : Type := QKey (q : qx) | QAggr (qa : qaggr).

Definition tr_item (d : dname) (it : sitem) : option qitem :=
  match it with
  | SKey e => match ty_of e with Some (TV _) => option_map QKey (tr_project d e) | _ => None end
  | SAgg g => option_map QAggr (tr_aggr d 0%nat g)
  end.
Fixpoint tr_items (d : dname) (l : list sitem) : option (list qitem) :=
  match l with
  | [] => Some []
  | it :: r => match tr_item d it, tr_items d r with Some q, Some qs => Some (q :: qs) | _, _ => None end
  end.

(* GROUP BY: the non-aggregated result expressions (translator.groupby_monads) *)
Definition qkeys (l : list qitem) : list qx := flat_map (fun it => match it with QKey q => [q] | QAggr _ => [] end) l.
Definition skeys (l : list sitem) : list expr := flat_map (fun it => match it with SKey e => [e] | SAgg _ => [] end) l.

Definition qitem_eqb (a b : qitem) : bool :=
  match a, b with
  | QKey q, QKey q' => qx_eqb q q'
  | QAggr qa, QAggr qb => oqaggr_eqb (Some qa) qb
  | _, _ => false
  end.
Fixpoint qitems_eqb (a b : list qitem) : bool :=
  match a, b with [], [] => true | x :: a', y :: b' => qitem_eqb x y && qitems_eqb a' b' | _, _ => false end.
Definition oqitems_eqb (a : option (list qitem)) (b : list qitem) : bool := match a with Some l => qitems_eqb l b | None => false end.

Fixpoint qvs_eqb (a b : list qv) : bool :=
  match a, b with [], [] => true | x :: a', y :: b' => qv_eqb x y && qvs_eqb a' b' | _, _ => false end.
Fixpoint pyvs_eqb (a b : list pyv) : bool :=
  match a, b with [], [] => true | x :: a', y :: b' => pyv_eqb x y && pyvs_eqb a' b' | _, _ => false end.

(* the groups of a list of rows under "same key", in order of first appearance; no key: one group, also when there is no row *)
Definition groups_of {A} (has_keys : bool) (same : A -> A -> bool) (rows : list A) : list (list A) :=
  if has_keys then map (fun r => filter (same r) rows) (dedup same rows) else [rows].

Definition nonempty {A} (l : list A) : bool := match l with [] => false | _ => true end.

(* ------------------------------------------------------------------------------------------- SQL side *)
Definition sql_same (d : dname) (keys : list qx) (x y : env) : bool :=
  qvs_eqb (map (qeval d (encenv d x)) keys) (map (qeval d (encenv d y)) keys).

Definition sql_item (d : dname) (grp : list env) (it : qitem) : qv :=
  match it with
  | QKey q => match grp with r :: _ => qeval d (encenv d r) q | [] => NullV end
  | QAggr qa => sql_aggr d qa [] grp
  end.

Definition sql_group_rows (d : dname) (items : list qitem) (conds : list qx) (table : list env) : list (list qv) :=
  let kept := filter (fun en => where_truth d (encenv d en) conds) table in
  map (fun grp => map (sql_item d grp) items) (groups_of (nonempty (qkeys items)) (sql_same d (qkeys items)) kept).

(* ------------------------------------------------------------------------------------------- Python side *)
Definition py_same (keys : list expr) (x y : env) : bool :=
  pyvs_eqb (map (ref_eval x) keys) (map (ref_eval y) keys).

Definition py_item (grp : list env) (it : sitem) : aval :=
  match it with
  | SKey e => match grp with r :: _ => AVal (ref_eval r e) | [] => AVal PNone end
  | SAgg g => py_aggr g None grp
  end.

Definition py_group_rows (items : list sitem) (filt : option expr) (table : list env) : list (list aval) :=
  let kept := filter (keeps filt) table in
  map (fun grp => map (py_item grp) items) (groups_of (nonempty (skeys items)) (py_same (skeys items)) kept).
