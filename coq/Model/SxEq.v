(* Boolean equality on the SQL AST fragment, used by the correspondence run to compare the model's AST with the
   AST the real builder / translator produced (serialised by the harness).  Definitions only. *)
Require Import PonyV.Base.PyBase PonyV.Sql.SqlAst PonyV.Model.GetItem.

Definition opt_eqb {A} (f : A -> A -> bool) (a b : option A) : bool :=
  match a, b with None, None => true | Some x, Some y => f x y | _, _ => false end.

Fixpoint sx_eqb (a b : sx) {struct a} : bool :=
  match a, b with
  | SValue x, SValue y => x =? y
  | SNullValue, SNullValue => true
  | SExt i, SExt j => Nat.eqb i j
  | SLength x, SLength y => sx_eqb x y
  | SAdd x1 x2, SAdd y1 y2 | SSub x1 x2, SSub y1 y2 | SGe x1 x2, SGe y1 y2 | SLt x1 x2, SLt y1 y2
  | SAnd x1 x2, SAnd y1 y2 | SMax x1 x2, SMax y1 y2 | SCoalesce x1 x2, SCoalesce y1 y2 => sx_eqb x1 y1 && sx_eqb x2 y2
  | SIf x1 x2 x3, SIf y1 y2 y3 | SPySlice x1 x2 x3, SPySlice y1 y2 y3 => sx_eqb x1 y1 && sx_eqb x2 y2 && sx_eqb x3 y3
  | SCase l1 d1, SCase l2 d2 =>
      (fix go (l1 l2 : list (sx * sx)) : bool :=
         match l1, l2 with
         | [], [] => true
         | (c1, v1) :: r1, (c2, v2) :: r2 => sx_eqb c1 c2 && sx_eqb v1 v2 && go r1 r2
         | _, _ => false
         end) l1 l2
      && match d1, d2 with None, None => true | Some x, Some y => sx_eqb x y | _, _ => false end
  | SSubstr x1 x2 l1, SSubstr y1 y2 l2 =>
      sx_eqb x1 y1 && sx_eqb x2 y2 && match l1, l2 with None, None => true | Some x, Some y => sx_eqb x y | _, _ => false end
  | SErr, SErr => true
  | _, _ => false
  end.

Definition plan_eqb (a b : plan) : bool :=
  match a, b with
  | PWhole, PWhole => true
  | PSlice a1 a2, PSlice b1 b2 => opt_eqb sx_eqb a1 b1 && opt_eqb sx_eqb a2 b2
  | _, _ => false
  end.

Definition sval_eqb (a b : sval) : bool :=
  match a, b with
  | VNull, VNull | VErr, VErr => true
  | VInt x, VInt y => x =? y
  | VBool x, VBool y => Bool.eqb x y
  | VStr x, VStr y => (fix go (l1 l2 : list Z) := match l1, l2 with [], [] => true | p :: r1, q :: r2 => (p =? q) && go r1 r2 | _, _ => false end) x y
  | _, _ => false
  end.

(* indexes (0-based) of the cases that failed *)
Fixpoint failing_from (n : nat) (l : list bool) : list nat :=
  match l with [] => [] | b :: r => (if b then [] else [n]) ++ failing_from (S n) r end.
Definition failing (l : list bool) : list nat := failing_from 0 l.
