(* C07: checkers used by the correspondence run (evaluated by vm_compute against outputs of the real functions).
   Definitions only. *)
Require Import PonyV.Base.PyBase PonyV.Model.C07Base PonyV.Model.C07Fmt PonyV.Gen.C07Codec PonyV.Model.C07Codec.
Open Scope Z_scope.

Definition optz_eqb (a b : option Z) : bool := opt_eqb Z.eqb a b.
Definition lz_eqb (a b : list Z) : bool := str_eqb a b.

(* '%d' '%02d' '%04d' '%06d' and int() *)
Definition chk_print (n : Z) (s : str) : bool := str_eqb (print_nat n) s && optz_eqb (parse_digits s) (Some n).
Definition chk_d2 (n : Z) (s : str) : bool := str_eqb (d2 n) s && optz_eqb (p2 s) (Some n).
Definition chk_d4 (n : Z) (s : str) : bool := str_eqb (d4 n) s && optz_eqb (p4 s) (Some n).
Definition chk_d6 (n : Z) (s : str) : bool := str_eqb (d6 n) s && optz_eqb (p6 s) (Some n).
Definition chk_int (s : str) (r : option Z) : bool := optz_eqb (parse_int s) r.
Definition chk_split (c : Z) (s : str) (parts : list str) : bool :=
  (fix eq (a b : list str) : bool := match a, b with [] , [] => true | x :: a', y :: b' => str_eqb x y && eq a' b' | _, _ => false end)
    (split_all c s) parts.

(* timedelta2str / str2timedelta *)
Definition mk3 (t : Z * Z * Z) : td_v := mk_td (fst (fst t)) (snd (fst t)) (snd t).
Definition chk_td2str (t : Z * Z * Z) (s : str) : bool := str_eqb (td_str (mk3 t)) s.
Definition chk_str2td (s : str) (r : option (Z * Z * Z)) : bool := opt_eqb td_eqb (str2timedelta s) (option_map mk3 r).

(* datetime2timestamp / timestamp2datetime and the SQLite converters *)
Definition mkd (y m d : Z) : date_v := mk_date y m d.
Definition mkt (h m s us : Z) : time_v := mk_time h m s us.
Definition mkdt (y m d h mi s us : Z) : datetime_v := mk_dt (mk_date y m d) (mk_time h mi s us).
Definition chk_dt2ts (d : datetime_v) (s : str) : bool := str_eqb (datetime2timestamp d) s && str_eqb (sqlite_datetime_py2sql d) s.
Definition chk_ts2dt (s : str) (r : option datetime_v) : bool := opt_eqb dt_eqb (timestamp2datetime s) r.
Definition chk_dt_sql2py (s : str) (r : dbres datetime_v) : bool := dbres_eqb dt_eqb (sqlite_datetime_sql2py s) r.
Definition chk_date_py2sql (d : date_v) (s : str) : bool := str_eqb (sqlite_date_py2sql d) s.
Definition chk_date_sql2py (s : str) (r : dbres date_v) : bool := dbres_eqb date_eqb (sqlite_date_sql2py s) r.
Definition chk_time_py2sql (t : time_v) (s : str) : bool := str_eqb (sqlite_time_py2sql t) s.
Definition chk_time_sql2py (s : str) (r : dbres time_v) : bool := dbres_eqb time_eqb (sqlite_time_sql2py s) r.

(* round_microseconds_to_precision, and the validate methods built on it *)
Definition chk_round (p us : Z) (r : option Z) : bool := optz_eqb (round_us p us) r.
Definition chk_validate_time (p : Z) (t r : time_v) : bool := time_eqb (validate_time p t) r.
Definition chk_validate_dt (p : Z) (d r : datetime_v) : bool := dt_eqb (validate_datetime p d) r.
Definition chk_validate_td (p : Z) (t r : Z * Z * Z) : bool := td_eqb (validate_td p (mk3 t)) (mk3 r).

(* Decimal: py2sql text as (coefficient, exponent) *)
Definition dec_same (a b : dec) : bool := (fst a =? fst b) && (snd a =? snd b).
Definition chk_dec_py2sql (scale : Z) (d r : dec) : bool := dec_same (dec_py2sql scale d) r.
Definition chk_dec_sql2py (scale : Z) (d r : dec) : bool := dec_same (dec_sql2py scale d) r.
Definition chk_dec_eq (a b : dec) (r : bool) : bool := Bool.eqb (dec_eqb a b) r.

(* UUID *)
Definition chk_uuid (n : Z) (bytes : list Z) : bool := str_eqb (uuid_py2sql n) bytes && optz_eqb (uuid_sql2py bytes) (Some n).
Definition chk_bool (b : bool) (z : Z) : bool := (bool_py2sql b =? z) && Bool.eqb (bool_sql2py z) b.

(* JsonConverter.validate / ArrayConverter.validate on tracked values: expected = (kept as is?, notified (owner, attr)) *)
Definition chk_json_validate (obj attr : Z) (v : tval) (kept : bool) (owner oattr : Z) : bool :=
  Bool.eqb (tval_eqb (json_validate obj attr v) (tv_unwrap v)) kept && opt_eqb (fun a b => (fst a =? fst b) && (snd a =? snd b)) (tv_notifies (json_validate obj attr v)) (Some (owner, oattr)).
Definition chk_array_validate (obj attr : Z) (v : tval) (kept : bool) (owner oattr : Z) : bool :=
  Bool.eqb (tval_eqb (array_validate obj attr v) v) kept && opt_eqb (fun a b => (fst a =? fst b) && (snd a =? snd b)) (tv_notifies (array_validate obj attr v)) (Some (owner, oattr)).

(* Oracle / MySQL time stored as an interval *)
Definition chk_ora_time (t : time_v) (td : Z * Z * Z) : bool :=
  td_eqb (ora_time_py2sql t) (mk3 td) && opt_eqb time_eqb (interval_time_sql2py (fst (fst td)) (snd (fst td)) (snd td)) (Some t).
Definition chk_interval_time (td : Z * Z * Z) (r : option time_v) : bool :=
  opt_eqb time_eqb (interval_time_sql2py (fst (fst td)) (snd (fst td)) (snd td)) r.
Definition chk_ora_bool (b : bool) (z : Z) : bool := (ora_bool_py2sql b =? z) && Bool.eqb (ora_bool_sql2py z) b.
