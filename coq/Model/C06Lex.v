(* C06 reference semantics of the *receiving* side (written from the SQL standard / SQLite / MySQL / DB-API documentation;
   lex_quoted and like_match are validated against the linked SQLite on every run, lex_mysql and the driver's
   %-substitution are documentation models).  Definitions only. *)
Require Import PonyV.Base.PyBase PonyV.Model.C06Str.

(* ---------------------------------------------------------------------------------------------------------------
   Standard SQL string literal '...' and delimited identifier (double-quoted) (MySQL: `...`): the delimiter q is written
   twice inside.  lex_body reads the text after the opening delimiter and returns (denoted string, text after the
   closing delimiter). *)
Fixpoint lex_body (q : Z) (t : str) : option (str * str) :=
  match t with
  | [] => None                                           (* unterminated *)
  | c :: t' =>
      if c =? q then
        match t' with
        | d :: t'' =>
            if d =? q
            then match lex_body q t'' with Some (s, r) => Some (q :: s, r) | None => None end
            else Some ([], t')
        | [] => Some ([], [])
        end
      else match lex_body q t' with Some (s, r) => Some (c :: s, r) | None => None end
  end.

Definition lex_quoted (q : Z) (t : str) : option (str * str) :=
  match t with
  | c :: t' => if c =? q then lex_body q t' else None
  | [] => None
  end.

(* the whole text is exactly one literal / identifier *)
Definition lex_whole (q : Z) (t : str) : option str :=
  match lex_quoted q t with Some (s, []) => Some s | _ => None end.

Definition lex_std (t : str) : option str := lex_whole 39 t.          (* '...' *)
Definition lex_ident (q : Z) (t : str) : option str := lex_whole q t.  (* double quotes, or backticks on MySQL *)

(* ---------------------------------------------------------------------------------------------------------------
   MySQL string literal under the default sql_mode (NO_BACKSLASH_ESCAPES off), MySQL reference manual 9.1.1:
   \0 \' \b \n \r \t \Z \\ ; \% and \_ keep the backslash; any other \x is x; '' is '. *)
Definition mysql_escape (c : Z) : str :=
  if c =? 48 then [0] else if c =? 98 then [8] else if c =? 110 then [10] else if c =? 114 then [13]
  else if c =? 116 then [9] else if c =? 90 then [26] else if (c =? 37) || (c =? 95) then [92; c] else [c].

Fixpoint lex_mysql_body (t : str) : option (str * str) :=
  match t with
  | [] => None
  | c :: t' =>
      if c =? 92 then
        match t' with
        | d :: t'' => match lex_mysql_body t'' with Some (s, r) => Some (mysql_escape d ++ s, r) | None => None end
        | [] => None
        end
      else if c =? 39 then
        match t' with
        | d :: t'' =>
            if d =? 39
            then match lex_mysql_body t'' with Some (s, r) => Some (39 :: s, r) | None => None end
            else Some ([], t')
        | [] => Some ([], [])
        end
      else match lex_mysql_body t' with Some (s, r) => Some (c :: s, r) | None => None end
  end.

Definition lex_mysql (t : str) : option str :=
  match t with
  | c :: t' => if c =? 39 then match lex_mysql_body t' with Some (s, []) => Some s | _ => None end else None
  | [] => None
  end.

(* ---------------------------------------------------------------------------------------------------------------
   What a format / pyformat driver (pymysql, MySQLdb, psycopg2) does with the statement text when arguments are
   supplied: Python's `text % args`.  %% is a percent sign, %s takes the next positional argument, %(name)s the named
   one; any other use of % is an error (None).  The result is the character stream the server sees, with the
   argument slots marked. *)
Inductive ftok : Type := FChar (c : Z) | FPos | FNamed (name : str).

Inductive fmode : Type := MText | MPct | MName (depth : nat) (acc : str) | MClose (name : str).

Fixpoint fmt_go (m : fmode) (t : str) : option (list ftok) :=
  match t with
  | [] => match m with MText => Some [] | _ => None end
  | c :: t' =>
      match m with
      | MText =>
          if c =? 37 then fmt_go MPct t'
          else match fmt_go MText t' with Some r => Some (FChar c :: r) | None => None end
      | MPct =>
          if c =? 37 then match fmt_go MText t' with Some r => Some (FChar 37 :: r) | None => None end
          else if c =? 115 then match fmt_go MText t' with Some r => Some (FPos :: r) | None => None end
          else if c =? 40 then fmt_go (MName O []) t'
          else None
      | MName depth acc =>                          (* CPython counts nested parentheses inside a mapping key *)
          if c =? 41 then match depth with O => fmt_go (MClose (rev acc)) t' | S d => fmt_go (MName d (c :: acc)) t' end
          else if c =? 40 then fmt_go (MName (S depth) (c :: acc)) t'
          else fmt_go (MName depth (c :: acc)) t'
      | MClose name =>
          if c =? 115 then match fmt_go MText t' with Some r => Some (FNamed name :: r) | None => None end
          else None
      end
  end.

Definition fmt_scan (t : str) : option (list ftok) := fmt_go MText t.

(* the text the server sees when no argument slot is inside *)
Fixpoint ftoks_text (l : list ftok) : option str :=
  match l with
  | [] => Some []
  | FChar c :: r => match ftoks_text r with Some s => Some (c :: s) | None => None end
  | _ :: _ => None
  end.

Definition fmt_subst (t : str) : option str :=
  match fmt_scan t with Some l => ftoks_text l | None => None end.

(* what the server sees for a piece of statement text, per style, when Pony supplies arguments *)
Definition server_text (st : paramstyle) (t : str) : option str :=
  if style_in st [Format; Pyformat] then fmt_subst t else Some t.

(* ---------------------------------------------------------------------------------------------------------------
   x LIKE p [ESCAPE e], case-sensitive (Pony sets PRAGMA case_sensitive_like = true on SQLite): % any sequence, _ any one
   character, e followed by a character matches that character literally (SQLite semantics; a pattern ending in a lone
   escape character matches nothing). *)
Definition is_esc (esc : option Z) (c : Z) : bool := match esc with Some e => c =? e | None => false end.

(* f holds for some suffix of s *)
Fixpoint any_suffix (f : str -> bool) (s : str) : bool :=
  f s || match s with [] => false | _ :: s' => any_suffix f s' end.

Fixpoint like_match (esc : option Z) (p : str) (s : str) {struct p} : bool :=
  match p with
  | [] => match s with [] => true | _ => false end
  | c :: p' =>
      if is_esc esc c then
        match p' with
        | [] => false
        | d :: p'' => match s with x :: s' => (x =? d) && like_match esc p'' s' | [] => false end
        end
      else if c =? 37 then any_suffix (like_match esc p') s
      else if c =? 95 then
        match s with _ :: s' => like_match esc p' s' | [] => false end
      else
        match s with x :: s' => (x =? c) && like_match esc p' s' | [] => false end
  end.

(* ---------------------------------------------------------------------------------------------------------------
   X'hex' blob literal: two hexadecimal digits per byte. *)
Definition hex_digit (n : Z) : Z := if n <? 10 then 48 + n else 87 + n.     (* 0-9 a-f (binascii.hexlify is lower case) *)
Definition hexlify (bs : list Z) : str := flat_map (fun b => [hex_digit (b / 16); hex_digit (b mod 16)]) bs.

Definition hex_val (c : Z) : option Z :=
  if (48 <=? c) && (c <=? 57) then Some (c - 48)
  else if (97 <=? c) && (c <=? 102) then Some (c - 87)
  else if (65 <=? c) && (c <=? 70) then Some (c - 55)
  else None.

Fixpoint unhex (t : str) : option (list Z) :=
  match t with
  | [] => Some []
  | a :: t' =>
      match t' with
      | b :: t'' =>
          match hex_val a, hex_val b, unhex t'' with
          | Some x, Some y, Some r => Some (16 * x + y :: r)
          | _, _, _ => None
          end
      | [] => None
      end
  end.

(* X'....' : returns the bytes *)
Definition lex_blob (t : str) : option (list Z) :=
  match t with
  | x :: q :: t' =>
      if ((x =? 88) || (x =? 120)) && (q =? 39) then
        match rev t' with
        | q' :: body => if q' =? 39 then unhex (rev body) else None
        | [] => None
        end
      else None
  | _ => None
  end.
