(* Session model, Stage 2 piece: many-to-many link sets (definitions only).
   Two entities A (bs = Set('B')) and B (as_ = Set('A')) with integer primary keys, all objects already stored and fetched into the session;
   the model follows pony/orm/core.py: SetData (items / added / removed / is_fully_loaded / count) on BOTH sides, Set.load (single, partial
   "items" load, prefetching after the first full load of an attribute), SetInstance.add / remove, Set.__set__, reverse_add / reverse_remove /
   db_reverse_add, cache.modified_collections, _calc_modified_m2m + remove_m2m / add_m2m at flush, commit, rollback (= a new session).
   Side 0 = A.bs, side 1 = B.as_.  A link row is a pair (a, b).  Objects are named by their primary keys.
   Tied to real Pony + SQLite by tools/session_m2m.py (vm_compute of check_m2m on generated histories). *)
Require Import PonyV.Model.SessionBase.
Open Scope nat_scope.

Record msd : Type := mkMsd { m_items : list nat; m_added : list nat; m_removed : list nat; m_full : bool; m_count : option nat }.
Definition msd0 : msd := mkMsd [] [] [] false None.

Record mst : Type := mkMst {
  m_db : list (nat * nat); m_committed : list (nat * nat);
  m_sd : list ((nat * nat) * msd);                (* (side, object) -> SetData *)
  m_modc0 : list nat; m_modc1 : list nat;        (* cache.modified_collections[A.bs] / [B.as_] *)
  m_modified : bool;
  m_stat0 : nat; m_stat1 : nat;                  (* cache.collection_statistics *)
  m_na : nat; m_nb : nat;                        (* objects 1..na of A, 1..nb of B, in primary-key-index order *)
  m_dirty : nat }.                               (* 0, or the assertion / UnrepeatableReadError / IntegrityError site that was reached *)

Definition set_db st x := mkMst x (m_committed st) (m_sd st) (m_modc0 st) (m_modc1 st) (m_modified st) (m_stat0 st) (m_stat1 st) (m_na st) (m_nb st) (m_dirty st).
Definition set_committed st x := mkMst (m_db st) x (m_sd st) (m_modc0 st) (m_modc1 st) (m_modified st) (m_stat0 st) (m_stat1 st) (m_na st) (m_nb st) (m_dirty st).
Definition set_sd st x := mkMst (m_db st) (m_committed st) x (m_modc0 st) (m_modc1 st) (m_modified st) (m_stat0 st) (m_stat1 st) (m_na st) (m_nb st) (m_dirty st).
Definition set_modc st (x0 x1 : list nat) := mkMst (m_db st) (m_committed st) (m_sd st) x0 x1 (m_modified st) (m_stat0 st) (m_stat1 st) (m_na st) (m_nb st) (m_dirty st).
Definition set_modified st x := mkMst (m_db st) (m_committed st) (m_sd st) (m_modc0 st) (m_modc1 st) x (m_stat0 st) (m_stat1 st) (m_na st) (m_nb st) (m_dirty st).
Definition set_stat st (x0 x1 : nat) := mkMst (m_db st) (m_committed st) (m_sd st) (m_modc0 st) (m_modc1 st) (m_modified st) x0 x1 (m_na st) (m_nb st) (m_dirty st).
Definition mdirty st (site : nat) := mkMst (m_db st) (m_committed st) (m_sd st) (m_modc0 st) (m_modc1 st) (m_modified st) (m_stat0 st) (m_stat1 st) (m_na st) (m_nb st)
                                          (match m_dirty st with O => site | n => n end).

Definition key_eqb (x y : nat * nat) : bool := Nat.eqb (fst x) (fst y) && Nat.eqb (snd x) (snd y).
Definition getsd (st : mst) (side o : nat) : option msd := aget key_eqb (side, o) (m_sd st).
Definition getsd' (st : mst) (side o : nat) : msd := match getsd st side o with Some sd => sd | None => msd0 end.
Definition putsd (st : mst) (side o : nat) (sd : msd) : mst := set_sd st (aset key_eqb (side, o) sd (m_sd st)).
Definition other (side : nat) : nat := match side with O => 1 | _ => O end.
Definition modc_add (st : mst) (side o : nat) : mst :=
  match side with O => set_modc st (add_nat o (m_modc0 st)) (m_modc1 st) | _ => set_modc st (m_modc0 st) (add_nat o (m_modc1 st)) end.
Definition pair_of (side o x : nat) : nat * nat := match side with O => (o, x) | _ => (x, o) end.
Definition has_row (db : list (nat * nat)) (p : nat * nat) : bool := existsb (key_eqb p) db.
(* the other ends of the link rows of o *)
Definition dbitems (st : mst) (side o : nat) : list nat :=
  map (fun p => match side with O => snd p | _ => fst p end) (filter (fun p => Nat.eqb (match side with O => fst p | _ => snd p end) o) (m_db st)).

(* attr.reverse_add(objects, item): the SetData of every object (on `side`) gets item; assertions of the code are dirty sites 11, 12 *)
Definition reverse_add (st : mst) (side : nat) (objs : list nat) (item : nat) : mst :=
  fold_left (fun st obj =>
    let sd := getsd' st side obj in
    if mem_nat item (m_items sd) then mdirty st 11
    else if mem_nat item (m_added sd) then mdirty st 12
    else
      let in_removed := mem_nat item (m_removed sd) in
      modc_add (putsd st side obj (mkMsd (m_items sd ++ [item]) (if in_removed then m_added sd else m_added sd ++ [item])
                                         (if in_removed then remove_nat item (m_removed sd) else m_removed sd) (m_full sd) (option_map S (m_count sd)))) side obj)
    objs st.

(* attr.reverse_remove(objects, item); assertions: sites 13 (no SetData), 14 (item not a member), 15 (item already removed) *)
Definition reverse_remove (st : mst) (side : nat) (objs : list nat) (item : nat) : mst :=
  fold_left (fun st obj =>
    match getsd st side obj with
    | None => mdirty st 13
    | Some sd =>
      if negb (mem_nat item (m_items sd)) then mdirty st 14
      else if mem_nat item (m_removed sd) then mdirty st 15
      else
        let in_added := mem_nat item (m_added sd) in
        putsd (modc_add st side obj) side obj
              (mkMsd (remove_nat item (m_items sd)) (if in_added then remove_nat item (m_added sd) else m_added sd)
                     (if in_added then m_removed sd else m_removed sd ++ [item]) (m_full sd) (option_map pred (m_count sd)))
    end) objs st.

(* attr.db_reverse_add(objects, item): UnrepeatableReadError ("phantom object appeared") is dirty site 16 *)
Definition db_reverse_add (st : mst) (side : nat) (objs : list nat) (item : nat) : mst :=
  fold_left (fun st obj =>
    match getsd st side obj with
    | None => putsd st side obj (mkMsd [item] [] [] false None)
    | Some sd => if m_full sd then mdirty st 16
                 else putsd st side obj (mkMsd (add_nat item (m_items sd)) (m_added sd) (m_removed sd) (m_full sd) (m_count sd))
    end) objs st.

Definition nobjs (st : mst) (side : nat) : nat := match side with O => m_na st | _ => m_nb st end.
Definition stat (st : mst) (side : nat) : nat := match side with O => m_stat0 st | _ => m_stat1 st end.

(* the rows of one object enter its SetData (Set.load, the loop over d.items()); "phantom object disappeared" is dirty site 17 *)
Definition load_merge (st : mst) (side o2 : nat) (its : list nat) : mst :=
  let sd2 := getsd' st side o2 in
  if match diff_nat (diff_nat (m_items sd2) its) (m_added sd2) with [] => false | _ => true end then mdirty st 17
  else
    let its' := diff_nat (diff_nat its (m_items sd2)) (m_removed sd2) in
    let st1 := putsd st side o2 (mkMsd (m_items sd2 ++ its') (m_added sd2) (m_removed sd2) (m_full sd2) (m_count sd2)) in
    fold_left (fun st x => db_reverse_add st (other side) [x] o2) its' st1.

(* Set.load(obj, items); items = [] stands for None / an empty argument *)
Definition load (st : mst) (side o : nat) (items : list nat) : mst :=
  let st := match getsd st side o with None => putsd st side o msd0 | Some _ => st end in
  let sd := getsd' st side o in
  if m_full sd then st
  else
    let items' := diff_nat (diff_nat (dedup_nat items) (m_items sd)) (m_removed sd) in
    let full_load (st : mst) :=
      let prefetching := Nat.leb 1 (stat st side) in
      (* prefetching: every other object of the entity whose collection is not fully loaded (a SetData is created for it) *)
      let '(st1, objects) :=
        if prefetching then
          fold_left (fun acc o2 =>
             let '(stx, l) := acc in
             if Nat.eqb o2 o then acc
             else match getsd stx side o2 with
                  | None => (putsd stx side o2 msd0, l ++ [o2])
                  | Some sd2 => if m_full sd2 then acc else (stx, l ++ [o2])
                  end) (seq 1 (nobjs st side)) (st, [o])
        else (st, [o]) in
      let single := match objects with [_] => true | _ => false end in
      let st2 := st1 in
      let st3 := fold_left (fun st o2 =>
                    let its := dbitems st side o2 in
                    match its, single with
                    | [], false => st                (* no row: the object is not in the dictionary of results *)
                    | _, _ => load_merge st side o2 its
                    end) objects st2 in
      let st4 := fold_left (fun st o2 =>
                    let sd2 := getsd' st side o2 in
                    putsd st side o2 (mkMsd (m_items sd2) (m_added sd2) (m_removed sd2) true (Some (length (m_items sd2))))) objects st3 in
      match side with O => set_stat st4 (S (m_stat0 st4)) (m_stat1 st4) | _ => set_stat st4 (m_stat0 st4) (S (m_stat1 st4)) end in
    match items with
    | [] => full_load st
    | _ =>
      match items' with
      | [] => st
      | _ =>
        match m_items sd with
        | [] =>
          (* the partial load: only the given items are looked up *)
          let loaded := filter (fun x => has_row (m_db st) (pair_of side o x)) items' in
          let st1 := putsd st side o (mkMsd (m_items sd ++ loaded) (m_added sd) (m_removed sd) (m_full sd) (m_count sd)) in
          fold_left (fun st x => db_reverse_add st (other side) [x] o) loaded st1
        | _ => full_load st
        end
      end
    end.

Inductive mop : Type :=
| MAdd (side o : nat) (items : list nat) | MRemove (side o : nat) (items : list nat) | MAssign (side o : nat) (items : list nat)
| MRead (side o : nat) | MFlush | MCommit | MRollback.
Inductive mres : Type := MOk | MList (l : list nat) | MErr.

Definition finish_mod (st : mst) (side o : nat) : mst := set_modified (modc_add st side o) true.

Definition madd (st : mst) (side o : nat) (items0 : list nat) : mst :=
  let items := dedup_nat items0 in
  match items with
  | [] => st
  | _ =>
    let new1 := match getsd st side o with Some sd => diff_nat items (m_items sd) | None => items end in
    let st1 := match getsd st side o with
               | Some sd => if m_full sd then st else load st side o new1
               | None => load st side o new1
               end in
    let sd := getsd' st1 side o in
    let new2 := diff_nat new1 (m_items sd) in
    let st2 := fold_left (fun st x => reverse_add st (other side) [x] o) new2 st1 in
    let sd := getsd' st2 side o in
    let new3 := match m_removed sd with [] => new2 | _ => diff_nat new2 (m_removed sd) end in
    let removed' := match m_removed sd with [] => [] | _ => diff_nat (m_removed sd) new2 end in
    finish_mod (putsd st2 side o (mkMsd (m_items sd ++ new2) (union_nat (m_added sd) new3) removed' (m_full sd)
                                       (option_map (fun n => n + length new2) (m_count sd)))) side o
  end.

Definition mremove (st : mst) (side o : nat) (items0 : list nat) : mst :=
  let items := dedup_nat items0 in
  let items1 := match getsd st side o with Some sd => diff_nat items (m_removed sd) | None => items end in
  match items1 with
  | [] => st
  | _ =>
    let st1 := match getsd st side o with
               | Some sd => if m_full sd then st else load st side o items1
               | None => load st side o items1
               end in
    let sd := getsd' st1 side o in
    let items2 := inter_nat items1 (m_items sd) in
    let st2 := fold_left (fun st x => reverse_remove st (other side) [x] o) items2 st1 in
    let sd := getsd' st2 side o in
    let items3 := match m_added sd with [] => items2 | _ => diff_nat items2 (m_added sd) end in
    let added' := match m_added sd with [] => [] | _ => diff_nat (m_added sd) items2 end in
    finish_mod (putsd st2 side o (mkMsd (diff_nat (m_items sd) items2) added' (union_nat (m_removed sd) items3) (m_full sd)
                                       (option_map (fun n => n - length items2) (m_count sd)))) side o
  end.

Definition massign (st : mst) (side o : nat) (items0 : list nat) : mst :=
  let new := dedup_nat items0 in
  let st1 := match getsd st side o with
             | Some sd => if m_full sd then st else load st side o []
             | None => load st side o []
             end in
  let sd := getsd' st1 side o in
  if seteq_nat new (m_items sd) then st1
  else
    let to_add := diff_nat new (m_items sd) in
    let to_remove := diff_nat (m_items sd) new in
    let st2 := fold_left (fun st x => reverse_remove st (other side) [x] o) to_remove st1 in
    let st3 := fold_left (fun st x => reverse_add st (other side) [x] o) to_add st2 in
    let sd := getsd' st3 side o in
    (* if to_add: ... *)
    let '(added1, removed1) :=
      match to_add with
      | [] => (m_added sd, m_removed sd)
      | _ => let ta := match m_removed sd with [] => to_add | _ => diff_nat to_add (m_removed sd) end in
             let rm := match m_removed sd with [] => [] | _ => diff_nat (m_removed sd) to_add end in
             (union_nat (m_added sd) ta, rm)
      end in
    (* if to_remove: ... *)
    let '(added2, removed2) :=
      match to_remove with
      | [] => (added1, removed1)
      | _ => let tr := match added1 with [] => to_remove | _ => diff_nat to_remove added1 end in
             let ad := match added1 with [] => [] | _ => diff_nat added1 to_remove end in
             (ad, union_nat removed1 tr)
      end in
    finish_mod (putsd st3 side o (mkMsd new added2 removed2 (m_full sd) (option_map (fun _ => length new) (m_count sd)))) side o.

Definition mread (st : mst) (side o : nat) : mst * list nat :=
  let st1 := match getsd st side o with
             | Some sd => if m_full sd then st else load st side o []
             | None => load st side o []
             end in
  (st1, sort_by Nat.leb (m_items (getsd' st1 side o))).

(* flush: _calc_modified_m2m takes the pairs from the A.bs side (the first attribute in its sort order), clears added / removed on both sides;
   DELETE the removed link rows, INSERT the added ones (a duplicate row is an IntegrityError: dirty site 18) *)
Definition mflush (st : mst) : mst :=
  if negb (m_modified st) then st
  else
    let added := flat_map (fun a => map (fun b => (a, b)) (m_added (getsd' st 0 a))) (m_modc0 st) in
    let removed := flat_map (fun a => map (fun b => (a, b)) (m_removed (getsd' st 0 a))) (m_modc0 st) in
    let clear (st : mst) (side : nat) (objs : list nat) :=
      fold_left (fun st o => match getsd st side o with
                             | Some sd => putsd st side o (mkMsd (m_items sd) [] [] (m_full sd) (m_count sd))
                             | None => st end) objs st in
    let st1 := clear (clear st 0 (m_modc0 st)) 1 (m_modc1 st) in
    let db1 := filter (fun p => negb (existsb (key_eqb p) removed)) (m_db st1) in
    let st2 := if existsb (fun p => has_row db1 p) added then mdirty st1 18 else st1 in
    set_modified (set_modc (set_db st2 (db1 ++ added)) [] []) false.

Definition mreset (st : mst) : mst :=
  mkMst (m_committed st) (m_committed st) [] [] [] false 0 0 (m_na st) (m_nb st) (m_dirty st).

Definition valid_obj (st : mst) (side o : nat) : bool := Nat.leb 1 o && Nat.leb o (nobjs st side).
Definition valid_items (st : mst) (side : nat) (items : list nat) : bool := forallb (fun x => valid_obj st (other side) x) items.

Definition mstep (st : mst) (op : mop) : mst * mres :=
  match op with
  | MAdd side o items => if Nat.leb side 1 && valid_obj st side o && valid_items st side items then (madd st side o items, MOk) else (st, MErr)
  | MRemove side o items => if Nat.leb side 1 && valid_obj st side o && valid_items st side items then (mremove st side o items, MOk) else (st, MErr)
  | MAssign side o items => if Nat.leb side 1 && valid_obj st side o && valid_items st side items then (massign st side o items, MOk) else (st, MErr)
  | MRead side o => if Nat.leb side 1 && valid_obj st side o then let '(st1, l) := mread st side o in (st1, MList l) else (st, MErr)
  | MFlush => (mflush st, MOk)
  | MCommit => let st1 := mflush st in (set_committed st1 (m_db st1), MOk)
  | MRollback => (mreset st, MOk)
  end.

Definition minit (na nb : nat) (links : list (nat * nat)) : mst := mkMst links links [] [] [] false 0 0 na nb 0.
Definition mrun (st : mst) (ops : list mop) : mst := fold_left (fun st op => fst (mstep st op)) ops st.

(* ---------------------------------------------------------------- the checker of the correspondence run *)
Definition pair_le (p q : nat * nat) : bool := Nat.ltb (fst p) (fst q) || (Nat.eqb (fst p) (fst q) && Nat.leb (snd p) (snd q)).
Definition mres_eqb (a b : mres) : bool :=
  match a, b with
  | MOk, MOk => true | MErr, MErr => true
  | MList x, MList y => list_eqb Nat.eqb x y
  | _, _ => false
  end.
Definition rows_eqb (x y : list (nat * nat)) : bool := list_eqb key_eqb (sort_by pair_le x) (sort_by pair_le y).

(* results : what the implementation returned; dumps : its link table (through a second connection) after each op, [] = not dumped.
   Verdict: (0, _) agree; (100 + site, i) the model reached a dirty site at op i (the implementation must have raised there: flag);
   (3, i) result mismatch; (4, i) committed rows mismatch *)
Fixpoint check_m2m (st : mst) (ops : list mop) (results : list (mres * bool)) (dumps : list (option (list (nat * nat)))) (i : nat) : nat * nat :=
  match ops, results, dumps with
  | op :: ops', (r, raised) :: results', d :: dumps' =>
    let '(st1, r1) := mstep st op in
    if negb (Nat.eqb (m_dirty st1) 0) then (if raised then (100 + m_dirty st1, i) else (5, i))
    else if raised then (6, i)
    else if negb (mres_eqb r r1) then (3, i)
    else match d with
         | Some rows => if rows_eqb rows (m_committed st1) then check_m2m st1 ops' results' dumps' (S i) else (4, i)
         | None => check_m2m st1 ops' results' dumps' (S i)
         end
  | _, _, _ => (0, i)
  end.
