Require Import PonyV.Base.PyBase PonyV.Base.Seg PonyV.Sql.SqlAst PonyV.Sql.Dialect PonyV.Gen.StringSlice PonyV.Model.GetItem.

Definition build_slice (p : path) (expr : sx) (start stop : option sx) : sx :=
  match p with
  | PathPg => string_slice true expr start stop
  | PathMySQL => string_slice false expr start stop
  | PathSQLite => sqlite_string_slice expr start stop
  end.

(* SQL value of  expr[start:stop]  as Pony translates it *)
Definition slice_value (p : path) (env : nat -> sval) (expr : sx) (start stop : bshape) : sval :=
  match getitem_plan start stop with
  | PWhole => eval (path_dialect p) env expr
  | PSlice a b => eval (path_dialect p) env (build_slice p expr a b)
  end.

Definition index_value (p : path) (env : nat -> sval) (expr : sx) (idx : bshape) : sval :=
  match getitem_index (match p with PathPg => true | _ => false end) expr idx with
  | Some e => eval (path_dialect p) env e
  | None => VErr
  end.
