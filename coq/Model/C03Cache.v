(* C03 - the tree cache of pony.orm.decompiling.decompile(): `ast_cache[get_codeobject_id(code)]`.
   The key is the ADDRESS of the code object (Python's id()).  Addresses are unique among the objects that are alive
   at the same time, but CPython reuses the address of a freed object.  utils.get_codeobject_id therefore stores every
   code object it has seen in the module-level dict `codeobjects`: the object stays alive for ever, its address can never
   be handed to another code object, and the key is injective over the whole history.  Definitions only. *)
From Coq Require Import List Bool Arith.
Import ListNotations.

(* a code object: where it lives, and what it contains (the content determines the decompiled tree) *)
Record cobj : Type := mkObj { oid : nat; ocontent : nat }.

Definition cobj_eqb (a b : cobj) : bool := Nat.eqb (oid a) (oid b) && Nat.eqb (ocontent a) (ocontent b).

Inductive cop : Type :=
| CDecompile (o : cobj)     (* the program passes o (new, or one it still holds) to decompile() *)
| CDrop (o : cobj).         (* the program releases its last reference to o *)

Record cstate : Type := mkC {
  held : list cobj;             (* alive because the program holds them *)
  pinned : list cobj;           (* alive because utils.codeobjects holds them *)
  cache : list (nat * nat)      (* ast_cache: address -> tree *)
}.

Definition live (s : cstate) : list cobj := held s ++ pinned s.

Fixpoint clookup (k : nat) (c : list (nat * nat)) : option nat :=
  match c with [] => None | (i, t) :: r => if Nat.eqb i k then Some t else clookup k r end.

(* the allocator's only guarantee: a NEW object does not get the address of an object that is alive *)
Definition alloc_ok (s : cstate) (o : cobj) : bool :=
  existsb (cobj_eqb o) (live s) || negb (existsb (fun x => Nat.eqb (oid x) (oid o)) (live s)).

(* one call of decompile(o); pin = does get_codeobject_id keep the object alive; f = the decompiler proper.
   Returns the tree handed to the caller. *)
Definition cdecompile (pin : bool) (f : nat -> nat) (s : cstate) (o : cobj) : nat * cstate :=
  let held' := if existsb (cobj_eqb o) (held s) then held s else o :: held s in
  let pinned' := if pin then (if existsb (cobj_eqb o) (pinned s) then pinned s else o :: pinned s) else pinned s in
  match clookup (oid o) (cache s) with
  | Some t => (t, mkC held' pinned' (cache s))
  | None => (f (ocontent o), mkC held' pinned' ((oid o, f (ocontent o)) :: cache s))
  end.

Definition cdrop (s : cstate) (o : cobj) : cstate :=
  mkC (filter (fun x => negb (cobj_eqb o x)) (held s)) (pinned s) (cache s).

(* a whole history; None = the history is impossible (a new object at the address of a live one) *)
Fixpoint crun (pin : bool) (f : nat -> nat) (s : cstate) (ops : list cop) : option (list nat) :=
  match ops with
  | [] => Some []
  | CDecompile o :: r =>
      if alloc_ok s o then
        let '(t, s') := cdecompile pin f s o in
        match crun pin f s' r with Some l => Some (t :: l) | None => None end
      else None
  | CDrop o :: r => crun pin f (cdrop s o) r
  end.

(* what every call must return: the tree of the object that was passed in *)
Fixpoint cexpected (f : nat -> nat) (ops : list cop) : list nat :=
  match ops with
  | [] => []
  | CDecompile o :: r => f (ocontent o) :: cexpected f r
  | CDrop _ :: r => cexpected f r
  end.

Definition cinit : cstate := mkC [] [] [].
