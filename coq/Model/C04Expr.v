(* C04 - model of PythonTranslator (pony/orm/asttranslation.py): expression trees, tokens, the parametric printer
   `print st e` (st says where a child is parenthesised), its text rendering, and Python's grammar levels
   (prec / req) from which the reference rule `ref_needs` is derived.  Definitions only, no proofs.

   A tree is `Node label children` (one uniform constructor, so that a single induction principle covers every
   node kind); `wf` states the arities and which kind may stand where.  Strings are lists of code points. *)
From Coq Require Import ZArith List Bool Arith.
Import ListNotations.

Definition str := list Z.

Inductive kind :=
| KName | KConst | KNegConst | KOr | KAnd | KNot | KCompare | KBitOr | KBitXor | KBitAnd | KLShift | KRShift | KAdd | KSub
| KMult | KDiv | KFloorDiv | KMod | KUSub | KUAdd | KInvert | KPow | KAttribute | KCall | KSubscript | KIfExp | KLambda
| KTuple | KList | KIdxTuple | KStarArg | KStarElt | KKeyword | KSlice | KJoined | KFormatted
| KOther.      (* dict / set displays, generator expressions: known to the marking model (Model/C04Ext.v) only, not to the printer / parser *)

Definition all_kinds : list kind :=
  [KName; KConst; KNegConst; KOr; KAnd; KNot; KCompare; KBitOr; KBitXor; KBitAnd; KLShift; KRShift; KAdd; KSub;
   KMult; KDiv; KFloorDiv; KMod; KUSub; KUAdd; KInvert; KPow; KAttribute; KCall; KSubscript; KIfExp; KLambda;
   KTuple; KList; KIdxTuple; KStarArg; KStarElt; KKeyword; KSlice; KJoined; KFormatted; KOther].
Definition all_pos : list nat := [0; 1; 2].

Definition kind_idx (k : kind) : nat :=
  match k with
  | KName => 0 | KConst => 1 | KNegConst => 2 | KOr => 3 | KAnd => 4 | KNot => 5 | KCompare => 6 | KBitOr => 7 | KBitXor => 8
  | KBitAnd => 9 | KLShift => 10 | KRShift => 11 | KAdd => 12 | KSub => 13 | KMult => 14 | KDiv => 15 | KFloorDiv => 16
  | KMod => 17 | KUSub => 18 | KUAdd => 19 | KInvert => 20 | KPow => 21 | KAttribute => 22 | KCall => 23 | KSubscript => 24
  | KIfExp => 25 | KLambda => 26 | KTuple => 27 | KList => 28 | KIdxTuple => 29 | KStarArg => 30 | KStarElt => 31
  | KKeyword => 32 | KSlice => 33 | KJoined => 34 | KFormatted => 35 | KOther => 36
  end.
Definition kind_eqb (a b : kind) : bool := Nat.eqb (kind_idx a) (kind_idx b).

Inductive cmpop := CEq | CNotEq | CLt | CLtE | CGt | CGtE | CIs | CIsNot | CIn | CNotIn.
Definition cmp_idx (o : cmpop) : nat :=
  match o with CEq => 0 | CNotEq => 1 | CLt => 2 | CLtE => 3 | CGt => 4 | CGtE => 5 | CIs => 6 | CIsNot => 7 | CIn => 8 | CNotIn => 9 end.
Definition cmp_eqb (a b : cmpop) : bool := Nat.eqb (cmp_idx a) (cmp_idx b).

(* what a node carries besides its children *)
Inductive label :=
| LName (s : str)                       (* identifier *)
| LConst (s : str)                      (* repr() text of a non-negative constant *)
| LNegConst (s : str)                   (* a negative numeric constant -n, s = repr n (only from constant folding, never from ast.parse) *)
| LOp (k : kind)                        (* operators, conditional, call, subscript, displays, starred: no data *)
| LCompare (ops : list cmpop)           (* children: left operand and one comparator per operator *)
| LLambda (args : list str)             (* positional parameter names *)
| LAttribute (name : str)
| LKeyword (name : option str)          (* name=value / **value *)
| LSlice (lo hi st : bool)              (* which of lower:upper:step are present (children in that order) *)
| LJoined (lits : list str)             (* f-string: n+1 literal segments around n FormattedValue children *)
| LFormatted (conv : option Z) (spec : option str)    (* {value!conv:spec} *)
(* labels of the marking model only (kind KOther; never well-formed for the printer / parser): *)
| LDict                                 (* {k: v, ...}: children = the keys followed by the values *)
| LSet                                  (* {a, b, ...} *)
| LGen (clauses : list (list str * nat)). (* (elt for targets in iter if c1 if c2 ... for ...): per clause the target names and the number of
                                           conditions; children = per clause the iterable followed by its conditions, then the element *)

Definition kind_of (l : label) : kind :=
  match l with
  | LName _ => KName | LConst _ => KConst | LNegConst _ => KNegConst | LOp k => k | LCompare _ => KCompare
  | LLambda _ => KLambda | LAttribute _ => KAttribute | LKeyword _ => KKeyword | LSlice _ _ _ => KSlice
  | LJoined _ => KJoined | LFormatted _ _ => KFormatted | LDict | LSet | LGen _ => KOther
  end.

Inductive expr := Node (l : label) (cs : list expr).

Definition ekind (e : expr) : kind := match e with Node l _ => kind_of l end.

(* ---------------------------------------------------------------- kinds: classes *)

Definition is_bool (k : kind) : bool := match k with KOr | KAnd => true | _ => false end.
Definition is_unary (k : kind) : bool := match k with KNot | KUSub | KUAdd | KInvert => true | _ => false end.
Definition is_binary (k : kind) : bool :=
  match k with
  | KBitOr | KBitXor | KBitAnd | KLShift | KRShift | KAdd | KSub | KMult | KDiv | KFloorDiv | KMod | KPow => true
  | _ => false
  end.
(* kinds that are expressions of the grammar; the others are "items" that only occur in argument lists, displays, subscripts, f-strings *)
Definition expr_kindb (k : kind) : bool :=
  match k with KIdxTuple | KStarArg | KStarElt | KKeyword | KSlice | KFormatted => false | _ => true end.

(* ---------------------------------------------------------------- Python's grammar as levels (reference, hand-written;
   validated against CPython on every run).  0 expression (lambda, conditional)  1 disjunction  2 conjunction  3 inversion
   4 comparison  5 |  6 ^  7 &  8 shifts  9 sum  10 term  11 factor  12 power  13 primary  14 atom *)

Definition prec (k : kind) : nat :=
  match k with
  | KLambda | KIfExp => 0
  | KOr => 1 | KAnd => 2 | KNot => 3 | KCompare => 4 | KBitOr => 5 | KBitXor => 6 | KBitAnd => 7
  | KLShift | KRShift => 8 | KAdd | KSub => 9 | KMult | KDiv | KFloorDiv | KMod => 10
  | KUSub | KUAdd | KInvert | KNegConst => 11
  | KPow => 12
  | KAttribute | KCall | KSubscript => 13
  | _ => 14
  end.

(* level at which the grammar parses the child in position class i of a node of kind p *)
Definition req (p : kind) (i : nat) : nat :=
  match p with
  | KIfExp => match i with 2 => 0 | _ => 1 end
  | KOr => 2
  | KAnd | KNot => 3
  | KCompare => 5
  | KPow => match i with 0 => 13 | _ => 11 end
  | KBitOr | KBitXor | KBitAnd | KLShift | KRShift | KAdd | KSub | KMult | KDiv | KFloorDiv | KMod =>
      match i with 0 => prec p | _ => S (prec p) end
  | KUSub | KUAdd | KInvert => 11
  | KAttribute | KCall | KSubscript => match i with 0 => 13 | _ => 0 end
  | KStarElt => 5
  | _ => 0
  end.

(* number of position classes of a kind, and the class of the idx-th child *)
Definition npos (p : kind) : nat :=
  match p with
  | KName | KConst | KNegConst => 0
  | KIfExp => 3
  | KCall | KSubscript => 2
  | _ => if is_binary p then 2 else 1
  end.

Definition pos_of (p : kind) (idx : nat) : nat :=
  match p with
  | KIfExp | KSubscript => idx
  | KCall => match idx with 0 => 0 | _ => 1 end
  | _ => if is_binary p then idx else 0
  end.

(* which kind may stand in which position (Python's abstract grammar, with the subscript tuple and the two uses of
   Starred split into kinds of their own) *)
Definition allowed (p : kind) (i : nat) (c : kind) : bool :=
  (i <? npos p) &&
  match p, i with
  | KCall, 1 => expr_kindb c || kind_eqb c KStarArg || kind_eqb c KKeyword
  | KSubscript, 1 => (expr_kindb c && negb (kind_eqb c KTuple)) || kind_eqb c KSlice || kind_eqb c KIdxTuple
  | KTuple, _ | KList, _ => expr_kindb c || kind_eqb c KStarElt
  | KIdxTuple, _ => expr_kindb c || kind_eqb c KSlice
  | KJoined, _ => kind_eqb c KFormatted
  | _, _ => expr_kindb c
  end.

(* THE REFERENCE RULE: a child must be parenthesised iff its own level is below the level its position is parsed at *)
Definition ref_needs (p : kind) (i : nat) (c : kind) : bool := allowed p i c && (prec c <? req p i).

(* ---------------------------------------------------------------- tokens *)

Inductive tok :=
| TName (s : str) | TConst (s : str)
| TBool (k : kind)            (* or / and *)
| TUn (k : kind)              (* not - + ~ *)
| TBin (k : kind)             (* binary operators including ** *)
| TCmp (o : cmpop)
| TIf | TElse
| TLambda (args : list str)   (* `lambda a, b:` *)
| TDot (name : str)           (* `.name` *)
| TLP | TRP | TLB | TRB | TComma
| TTrail                      (* the comma of a one-element tuple `(a,)` *)
| TColon | TStar | TDStar
| TKw (name : str)            (* `name=` *)
| TFBegin | TFLit (s : str) | TFOpen | TFClose (conv : option Z) (spec : option str) | TFEnd.

(* ---------------------------------------------------------------- the printer *)

Record style := { needs : kind -> nat -> kind -> bool;    (* parent kind, position class, child kind *)
                  keep_spec : bool;                        (* is the format spec of an f-string field printed *)
                  short_idx : bool }.                      (* x[a,] keeps its comma, x[()] its parentheses (else: x[a], x[]) *)

Definition wrap (b : bool) (ts : list tok) : list tok := if b then TLP :: ts ++ [TRP] else ts.

Fixpoint sep_tail (sep : tok) (ws : list (list tok)) : list tok :=
  match ws with [] => [] | w :: ws' => sep :: w ++ sep_tail sep ws' end.
Definition sep_by (sep : tok) (ws : list (list tok)) : list tok :=
  match ws with [] => [] | w :: ws' => w ++ sep_tail sep ws' end.

Fixpoint cmp_tail (ops : list cmpop) (ws : list (list tok)) : list tok :=
  match ops, ws with o :: ops', w :: ws' => TCmp o :: w ++ cmp_tail ops' ws' | _, _ => [] end.

Fixpoint fparts (ws : list (list tok)) (ls : list str) : list tok :=
  match ws, ls with w :: ws', l :: ls' => w ++ TFLit l :: fparts ws' ls' | _, _ => [] end.

Definition slice_layout (lo hi st : bool) (ws : list (list tok)) : list tok :=
  let '(a, ws1) := if lo then match ws with w :: r => (w, r) | [] => ([], []) end else ([], ws) in
  let '(b, ws2) := if hi then match ws1 with w :: r => (w, r) | [] => ([], []) end else ([], ws1) in
  let c := if st then match ws2 with w :: _ => TColon :: w | [] => [TColon] end else [] in
  a ++ TColon :: b ++ c.

Definition layout (st : style) (l : label) (ws : list (list tok)) : list tok :=
  match l with
  | LName s => [TName s]
  | LConst s => [TConst s]
  | LNegConst s => [TUn KUSub; TConst s]
  | LCompare ops => match ws with [] => [] | w :: ws' => w ++ cmp_tail ops ws' end
  | LLambda args => TLambda args :: concat ws
  | LAttribute n => concat ws ++ [TDot n]
  | LKeyword (Some n) => TKw n :: concat ws
  | LKeyword None => TDStar :: concat ws
  | LSlice lo hi stp => slice_layout lo hi stp ws
  | LJoined lits => match lits with [] => [] | l0 :: ls => TFBegin :: TFLit l0 :: fparts ws ls ++ [TFEnd] end
  | LFormatted conv spec => TFOpen :: concat ws ++ [TFClose conv (if keep_spec st then spec else None)]
  | LDict | LSet | LGen _ => []
  | LOp k =>
      if is_bool k then sep_by (TBool k) ws
      else if is_unary k then TUn k :: concat ws
      else if is_binary k then sep_by (TBin k) ws
      else match k with
           | KIfExp => match ws with [a; b; c] => a ++ TIf :: b ++ TElse :: c | _ => [] end
           | KCall => match ws with [] => [] | f :: args => f ++ TLP :: sep_by TComma args ++ [TRP] end
           | KSubscript => match ws with [v; s] => v ++ TLB :: s ++ [TRB] | _ => [] end
           | KTuple => match ws with [a] => TLP :: a ++ [TTrail; TRP] | _ => TLP :: sep_by TComma ws ++ [TRP] end
           | KList => TLB :: sep_by TComma ws ++ [TRB]
           | KIdxTuple => match ws with
                          | [] => if short_idx st then [TLP; TRP] else []
                          | [w] => if short_idx st then w ++ [TTrail] else w
                          | _ => sep_by TComma ws
                          end
           | KStarArg | KStarElt => TStar :: concat ws
           | _ => []
           end
  end.

(* children of a node of kind k, the first of them having index i, each parenthesised where the style says so *)
Definition wrap_children (pr : expr -> list tok) (st : style) (k : kind) : nat -> list expr -> list (list tok) :=
  fix go (i : nat) (cs : list expr) : list (list tok) :=
    match cs with
    | [] => []
    | c :: cs' => wrap (needs st k (pos_of k i) (ekind c)) (pr c) :: go (S i) cs'
    end.

Fixpoint print (st : style) (e : expr) : list tok :=
  match e with Node l cs => layout st l (wrap_children (print st) st (kind_of l) 0 cs) end.

(* the reference style: parentheses exactly where the grammar needs them; everything printed *)
Definition ref_style : style := {| needs := ref_needs; keep_spec := true; short_idx := true |}.
(* a style that parenthesises every expression child (used to validate "redundant parentheses preserve the parse") *)
Definition full_style : style := {| needs := fun _ _ c => expr_kindb c; keep_spec := true; short_idx := true |}.

(* ---------------------------------------------------------------- text of a token list (what ast2src returns) *)

Definition bin_text (k : kind) : str :=
  match k with
  | KBitOr => [32;124;32] | KBitXor => [32;94;32] | KBitAnd => [32;38;32] | KLShift => [32;60;60;32] | KRShift => [32;62;62;32]
  | KAdd => [32;43;32] | KSub => [32;45;32] | KMult => [32;42;32] | KDiv => [32;47;32] | KFloorDiv => [32;47;47;32]
  | KMod => [32;37;32] | KPow => [32;42;42;32] | _ => []
  end%Z.
Definition un_text (k : kind) : str :=
  match k with KNot => [110;111;116;32] | KUSub => [45] | KUAdd => [43] | KInvert => [126] | _ => [] end%Z.
Definition cmp_text (o : cmpop) : str :=
  match o with
  | CEq => [32;61;61;32] | CNotEq => [32;33;61;32] | CLt => [32;60;32] | CLtE => [32;60;61;32] | CGt => [32;62;32]
  | CGtE => [32;62;61;32] | CIs => [32;105;115;32] | CIsNot => [32;105;115;32;110;111;116;32] | CIn => [32;105;110;32]
  | CNotIn => [32;110;111;116;32;105;110;32]
  end%Z.

Fixpoint join_str (sep : str) (xs : list str) : str :=
  match xs with [] => [] | [x] => x | x :: r => x ++ sep ++ join_str sep r end.

Definition escape_braces (s : str) : str :=
  flat_map (fun c => if (c =? 123)%Z then [123; 123]%Z else if (c =? 125)%Z then [125; 125]%Z else [c]) s.

Definition tok_text (esc : bool) (t : tok) : str :=
  match t with
  | TName s | TConst s => s
  | TBool KOr => [32;111;114;32] | TBool _ => [32;97;110;100;32]
  | TUn k => un_text k
  | TBin k => bin_text k
  | TCmp o => cmp_text o
  | TIf => [32;105;102;32] | TElse => [32;101;108;115;101;32]
  | TLambda args => [108;97;109;98;100;97;32] ++ join_str [44;32] args ++ [58;32]
  | TDot n => 46 :: n
  | TLP => [40] | TRP => [41] | TLB => [91] | TRB => [93] | TComma => [44;32] | TTrail => [44] | TColon => [58]
  | TStar => [42] | TDStar => [42;42]
  | TKw n => n ++ [61]
  | TFBegin => [102;39] | TFEnd => [39]
  | TFLit s => if esc then escape_braces s else s
  | TFOpen => [123]
  | TFClose conv spec =>
      match conv with Some c => [33; c] | None => [] end ++ match spec with Some s => 58 :: s | None => [] end ++ [125]
  end%Z.

Definition render (esc : bool) (ts : list tok) : str := flat_map (tok_text esc) ts.

(* ---------------------------------------------------------------- well-formedness *)

Definition count_true (a b c : bool) : nat := (if a then 1 else 0) + (if b then 1 else 0) + (if c then 1 else 0).

Definition arity_ok (l : label) (n : nat) : bool :=
  match l with
  | LName _ | LConst _ => n =? 0
  | LNegConst _ => false                 (* outside the parser theorem: its reparse is a UnaryOp node *)
  | LCompare ops => (2 <=? n) && (S (length ops) =? n)
  | LLambda _ | LAttribute _ | LKeyword _ | LFormatted _ _ => n =? 1
  | LSlice lo hi st => n =? count_true lo hi st
  | LJoined lits => length lits =? S n
  | LDict | LSet | LGen _ => false
  | LOp k =>
      if is_bool k then 2 <=? n
      else if is_unary k then n =? 1
      else if is_binary k then n =? 2
      else match k with
           | KIfExp => n =? 3
           | KCall => 1 <=? n
           | KSubscript => n =? 2
           | KTuple | KList => true
           | KIdxTuple => true
           | KStarArg | KStarElt => n =? 1
           | _ => false
           end
  end.

Fixpoint children_allowed (k : kind) (i : nat) (cs : list expr) : bool :=
  match cs with [] => true | c :: cs' => allowed k (pos_of k i) (ekind c) && children_allowed k (S i) cs' end.

Fixpoint wf (e : expr) : bool :=
  match e with Node l cs => arity_ok l (length cs) && children_allowed (kind_of l) 0 cs && forallb wf cs end.

(* a style that drops format specs prints only trees without format specs faithfully *)
Fixpoint spec_free (e : expr) : bool :=
  match e with Node l cs => match l with LFormatted _ (Some _) => false | _ => true end && forallb spec_free cs end.
Definition spec_ok (st : style) (e : expr) : bool := keep_spec st || spec_free e.

(* a style that prints index tuples of fewer than two elements like their element / like nothing prints only longer ones faithfully *)
Fixpoint long_idx (e : expr) : bool :=
  match e with Node l cs => match l with LOp KIdxTuple => 2 <=? length cs | _ => true end && forallb long_idx cs end.
Definition idx_ok (st : style) (e : expr) : bool := short_idx st || long_idx e.

Fixpoint kinds_ok (ok : kind -> bool) (e : expr) : bool :=
  match e with Node l cs => ok (kind_of l) && forallb (kinds_ok ok) cs end.

(* ---------------------------------------------------------------- boolean equalities (for the correspondence run) *)

Fixpoint str_eqb (a b : str) : bool :=
  match a, b with [], [] => true | x :: a', y :: b' => (x =? y)%Z && str_eqb a' b' | _, _ => false end.
Fixpoint list_eqb {A} (f : A -> A -> bool) (a b : list A) : bool :=
  match a, b with [], [] => true | x :: a', y :: b' => f x y && list_eqb f a' b' | _, _ => false end.
Definition opt_eqb {A} (f : A -> A -> bool) (a b : option A) : bool :=
  match a, b with None, None => true | Some x, Some y => f x y | _, _ => false end.

Definition label_eqb (a b : label) : bool :=
  match a, b with
  | LName x, LName y | LConst x, LConst y | LNegConst x, LNegConst y | LAttribute x, LAttribute y => str_eqb x y
  | LOp x, LOp y => kind_eqb x y
  | LCompare x, LCompare y => list_eqb cmp_eqb x y
  | LLambda x, LLambda y | LJoined x, LJoined y => list_eqb str_eqb x y
  | LKeyword x, LKeyword y => opt_eqb str_eqb x y
  | LSlice a1 a2 a3, LSlice b1 b2 b3 => Bool.eqb a1 b1 && Bool.eqb a2 b2 && Bool.eqb a3 b3
  | LFormatted c1 s1, LFormatted c2 s2 => opt_eqb Z.eqb c1 c2 && opt_eqb str_eqb s1 s2
  | LDict, LDict | LSet, LSet => true
  | LGen c1, LGen c2 => list_eqb (fun a b => list_eqb str_eqb (fst a) (fst b) && Nat.eqb (snd a) (snd b)) c1 c2
  | _, _ => false
  end.

Fixpoint expr_eqb (a b : expr) {struct a} : bool :=
  match a, b with
  | Node l1 cs1, Node l2 cs2 =>
      label_eqb l1 l2 &&
      (fix go (xs ys : list expr) : bool :=
         match xs, ys with [], [] => true | x :: xs', y :: ys' => expr_eqb x y && go xs' ys' | _, _ => false end) cs1 cs2
  end.

Definition failing (bs : list bool) : list nat :=
  (fix go (i : nat) (bs : list bool) : list nat :=
     match bs with [] => [] | b :: r => if b then go (S i) r else i :: go (S i) r end) 0 bs.

(* ---------------------------------------------------------------- a style is adequate for a tree *)

(* at every (parent, position, child) triple occurring in the tree: the style parenthesises where the grammar's rule asks,
   and it never parenthesises an item (a starred argument, keyword, slice or replacement field in parentheses is not Python) *)
Definition child_ok (st : style) (k : kind) (q : nat) (c : kind) : bool :=
  implb (ref_needs k q c) (needs st k q c) && (expr_kindb c || negb (needs st k q c)).

Fixpoint covers_children (st : style) (k : kind) (i : nat) (cs : list expr) : bool :=
  match cs with [] => true | c :: cs' => child_ok st k (pos_of k i) (ekind c) && covers_children st k (S i) cs' end.

Fixpoint covers (st : style) (e : expr) : bool :=
  match e with Node l cs => covers_children st (kind_of l) 0 cs && forallb (covers st) cs end.

(* well-formed, adequately parenthesised, nothing dropped *)
Definition good (st : style) (e : expr) : bool := wf e && covers st e && spec_ok st e && idx_ok st e.
