(* C28 - model of Pony's tracked Json / array values (pony/orm/ormtypes.py: TrackedValue, tracked_method,
   TrackedDict, TrackedList; pony/orm/core.py: Entity._attr_changed_; dbapiprovider.py: JsonConverter).
   Definitions only; proofs are in Proofs/C28Proofs.v.

   A Json value is a tree [jv].  What an object holds in obj._vals_[attr] is a tree [tv] in which every
   container carries a tag: [Some o] = a TrackedList / TrackedDict bound to owner o = (object, attribute),
   [None] = a plain Python list / dict that nobody watches.  A mutator reaches a container by a path of
   __getitem__ calls and is applied there:

     * the container is tracked and the method name is one that the Tracked* class wraps with tracked_method
       (the set of wrapped names is NOT written here: it is the parameter [wr], instantiated in Proofs/Props with
       the tables that tools/c28_scan.py extracts from ormtypes.py on every run, Gen/Mutators.v):
           list / dict arguments are converted with TrackedValue.make (same owner), the built-in method runs,
           obj._attr_changed_(attr) is called: the attribute's write bit is set               -> dirty := true
     * otherwise (plain container, or a method inherited unchanged from list / dict -- none is left since fix f0ecc86,
       which added __iadd__, __imul__, __ior__; the tables decide, not this file):
           the built-in method runs on the raw arguments and nobody is told                    -> dirty unchanged

   At commit an object whose write bit is set writes json.dumps(value); otherwise the column keeps its old text. *)
Require Import PonyV.Base.PyBase PonyV.Base.Seg.
#[local] Open Scope Z_scope.

Definition key := list Z.                      (* str as code points *)

Inductive jv : Type :=
| JNull | JBool (b : bool) | JNum (z : Z) | JStr (s : list Z)
| JList (l : list jv)
| JDict (d : list (key * jv)).                 (* insertion-ordered, keys unique (Python dict) *)

Definition owner := (nat * nat)%type.          (* (object id, attribute id) *)

Inductive tv : Type :=
| TNull | TBool (b : bool) | TNum (z : Z) | TStr (s : list Z)
| TList (tag : option owner) (l : list tv)
| TDict (tag : option owner) (d : list (key * tv)).

(* TrackedValue.make(obj, attr, value) for tag = Some (obj, attr): recursive (TrackedDict.__init__ / TrackedList.__init__
   call make on every item); tag = None is the identity embedding of a plain value. *)
Fixpoint wrap (tag : option owner) (v : jv) : tv :=
  match v with
  | JNull => TNull | JBool b => TBool b | JNum z => TNum z | JStr s => TStr s
  | JList l => TList tag (map (wrap tag) l)
  | JDict d => TDict tag (map (fun kv => let '(k, x) := kv in (k, wrap tag x)) d)
  end.

(* get_untracked / what json.dumps sees *)
Fixpoint untrack (t : tv) : jv :=
  match t with
  | TNull => JNull | TBool b => JBool b | TNum z => JNum z | TStr s => JStr s
  | TList _ l => JList (map untrack l)
  | TDict _ d => JDict (map (fun kv => let '(k, x) := kv in (k, untrack x)) d)
  end.

(* json.dumps(..., sort_keys=True) followed by json.loads (SQLiteJsonConverter): dict items come back sorted by key *)
Fixpoint zs_leb (a b : list Z) : bool :=
  match a, b with
  | [], _ => true
  | _ :: _, [] => false
  | x :: a', y :: b' => if x <? y then true else if y <? x then false else zs_leb a' b'
  end.

Fixpoint kins {A} (kx : key * A) (d : list (key * A)) : list (key * A) :=
  match d with
  | [] => [kx]
  | ky :: d' => if zs_leb (fst kx) (fst ky) then kx :: d else ky :: kins kx d'
  end.
Fixpoint ksort {A} (d : list (key * A)) : list (key * A) :=
  match d with [] => [] | kx :: d' => kins kx (ksort d') end.

Fixpoint canon (v : jv) : jv :=
  match v with
  | JList l => JList (map canon l)
  | JDict d => JDict (ksort (map (fun kv => let '(k, x) := kv in (k, canon x)) d))
  | _ => v
  end.

Definition owner_eqb (a b : owner) : bool := Nat.eqb (fst a) (fst b) && Nat.eqb (snd a) (snd b).
Definition tag_is (o : owner) (tag : option owner) : bool :=
  match tag with Some o' => owner_eqb o o' | None => false end.

(* every container reachable from t is a Tracked* instance bound to o *)
Fixpoint tagged (o : owner) (t : tv) : bool :=
  match t with
  | TList tag l => tag_is o tag && forallb (tagged o) l
  | TDict tag d => tag_is o tag && forallb (fun kv => let '(_, x) := kv in tagged o x) d
  | _ => true
  end.

Definition is_container (v : jv) : bool := match v with JList _ | JDict _ => true | _ => false end.

(* ------------------------------------------------------------------ the mutation language *)

Inductive pkey := KIdx (i : Z) | KKey (k : key).
Definition path := list pkey.

(* every mutating method / operator of list (CPython); `aslist` = the iterable argument is a list (True) or some
   other iterable such as a tuple or generator (False).  tracked_method converts only list / dict arguments, but since
   fix f0ecc86 TrackedList.extend / slice __setitem__ turn any iterable into a list first, so the flag no longer matters
   for a tracked receiver (it is kept in the operation language: the harness still passes tuples). *)
Inductive lact : Type :=
| LSetItem (i : Z) (v : jv)
| LSetSlice (a b : option Z) (aslist : bool) (items : list jv)
| LDelItem (i : Z)
| LDelSlice (a b : option Z)
| LAppend (v : jv)
| LExtend (aslist : bool) (items : list jv)
| LInsert (i : Z) (v : jv)
| LPop (i : option Z)
| LRemove (v : jv)                      (* scalar argument *)
| LReverse
| LSort (rev : bool)
| LClear
| LIAdd (items : list jv)               (* lst += items *)
| LIMul (n : Z).                        (* lst *= n *)

Inductive dact : Type :=
| DSetItem (k : key) (v : jv)
| DDelItem (k : key)
| DUpdate (kvs : list (key * jv))       (* update(dict), update(pairs), update(k=v): TrackedDict.update turns all into a dict *)
| DSetDefault (k : key) (v : jv)
| DPop (k : key) (dflt : option jv)
| DPopItem
| DClear
| DIOr (kvs : list (key * jv)).         (* d |= other *)

Inductive act := AL (a : lact) | AD (a : dact) | ARead.

(* method names, as the model's operations use them *)
Inductive mname :=
| MLSetItem | MLDelItem | MLAppend | MLExtend | MLInsert | MLPop | MLRemove | MLReverse | MLSort | MLClear | MLIAdd | MLIMul
| MDSetItem | MDDelItem | MDUpdate | MDSetDefault | MDPop | MDPopItem | MDClear | MDIOr.

Definition lact_name (a : lact) : mname :=
  match a with
  | LSetItem _ _ | LSetSlice _ _ _ _ => MLSetItem
  | LDelItem _ | LDelSlice _ _ => MLDelItem
  | LAppend _ => MLAppend | LExtend _ _ => MLExtend | LInsert _ _ => MLInsert | LPop _ => MLPop
  | LRemove _ => MLRemove | LReverse => MLReverse | LSort _ => MLSort | LClear => MLClear
  | LIAdd _ => MLIAdd | LIMul _ => MLIMul
  end.

Definition dact_name (a : dact) : mname :=
  match a with
  | DSetItem _ _ => MDSetItem | DDelItem _ => MDDelItem | DUpdate _ => MDUpdate | DSetDefault _ _ => MDSetDefault
  | DPop _ _ => MDPop | DPopItem => MDPopItem | DClear => MDClear | DIOr _ => MDIOr
  end.

(* ------------------------------------------------------------------ Python list semantics on list tv *)

Definition norm_index (n i : Z) : option nat :=
  if (i <? - n) || (n <=? i) then None else Some (Z.to_nat (if i <? 0 then i + n else i)).

Definition set_nth {A} (l : list A) (k : nat) (x : A) : list A := firstn k l ++ x :: skipn (S k) l.
Definition del_nth {A} (l : list A) (k : nat) : list A := firstn k l ++ skipn (S k) l.

Definition slice_bounds (n : Z) (a b : option Z) : nat * nat :=
  let lo := match a with None => 0 | Some x => adjust n x end in
  let hi := match b with None => n | Some x => adjust n x end in
  (Z.to_nat lo, Z.to_nat (Z.max lo hi)).

Fixpoint zs_eqb (a b : list Z) : bool :=
  match a, b with
  | [], [] => true
  | x :: a', y :: b' => (x =? y) && zs_eqb a' b'
  | _, _ => false
  end.

(* Python == between a stored item and a scalar argument (True == 1, False == 0) *)
Definition scalar_eqb (x : tv) (y : tv) : bool :=
  match x, y with
  | TNull, TNull => true
  | TBool a, TBool b => Bool.eqb a b
  | TNum a, TNum b => a =? b
  | TBool a, TNum b | TNum b, TBool a => (if a then 1 else 0) =? b
  | TStr a, TStr b => zs_eqb a b
  | _, _ => false
  end.

Fixpoint remove_first (y : tv) (l : list tv) : option (list tv) :=
  match l with
  | [] => None
  | x :: l' => if scalar_eqb x y then Some l'
               else match remove_first y l' with Some r => Some (x :: r) | None => None end
  end.

(* list.sort on a homogeneous list of ints or of strs (insertion sort; the order is total and equal elements are
   identical, so stability is invisible); mixed lists of length >= 2 are outside the model (None) *)
Definition tv_leb (x y : tv) : bool :=
  match x, y with
  | TNum a, TNum b => a <=? b
  | TStr a, TStr b => zs_leb a b
  | _, _ => true
  end.

Fixpoint ins_sorted (x : tv) (l : list tv) : list tv :=
  match l with
  | [] => [x]
  | y :: l' => if tv_leb x y then x :: l else y :: ins_sorted x l'
  end.

Fixpoint isort (l : list tv) : list tv :=
  match l with [] => [] | x :: l' => ins_sorted x (isort l') end.

Definition is_num (t : tv) := match t with TNum _ => true | _ => false end.
Definition is_str (t : tv) := match t with TStr _ => true | _ => false end.

Definition sortable (l : list tv) : bool :=
  (Nat.leb (length l) 1) || forallb is_num l || forallb is_str l.

Fixpoint repeat_app {A} (l : list A) (n : nat) : list A :=
  match n with O => [] | S n' => l ++ repeat_app l n' end.

(* one list mutator on already-converted arguments; None = the built-in raises and leaves the list as it was *)
Inductive largs : Type :=
| GSetItem (i : Z) (x : tv) | GSetSlice (a b : option Z) (xs : list tv)
| GDelItem (i : Z) | GDelSlice (a b : option Z)
| GAppend (x : tv) | GExtend (xs : list tv) | GInsert (i : Z) (x : tv)
| GPop (i : option Z) | GRemove (x : tv) | GReverse | GSort (rev : bool) | GClear
| GIMul (n : Z).

Definition list_step (g : largs) (l : list tv) : option (list tv) :=
  let n := zlen l in
  match g with
  | GSetItem i x => match norm_index n i with Some k => Some (set_nth l k x) | None => None end
  | GSetSlice a b xs => let '(lo, hi) := slice_bounds n a b in Some (firstn lo l ++ xs ++ skipn hi l)
  | GDelItem i => match norm_index n i with Some k => Some (del_nth l k) | None => None end
  | GDelSlice a b => let '(lo, hi) := slice_bounds n a b in Some (firstn lo l ++ skipn hi l)
  | GAppend x => Some (l ++ [x])
  | GExtend xs => Some (l ++ xs)
  | GInsert i x => let k := Z.to_nat (if i <? 0 then Z.max 0 (i + n) else Z.min i n) in
                   Some (firstn k l ++ x :: skipn k l)
  | GPop None => match l with [] => None | _ => Some (removelast l) end
  | GPop (Some i) => match norm_index n i with Some k => Some (del_nth l k) | None => None end
  | GRemove x => remove_first x l
  | GReverse => Some (rev l)
  | GSort r => if sortable l then Some (if r then rev (isort l) else isort l) else None
  | GClear => Some []
  | GIMul m => Some (repeat_app l (Z.to_nat m))
  end.

(* conversion of the arguments: [argtag] = Some o when tracked_method runs (TrackedValue.make on list / dict
   arguments), None when the built-in is reached directly *)
Definition conv_items (argtag : option owner) (aslist : bool) (items : list jv) : list tv :=
  map (wrap argtag) items.

Definition conv_lact (argtag : option owner) (a : lact) : largs :=
  match a with
  | LSetItem i v => GSetItem i (wrap argtag v)
  | LSetSlice a b aslist items => GSetSlice a b (conv_items argtag aslist items)
  | LDelItem i => GDelItem i
  | LDelSlice a b => GDelSlice a b
  | LAppend v => GAppend (wrap argtag v)
  | LExtend aslist items => GExtend (conv_items argtag aslist items)
  | LInsert i v => GInsert i (wrap argtag v)
  | LPop i => GPop i
  | LRemove v => GRemove (wrap argtag v)
  | LReverse => GReverse
  | LSort r => GSort r
  | LClear => GClear
  | LIAdd items => GExtend (conv_items argtag true items)
  | LIMul n => GIMul n
  end.

(* ------------------------------------------------------------------ Python dict semantics on assoc lists *)

Fixpoint assoc {A} (k : key) (d : list (key * A)) : option A :=
  match d with
  | [] => None
  | (k', x) :: d' => if zs_eqb k k' then Some x else assoc k d'
  end.

Fixpoint assoc_set {A} (k : key) (x : A) (d : list (key * A)) : list (key * A) :=
  match d with
  | [] => [(k, x)]
  | (k', y) :: d' => if zs_eqb k k' then (k', x) :: d' else (k', y) :: assoc_set k x d'
  end.

Fixpoint assoc_del {A} (k : key) (d : list (key * A)) : list (key * A) :=
  match d with
  | [] => []
  | (k', y) :: d' => if zs_eqb k k' then d' else (k', y) :: assoc_del k d'
  end.

Inductive dargs : Type :=
| HSetItem (k : key) (x : tv) | HDelItem (k : key) | HUpdate (kxs : list (key * tv)) | HSetDefault (k : key) (x : tv)
| HPop (k : key) (has_default : bool) | HPopItem | HClear.

Definition dict_step (h : dargs) (d : list (key * tv)) : option (list (key * tv)) :=
  match h with
  | HSetItem k x => Some (assoc_set k x d)
  | HDelItem k => match assoc k d with Some _ => Some (assoc_del k d) | None => None end
  | HUpdate kxs => Some (fold_left (fun acc kx => let '(k, x) := kx in assoc_set k x acc) kxs d)
  | HSetDefault k x => match assoc k d with Some _ => Some d | None => Some (assoc_set k x d) end
  | HPop k dflt => match assoc k d with Some _ => Some (assoc_del k d) | None => if dflt then Some d else None end
  | HPopItem => match d with [] => None | _ => Some (removelast d) end
  | HClear => Some []
  end.

Definition conv_kvs (argtag : option owner) (kvs : list (key * jv)) : list (key * tv) :=
  map (fun kv => let '(k, x) := kv in (k, wrap argtag x)) kvs.

Definition conv_dact (argtag : option owner) (a : dact) : dargs :=
  match a with
  | DSetItem k v => HSetItem k (wrap argtag v)
  | DDelItem k => HDelItem k
  | DUpdate kvs => HUpdate (conv_kvs argtag kvs)
  | DSetDefault k v => HSetDefault k (wrap argtag v)
  | DPop k dflt => HPop k (match dflt with Some _ => true | None => false end)
  | DPopItem => HPopItem
  | DClear => HClear
  | DIOr kvs => HUpdate (conv_kvs argtag kvs)
  end.

(* ------------------------------------------------------------------ applying one action at a container *)

Section Step.
Variable wr : mname -> bool.         (* is this method name wrapped by the Tracked* class?  (from Gen/Mutators.v) *)

(* result: new container and "obj._attr_changed_ was called" *)
Definition apply_act (a : act) (t : tv) : option (tv * bool) :=
  match a, t with
  | ARead, _ => Some (t, false)
  | AL la, TList tag l =>
      let tracked := match tag with Some _ => wr (lact_name la) | None => false end in
      match list_step (conv_lact (if tracked then tag else None) la) l with
      | Some l' => Some (TList tag l', tracked)
      | None => None
      end
  | AD da, TDict tag d =>
      let tracked := match tag with Some _ => wr (dact_name da) | None => false end in
      match dict_step (conv_dact (if tracked then tag else None) da) d with
      | Some d' => Some (TDict tag d', tracked)
      | None => None
      end
  | _, _ => None                      (* AttributeError / TypeError: no such method on this kind of value *)
  end.

(* reach the container by __getitem__ calls (reads), apply there, rebuild (in Python: in-place mutation of the
   shared structure).  None = some call raised; nothing changed. *)
Fixpoint update_at (p : path) (a : act) (t : tv) : option (tv * bool) :=
  match p with
  | [] => apply_act a t
  | KIdx i :: p' =>
      match t with
      | TList tag l =>
          match norm_index (zlen l) i with
          | Some k => match nth_error l k with
                      | Some c => match update_at p' a c with
                                  | Some (c', ch) => Some (TList tag (set_nth l k c'), ch)
                                  | None => None
                                  end
                      | None => None
                      end
          | None => None
          end
      | _ => None
      end
  | KKey k :: p' =>
      match t with
      | TDict tag d =>
          match assoc k d with
          | Some c => match update_at p' a c with
                      | Some (c', ch) => Some (TDict tag (assoc_set k c' d), ch)
                      | None => None
                      end
          | None => None
          end
      | _ => None
      end
  end.

(* ------------------------------------------------------------------ object state and sessions *)

Record state := { root : tv;          (* obj._vals_[attr] *)
                  dirty : bool;       (* obj._wbits_ & bit(attr), i.e. the object is queued for UPDATE of this column *)
                  dbval : jv }.       (* the JSON document stored in the row (as json.loads returns it: keys sorted) *)

Inductive op :=
| OAct (p : path) (a : act)           (* v = obj.attr; v[p1][p2]...<a> *)
| OCommit                             (* commit(): flush writes dirty columns *)
| ONewSession (o : owner).            (* leave db_session (commits), enter a new one and load the object again *)

Definition commit (st : state) : state :=
  if dirty st then {| root := root st; dirty := false; dbval := canon (untrack (root st)) |} else st.

Definition step (st : state) (x : op) : state :=
  match x with
  | OAct p a => match update_at p a (root st) with
                | Some (t', ch) => {| root := t'; dirty := dirty st || ch; dbval := dbval st |}
                | None => st
                end
  | OCommit => commit st
  | ONewSession o => let st' := commit st in
                     {| root := wrap (Some o) (dbval st'); dirty := false; dbval := dbval st' |}
  end.

Definition run (ops : list op) (st : state) : state := fold_left step ops st.

Definition load (o : owner) (v : jv) : state := {| root := wrap (Some o) (canon v); dirty := false; dbval := canon v |}.

End Step.

(* ------------------------------------------------------------------ decidable equality (for the correspondence run) *)

Definition otag_eqb (a b : option owner) : bool :=
  match a, b with Some x, Some y => owner_eqb x y | None, None => true | _, _ => false end.

Fixpoint tv_eqb (x y : tv) : bool :=
  match x, y with
  | TNull, TNull => true
  | TBool a, TBool b => Bool.eqb a b
  | TNum a, TNum b => a =? b
  | TStr a, TStr b => zs_eqb a b
  | TList ta la, TList tb lb =>
      otag_eqb ta tb &&
      (fix go (l1 l2 : list tv) : bool :=
         match l1, l2 with
         | [], [] => true
         | a :: l1', b :: l2' => tv_eqb a b && go l1' l2'
         | _, _ => false
         end) la lb
  | TDict ta da, TDict tb db =>
      otag_eqb ta tb &&
      (fix go (l1 l2 : list (key * tv)) : bool :=
         match l1, l2 with
         | [], [] => true
         | (k1, a) :: l1', (k2, b) :: l2' => zs_eqb k1 k2 && tv_eqb a b && go l1' l2'
         | _, _ => false
         end) da db
  | _, _ => false
  end.

Definition jv_eqb (x y : jv) : bool := tv_eqb (wrap None x) (wrap None y).

Definition state_eqb (a b : state) : bool :=
  tv_eqb (root a) (root b) && Bool.eqb (dirty a) (dirty b) && jv_eqb (dbval a) (dbval b).

(* states after each op (for the trace comparison) *)
Fixpoint scan (wr : mname -> bool) (ops : list op) (st : state) : list state :=
  match ops with
  | [] => []
  | x :: ops' => let st' := step wr st x in st' :: scan wr ops' st'
  end.

Fixpoint states_eqb (a b : list state) : bool :=
  match a, b with
  | [], [] => true
  | x :: a', y :: b' => state_eqb x y && states_eqb a' b'
  | _, _ => false
  end.

Fixpoint failing_from (k : nat) (l : list bool) : list nat :=
  match l with [] => [] | b :: l' => (if b then [] else [k]) ++ failing_from (S k) l' end.
Definition failing28 (l : list bool) : list nat := failing_from 0 l.
