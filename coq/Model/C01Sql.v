(* C01/C02 - the fragment of Pony's list-based SQL AST produced for the scalar grammar of Model/C01Expr.v, SQL values,
   and an evaluator per dialect (reference semantics written from the dialects' documentation; the SQLite column is
   validated against the linked SQLite on every run of check C01, PostgreSQL / MySQL are documentation models).
   Definitions only.

   What the dialects differ in here:
     booleans      PostgreSQL has a boolean type: comparisons / AND / OR / NOT / IS NULL / IN yield it, WHERE / CASE WHEN /
                   AND / OR / NOT demand it, arithmetic and comparison with integers reject it (type error = [ErrV]),
                   CAST(.. AS int) converts it; SQLite and MySQL use the integers 0 / 1;
     integer `/`   SQLite, PostgreSQL: truncation toward zero; MySQL: exact (decimal) division;
     x / 0, x % 0  SQLite, MySQL: NULL; PostgreSQL: error;
     least/greatest  SQLite min/max and MySQL: NULL if any argument is NULL; PostgreSQL: NULLs are ignored;
     length()      characters; MySQL: bytes of the utf-8 encoding;
     CASE / coalesce branches   PostgreSQL: must have one type.
   Integers are unbounded (no overflow), strings are lists of code points, comparison of strings is by code point
   (binary collation). *)
Require Import PonyV.Base.PyBase PonyV.Model.C01Expr.

Inductive dname : Type := DSqlite | DPostgres | DMysql | DOracle.
Definition pg (d : dname) : bool := match d with DPostgres => true | _ => false end.
Definition oracle (d : dname) : bool := match d with DOracle => true | _ => false end.
(* the dialects whose semantics is modelled below *)
Definition modelled (d : dname) : bool := negb (oracle d).

Inductive qlit : Type := QLInt (z : Z) | QLStr (s : str) | QLBool (b : bool) | QLNone.
Inductive qbin : Type :=
| QAdd | QSub | QMul | QDiv | QFloorDiv | QMod | QConcat
| QEq | QNe | QLt | QLe | QGt | QGe.
Inductive qun : Type := QNeg | QAbs | QLen | QToInt | QNot | QIsNull | QIsNotNull.

Inductive qx : Type :=
| QVal (v : qlit)                               (* ['VALUE', v]                         *)
| QCol (id : nat)                               (* ['COLUMN', alias, name]              *)
| QParam (i : nat)                              (* ['PARAM', key, converter]            *)
| QBin (op : qbin) (a b : qx)                   (* [op, a, b]                           *)
| QUn (op : qun) (a : qx)                       (* [op, a]                              *)
| QAnd (l : list qx) | QOr (l : list qx)        (* ['AND', ...] ['OR', ...]             *)
| QIn (neg : bool) (a : qx) (items : list qx)   (* ['IN' | 'NOT_IN', a, [items]]        *)
| QCase (c t f : qx)                            (* ['CASE', None, [[c, t]], f]          *)
| QCoalesce (l : list qx)                       (* ['COALESCE', ...]                    *)
| QMinMax (is_max : bool) (l : list qx).        (* ['MIN' | 'MAX', None, ...]           *)

Inductive qv : Type :=
| NullV | IntV (z : Z) | StrV (s : str) | BoolV (b : bool)
| FracV (n d : Z)                               (* MySQL: the non-integer quotient n / d *)
| ErrV.                                         (* the statement is rejected / raises    *)

(* representation of a truth value *)
Definition bv (d : dname) (b : bool) : qv := if pg d then BoolV b else IntV (b2z b).
Definition of_tv (d : dname) (t : tv) : qv := match t with T => bv d true | F => bv d false | U => NullV end.

(* reading a value where a condition is required; None = type error *)
Definition as_tv (d : dname) (v : qv) : option tv :=
  match v with
  | NullV => Some U
  | BoolV b => if pg d then Some (tv_of_bool b) else None
  | IntV z => if pg d then None else Some (tv_of_bool (negb (z =? 0)))
  | _ => None
  end.

Definition sql_truth (d : dname) (v : qv) : bool := match as_tv d v with Some T => true | _ => false end.

Definition lift_tv (d : dname) (f : tv -> tv) (v : qv) : qv :=
  match as_tv d v with Some t => of_tv d (f t) | None => ErrV end.
Definition qnot (d : dname) (v : qv) : qv := lift_tv d not3 v.

Fixpoint all_some {A} (l : list (option A)) : option (list A) :=
  match l with
  | [] => Some []
  | None :: _ => None
  | Some x :: r => match all_some r with Some r' => Some (x :: r') | None => None end
  end.

Definition qand_list (d : dname) (vs : list qv) : qv :=
  match all_some (map (as_tv d) vs) with Some ts => of_tv d (fold_right and3 T ts) | None => ErrV end.
Definition qor_list (d : dname) (vs : list qv) : qv :=
  match all_some (map (as_tv d) vs) with Some ts => of_tv d (fold_right or3 F ts) | None => ErrV end.

Definition qdiv (d : dname) (x y : Z) : qv :=
  match d with
  | DSqlite => if y =? 0 then NullV else IntV (Z.quot x y)
  | DPostgres => if y =? 0 then ErrV else IntV (Z.quot x y)
  | DMysql => if y =? 0 then NullV else if x mod y =? 0 then IntV (x / y) else FracV x y
  | DOracle => ErrV
  end.
Definition qmod (d : dname) (x y : Z) : qv :=
  match d with
  | DSqlite | DMysql => if y =? 0 then NullV else IntV (Z.rem x y)
  | DPostgres => if y =? 0 then ErrV else IntV (Z.rem x y)
  | DOracle => ErrV
  end.

Definition qarith (d : dname) (op : qbin) (a b : qv) : qv :=
  match a, b with
  | ErrV, _ | _, ErrV => ErrV
  | IntV x, IntV y =>
      match op with
      | QAdd => IntV (x + y) | QSub => IntV (x - y) | QMul => IntV (x * y)
      | QDiv | QFloorDiv => qdiv d x y
      | QMod => qmod d x y
      | _ => ErrV
      end
  | NullV, (NullV | IntV _) | IntV _, NullV => NullV
  | _, _ => ErrV
  end.

Definition qconcat (a b : qv) : qv :=
  match a, b with
  | ErrV, _ | _, ErrV => ErrV
  | StrV x, StrV y => StrV (x ++ y)
  | NullV, (NullV | StrV _) | StrV _, NullV => NullV
  | _, _ => ErrV
  end.

Definition bool_compare (a b : bool) : comparison :=
  match a, b with false, true => Lt | true, false => Gt | _, _ => Eq end.

Definition cop_of (op : qbin) : cop :=
  match op with QEq => CEq | QNe => CNe | QLt => CLt | QLe => CLe | QGt => CGt | _ => CGe end.

Definition qcmp (d : dname) (op : cop) (a b : qv) : qv :=
  match a, b with
  | ErrV, _ | _, ErrV | FracV _ _, _ | _, FracV _ _ => ErrV
  | NullV, _ | _, NullV => NullV
  | IntV x, IntV y => bv d (cmp_res op (x ?= y))
  | StrV x, StrV y => bv d (cmp_res op (str_compare x y))
  | BoolV x, BoolV y => bv d (cmp_res op (bool_compare x y))
  | _, _ => ErrV
  end.

Definition is_bad (v : qv) : bool := match v with ErrV | FracV _ _ => true | _ => false end.

Definition qisnull (d : dname) (neg : bool) (v : qv) : qv :=
  match v with
  | ErrV => ErrV
  | NullV => bv d (negb neg)
  | _ => bv d neg
  end.

(* x IN (i1, ..., in) = x = i1 OR ... OR x = in ; the empty list is rendered `0 = 1` / `1 = 1` *)
Definition qin (d : dname) (neg : bool) (v : qv) (items : list qv) : qv :=
  match items with
  | [] => if is_bad v then ErrV else bv d neg
  | _ => let r := qor_list d (map (qcmp d CEq v) items) in if neg then qnot d r else r
  end.

(* a crude value kind, for PostgreSQL's one-type rule on CASE / coalesce branches; NULL fits every kind *)
Definition kind (v : qv) : nat := match v with NullV => 0 | IntV _ => 1 | StrV _ => 2 | BoolV _ => 3 | _ => 4 end.
Definition compat (a b : qv) : bool := (kind a =? 0)%nat || (kind b =? 0)%nat || (kind a =? kind b)%nat.
Fixpoint one_kind (l : list qv) : bool :=
  match l with [] => true | v :: r => forallb (compat v) r && one_kind r end.

Fixpoint first_nonnull (l : list qv) : qv :=
  match l with [] => NullV | NullV :: r => first_nonnull r | v :: _ => v end.

Definition qcoalesce (d : dname) (vs : list qv) : qv :=
  if existsb is_bad vs then ErrV
  else if pg d && negb (one_kind vs) then ErrV
  else first_nonnull vs.

Definition qcase (d : dname) (c t f : qv) : qv :=
  match as_tv d c with
  | None => ErrV
  | Some tc =>
      if is_bad t || is_bad f then ErrV
      else if pg d && negb (compat t f) then ErrV
      else match tc with T => t | _ => f end
  end.

Definition minmax_null (d : dname) : bool := negb (pg d).

Definition is_null (v : qv) : bool := match v with NullV => true | _ => false end.

Definition qpick (is_max : bool) (lt : bool) (a b : qv) : qv :=
  if is_max then (if lt then b else a) else (if lt then a else b).
Definition qminmax2 (is_max : bool) (a b : qv) : qv :=
  match a, b with
  | IntV x, IntV y => qpick is_max (x <? y) a b
  | StrV x, StrV y => qpick is_max (match str_compare x y with Lt => true | _ => false end) a b
  | _, _ => ErrV
  end.

Definition qminmax (d : dname) (is_max : bool) (vs : list qv) : qv :=
  if existsb is_bad vs then ErrV
  else if existsb is_null vs && minmax_null d then NullV
  else match filter (fun v => negb (is_null v)) vs with
       | [] => NullV
       | v :: r => match v with IntV _ | StrV _ => fold_left (qminmax2 is_max) r v | _ => ErrV end
       end.

Definition utf8_len (c : Z) : Z := if c <? 128 then 1 else if c <? 2048 then 2 else if c <? 65536 then 3 else 4.
Definition qlen (d : dname) (s : str) : Z :=
  match d with DMysql => fold_right (fun c n => utf8_len c + n) 0 s | _ => zlen s end.

Definition qunop (d : dname) (op : qun) (v : qv) : qv :=
  match op with
  | QNeg => match v with IntV x => IntV (- x) | NullV => NullV | _ => ErrV end
  | QAbs => match v with IntV x => IntV (Z.abs x) | NullV => NullV | _ => ErrV end
  | QLen => match v with StrV s => IntV (qlen d s) | NullV => NullV | _ => ErrV end
  | QToInt => match v with IntV x => IntV x | BoolV b => IntV (b2z b) | NullV => NullV | _ => ErrV end
  | QNot => qnot d v
  | QIsNull => qisnull d false v
  | QIsNotNull => qisnull d true v
  end.

Definition qbinop (d : dname) (op : qbin) (a b : qv) : qv :=
  match op with
  | QAdd | QSub | QMul | QDiv | QFloorDiv | QMod => qarith d op a b
  | QConcat => qconcat a b
  | _ => qcmp d (cop_of op) a b
  end.

Definition qlit_val (d : dname) (l : qlit) : qv :=
  match l with QLInt z => IntV z | QLStr s => StrV s | QLBool b => bv d b | QLNone => NullV end.

Record qenv : Type := mkqenv { col_val : nat -> qv; par_val : nat -> qv }.

Section Eval.
Variable d : dname.
Variable qe : qenv.

Fixpoint qeval (e : qx) : qv :=
  match e with
  | QVal l => qlit_val d l
  | QCol i => col_val qe i
  | QParam i => par_val qe i
  | QBin op a b => qbinop d op (qeval a) (qeval b)
  | QUn op a => qunop d op (qeval a)
  | QAnd l => qand_list d (map qeval l)
  | QOr l => qor_list d (map qeval l)
  | QIn neg a items => qin d neg (qeval a) (map qeval items)
  | QCase c t f => qcase d (qeval c) (qeval t) (qeval f)
  | QCoalesce l => qcoalesce d (map qeval l)
  | QMinMax is_max l => qminmax d is_max (map qeval l)
  end.

(* WHERE c1 AND ... AND cn *)
Definition where_truth (conds : list qx) : bool := sql_truth d (qand_list d (map qeval conds)).
End Eval.

(* how a Python value is stored / passed as a parameter *)
Definition enc (d : dname) (v : pyv) : qv :=
  match v with PNone => NullV | PInt z => IntV z | PStr s => StrV s | PBool b => bv d b end.

Definition encenv (d : dname) (en : env) : qenv :=
  mkqenv (fun i => enc d (attr_val en i)) (fun i => enc d (param_val en i)).

(* what the converter of the expression type makes of a fetched value (row_layout in SQLTranslator.init) *)
Definition dec (t : ty) (v : qv) : pyv :=
  match v with
  | NullV => PNone
  | IntV z => match t with TV TBool | TCond => PBool (negb (z =? 0)) | _ => PInt z end
  | StrV s => PStr s
  | BoolV b => PBool b
  | _ => PNone
  end.
