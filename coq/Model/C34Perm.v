(* C34 - executable model of pony.orm.core.has_perm / can_* / to_json's object filter (definitions only).

   Entities, attributes, objects, groups, roles and labels are numbers; sets are lists.  The schema (attribute -> entity,
   attribute -> reverse attribute, hidden, object -> entity), the declared rules (entity._access_rules_[perm] in the iteration
   order of that set) and the providers (user's groups, user's roles on an object, object's labels) are data / functions.
   The four variation points of the source are parameters (their current values are re-read from /repo: Gen/C34Src.v). *)
From Coq Require Import List Bool Arith.
Import ListNotations.

Record rule := mkrule {
  r_groups : list nat;          (* rule.groups, 'anybody' included *)
  r_roles : list nat;
  r_labels : list nat;
  r_exclE : list nat;           (* rule.entities_to_exclude *)
  r_exclA : list nat }.         (* rule.attrs_to_exclude *)

Definition mem (x : nat) (l : list nat) : bool := existsb (Nat.eqb x) l.
Definition subset (a b : list nat) : bool := forallb (fun x => mem x b) a.      (* b.issuperset(a) *)

Inductive target := TEntity (e : nat) | TAttr (a : nat) | TObj (o : nat).

Section Perm.
(* variation points of has_perm *)
Variable rev_uses_reverse_rules : bool.        (* inner loop iterates reverse_rules (true) / access_rules (false) *)
Variable obj_excl_tests_entity : bool.         (* `entity in rule.entities_to_exclude` (true) / `x in ...` with x an instance (false) *)
Variable missing_rev_returns_false : bool.     (* `if not reverse_rules: return False` (true) / continue (false) *)

(* schema *)
Variable attr_ent : nat -> nat.
Variable attr_rev : nat -> option nat.
Variable attr_hidden : nat -> bool.
Variable obj_ent : nat -> nat.
(* declared rules: entity -> permission -> rules, in iteration order *)
Variable rules : nat -> nat -> list rule.
(* the user, as the providers see him *)
Variable ugroups : list nat.                   (* get_user_groups(user): always contains anybody *)
Variable uroles : nat -> list nat.             (* get_user_roles(user, obj) *)
Variable olabels : nat -> list nat.            (* get_object_labels(obj) *)

Definition groups_ok (r : rule) : bool := subset (r_groups r) ugroups.

(* a rule grants attribute a of entity e *)
Definition grants_attr (e a : nat) (r : rule) : bool :=
  groups_ok r && negb (mem e (r_exclE r)) && negb (mem a (r_exclA r)).

Definition has_perm_entity (e p : nat) : bool :=
  existsb (fun r => groups_ok r && negb (mem e (r_exclE r))) (rules e p).

(* the loop `for rule in access_rules` of the attribute branch; `all` = access_rules *)
Fixpoint attr_loop (a p : nat) (all l : list rule) : bool :=
  match l with
  | [] => false
  | r :: l' =>
    if grants_attr (attr_ent a) a r then true
    else match attr_rev a with
         | None => attr_loop a p all l'
         | Some rv =>
           let rrules := rules (attr_ent rv) p in
           match rrules with
           | [] => if missing_rev_returns_false then false else attr_loop a p all l'
           | _ => if existsb (grants_attr (attr_ent rv) rv) (if rev_uses_reverse_rules then rrules else all)
                  then true else attr_loop a p all l'
           end
         end
  end.

Definition has_perm_attr (a p : nat) : bool :=
  if attr_hidden a then false
  else let rs := rules (attr_ent a) p in attr_loop a p rs rs.

Definition obj_excluded (o : nat) (r : rule) : bool :=
  if obj_excl_tests_entity then mem (obj_ent o) (r_exclE r)
  else false.        (* an entity instance is never an element of a set of entity classes *)

Definition has_perm_obj (o p : nat) : bool :=
  existsb (fun r => negb (obj_excluded o r) && groups_ok r && subset (r_roles r) (uroles o) && subset (r_labels r) (olabels o))
          (rules (obj_ent o) p).

Definition has_perm (p : nat) (x : target) : bool :=
  match x with
  | TEntity e => has_perm_entity e p
  | TAttr a => has_perm_attr a p
  | TObj o => has_perm_obj o p
  end.

Definition VIEW : nat := 0.
Definition EDIT : nat := 1.
Definition can_view (x : target) : bool := has_perm VIEW x || has_perm EDIT x.
Definition can_edit (x : target) : bool := has_perm EDIT x.

(* Database.to_json: every object that reaches the output went through can_view; one refusal aborts with PermissionError *)
Definition to_json_objects (objs : list nat) : option (list nat) :=
  if forallb (fun o => can_view (TObj o)) objs then Some objs else None.

(* the schema section of to_json (Database._get_schema_dict): an entity is listed iff the user can view it; an attribute of a listed
   entity is listed iff the user can view it and - for a relationship - can view the entity and the attribute on the other side *)
Definition schema_entity (e : nat) : bool := can_view (TEntity e).
Definition schema_attr (a : nat) : bool :=
  can_view (TEntity (attr_ent a)) && can_view (TAttr a)
  && match attr_rev a with None => true | Some rv => can_view (TEntity (attr_ent rv)) && can_view (TAttr rv) end.

(* to_json([obj], include=[relationship]): the objects reached through the included relationship are serialised with it and go
   through the same can_view test, whether they were already loaded or are loaded by to_json itself *)
Definition to_json_include (related : nat -> list nat) (o : nat) : option (list nat) := to_json_objects (o :: related o).

(* ---------------------------------------------------------------------------------------------
   the specification: the statement of C34 written directly *)

Definition spec_entity (e p : nat) : Prop :=
  exists r, In r (rules e p) /\ groups_ok r = true /\ mem e (r_exclE r) = false.

Definition spec_obj (o p : nat) : Prop :=
  exists r, In r (rules (obj_ent o) p) /\ groups_ok r = true /\ subset (r_roles r) (uroles o) = true
            /\ subset (r_labels r) (olabels o) = true /\ mem (obj_ent o) (r_exclE r) = false.

(* granted by a rule of the attribute's own entity, or - for a relationship - by a rule of the other side for the reverse
   attribute; exclusions count on the side the rule belongs to; an entity without any rule for the permission grants nothing *)
Definition spec_attr (a p : nat) : Prop :=
  attr_hidden a = false /\ rules (attr_ent a) p <> [] /\
  ((exists r, In r (rules (attr_ent a) p) /\ grants_attr (attr_ent a) a r = true)
   \/ (exists rv r, attr_rev a = Some rv /\ In r (rules (attr_ent rv) p) /\ grants_attr (attr_ent rv) rv r = true)).

Definition spec (p : nat) (x : target) : Prop :=
  match x with TEntity e => spec_entity e p | TAttr a => spec_attr a p | TObj o => spec_obj o p end.

(* the same as booleans (used by the correspondence run and the search oracle) *)
Definition spec_entity_b (e p : nat) : bool := existsb (fun r => groups_ok r && negb (mem e (r_exclE r))) (rules e p).
Definition spec_obj_b (o p : nat) : bool :=
  existsb (fun r => groups_ok r && subset (r_roles r) (uroles o) && subset (r_labels r) (olabels o) && negb (mem (obj_ent o) (r_exclE r)))
          (rules (obj_ent o) p).
Definition spec_attr_b (a p : nat) : bool :=
  negb (attr_hidden a)
  && match rules (attr_ent a) p with [] => false | _ => true end
  && (existsb (grants_attr (attr_ent a) a) (rules (attr_ent a) p)
      || match attr_rev a with
         | None => false
         | Some rv => existsb (grants_attr (attr_ent rv) rv) (rules (attr_ent rv) p)
         end).
Definition spec_b (p : nat) (x : target) : bool :=
  match x with TEntity e => spec_entity_b e p | TAttr a => spec_attr_b a p | TObj o => spec_obj_b o p end.

End Perm.

(* ---------------------------------------------------------------------------------------------
   repeated checks inside one session: the providers are consulted once, their answers are cached
   (local.user_groups_cache, local.user_roles_cache, cache.obj_labels_cache) *)
Record caches := mkcaches {
  c_groups : option (list nat);
  c_roles : list (nat * list nat);       (* obj -> roles, association list *)
  c_labels : list (nat * list nat) }.

Fixpoint lookup (k : nat) (l : list (nat * list nat)) : option (list nat) :=
  match l with [] => None | (k', v) :: r => if k =? k' then Some v else lookup k r end.

Section Stable.
Variable rev_uses_reverse_rules obj_excl_tests_entity missing_rev_returns_false : bool.
Variable attr_ent : nat -> nat.
Variable attr_rev : nat -> option nat.
Variable attr_hidden : nat -> bool.
Variable obj_ent : nat -> nat.
Variable rules : nat -> nat -> list rule.
(* providers may answer differently every time they are asked (t = moment of the call) *)
Variable groups_at : nat -> list nat.
Variable roles_at : nat -> nat -> list nat.
Variable labels_at : nat -> nat -> list nat.

(* has_perm(user, p, x) called at moment t with the caches c: returns the caches afterwards and the answer *)
Definition check (c : caches) (t : nat) (p : nat) (x : target) : caches * bool :=
  let g := match c_groups c with Some g => g | None => groups_at t end in
  let c1 := mkcaches (Some g) (c_roles c) (c_labels c) in
  match x with
  | TObj o =>
    let rl := match lookup o (c_roles c) with Some v => v | None => roles_at t o end in
    let lb := match lookup o (c_labels c) with Some v => v | None => labels_at t o end in
    let c2 := mkcaches (Some g)
                       (match lookup o (c_roles c) with Some _ => c_roles c | None => (o, rl) :: c_roles c end)
                       (match lookup o (c_labels c) with Some _ => c_labels c | None => (o, lb) :: c_labels c end) in
    (c2, has_perm_obj obj_excl_tests_entity obj_ent rules g (fun _ => rl) (fun _ => lb) o p)
  | _ =>
    (c1, has_perm rev_uses_reverse_rules obj_excl_tests_entity missing_rev_returns_false attr_ent attr_rev attr_hidden obj_ent rules
                  g (fun _ => []) (fun _ => []) p x)
  end.

(* the outermost db_session ends (DBSessionContextManager._commit_or_rollback): the SessionCache - and with it the label cache - is
   gone; the thread-local group and role caches are cleared on the paths the source clears them on (Gen/C34Src.v) *)
Definition end_session (clear_on_commit clear_on_rollback committed : bool) (c : caches) : caches :=
  if (if committed then clear_on_commit else clear_on_rollback) then mkcaches None [] []
  else mkcaches (c_groups c) (c_roles c) [].

(* a thread's history across sessions: permission checks and session ends (commit or rollback) *)
Inductive hitem := HCheck (t p : nat) (x : target) | HEnd (committed : bool).

Fixpoint history (cc cr : bool) (c : caches) (h : list hitem) : list bool :=
  match h with
  | [] => []
  | HCheck t p x :: r => let '(c', b) := check c t p x in b :: history cc cr c' r
  | HEnd committed :: r => history cc cr (end_session cc cr committed c) r
  end.

(* a history of checks (moment, permission, target), answers in order *)
Fixpoint checks (c : caches) (h : list (nat * nat * target)) : list bool :=
  match h with
  | [] => []
  | (t, p, x) :: r => let '(c', b) := check c t p x in b :: checks c' r
  end.
End Stable.

(* ---------------------------------------------------------------------------------------------
   declaring rules: `with db.set_perms_for(E1, ...): perm(...).exclude(...)`.
   set_perms_for adds the subclasses of the named entities to the context; AccessRule.__init__ puts the rule into
   entity._access_rules_[perm] of every entity of the context; exclude(Entity) excludes the entity and its subclasses.
   A declaration is data; `subs e` = the (transitive) subclasses of e known when the declaration is made. *)
Record decl := mkdecl { d_ctx : list nat; d_perms : list nat; d_rule : rule (* with the excluded entities as written *) }.

Definition close_subs (subs : nat -> list nat) (es : list nat) : list nat := es ++ flat_map subs es.

Definition expand (subs : nat -> list nat) (d : decl) : rule :=
  let r := d_rule d in mkrule (r_groups r) (r_roles r) (r_labels r) (close_subs subs (r_exclE r)) (r_exclA r).

(* entity._access_rules_[perm] after the declarations ds (in declaration order) *)
Definition rules_of_decls (subs : nat -> list nat) (ds : list decl) (e p : nat) : list rule :=
  map (expand subs) (filter (fun d => mem e (close_subs subs (d_ctx d)) && mem p (d_perms d)) ds).
