(* C03 - boolean equalities used by the correspondence run to compare the model of Model/C03Decomp.v with what CPython's
   compiler and Pony's Decompiler really produced (serialised by tools/props/c03.py).  Definitions only. *)
From Coq Require Import List Bool Arith.
Import ListNotations.
Require Import PonyV.Model.C03Bexp PonyV.Model.C03Decomp.

Definition instr_eqb (a b : instr) : bool :=
  match a, b with
  | ILoad n, ILoad m => Nat.eqb n m
  | IConst v, IConst w => val_eqb v w
  | INot, INot | ICopy, ICopy | IPopTop, IPopTop | IPushComp, IPushComp | ILoadElt, ILoadElt | IYield, IYield | IReturn, IReturn => true
  | ICmp x, ICmp y | IIs x, IIs y | IBack x, IBack y | IBackNone x, IBackNone y => Bool.eqb x y
  | IJump c t, IJump c' t' | IJumpNone c t, IJumpNone c' t' => Bool.eqb c c' && Nat.eqb t t'
  | IFwd t, IFwd t' => Nat.eqb t t'
  | _, _ => false
  end.

Fixpoint list_eqb {A : Type} (eqb : A -> A -> bool) (l m : list A) : bool :=
  match l, m with
  | [], [] => true
  | x :: r, y :: s => eqb x y && list_eqb eqb r s
  | _, _ => false
  end.

Definition code_eqb : list instr -> list instr -> bool := list_eqb instr_eqb.

Fixpoint ptree_eqb (a b : ptree) {struct a} : bool :=
  match a, b with
  | PAtom n, PAtom m => Nat.eqb n m
  | PConst v, PConst w => val_eqb v w
  | PNot x, PNot y => ptree_eqb x y
  | PBool o l, PBool o' m =>
      Bool.eqb o o' &&
      (fix go (l m : list ptree) : bool :=
         match l, m with
         | [], [] => true
         | x :: r, y :: s => ptree_eqb x y && go r s
         | _, _ => false
         end) l m
  | PIf c x b1, PIf c' x' b2 =>
      ptree_eqb c c' && ptree_eqb x x' &&
      match b1, b2 with Some y, Some y' => ptree_eqb y y' | None, None => true | _, _ => false end
  | PCmp ne x y, PCmp ne' x' y' => Bool.eqb ne ne' && ptree_eqb x x' && ptree_eqb y y'
  | PIsNone n x, PIsNone n' x' => Bool.eqb n n' && ptree_eqb x x'
  | PComp, PComp | PVar, PVar => true
  | _, _ => false
  end.

(* what the real Decompiler gave: an exception, the body of a lambda, or a generator (element, `ifs` of every `for`) *)
Inductive real_result : Type :=
| XExc
| XLambda (body : ptree)
| XGen (elt : ptree) (gens : list (list ptree)).

Definition result_eqb (r : result) (x : real_result) : bool :=
  match r, x with
  | RExc, XExc => true
  | RLambda b, XLambda t => ptree_eqb (strip b) t
  | RGen e gs, XGen t hs => ptree_eqb (strip e) t && list_eqb (list_eqb ptree_eqb) (map (map strip) gs) hs
  | _, _ => false
  end.

Fixpoint insert_sorted (x : nat) (l : list nat) : list nat :=
  match l with [] => [x] | y :: r => if Nat.leb x y then x :: l else y :: insert_sorted x r end.
Definition sort_nat (l : list nat) : list nat := fold_right insert_sorted [] l.

(* or_jumps and conditions_end as the real Decompiler computed them (positions translated to the model's numbering) *)
Definition analysis_eqb (code : list instr) (orj : list nat) (ce : nat) : bool :=
  list_eqb Nat.eqb (sort_nat (or_jumps code)) orj && Nat.eqb (conditions_end code) ce.

(* meaning of the compiled code = meaning of the expression, on every assignment of atoms 0..n-1 (sanity of exec/compile) *)
Definition outcome_eqb (a b : outcome) : bool :=
  match a, b with
  | OYield None, OYield None => true
  | OYield (Some v), OYield (Some w) => val_eqb v w
  | OSkip, OSkip => true
  | _, _ => false
  end.
Definition exec_agrees (ps : position) (n : nat) (e : bexp) : bool :=
  forallb (fun rho => outcome_eqb (run_code rho (compile ps e)) (meaning ps rho e)) (envs (seq 0 n)).

(* all four ties of one (expression, position) in one boolean; `parts` tells which of them differ (for the report) *)
Definition tie_parts (ps : position) (n : nat) (e : bexp) (lit : list instr) (orj : list nat) (ce : nat) (real : real_result) : list bool :=
  [ if compile_domain ps e then code_eqb (compile ps e) lit else true;
    analysis_eqb lit orj ce;
    result_eqb (decompile_code ps lit) real;
    if compile_domain ps e then exec_agrees ps n e else true ].
Definition tie_all (ps : position) (n : nat) (e : bexp) (lit : list instr) (orj : list nat) (ce : nat) (real : real_result) : bool :=
  forallb (fun b => b) (tie_parts ps n e lit orj ce real).

(* the same without the exec/eval table (for expressions with many atoms: the table has 4^n rows) *)
Definition tie_noexec (ps : position) (e : bexp) (lit : list instr) (orj : list nat) (ce : nat) (real : real_result) : bool :=
  (if compile_domain ps e then code_eqb (compile ps e) lit else true) && analysis_eqb lit orj ce && result_eqb (decompile_code ps lit) real.
