(* C03 - executable model of (a) CPython 3.12's code generation for the boolean / jump fragment, followed by Pony's
   get_instructions normalisation, (b) Pony's Decompiler (analyze_jumps / or_jumps, conditional_jump_new, process_target,
   JUMP_FORWARD, simplify, RETURN_VALUE, YIELD_VALUE) as a stack machine, (c) a small-step semantics of the instruction list.
   Definitions only.  Every part is compared with the real thing on every run (tools/props/c03.py, correspondence).

   Positions.  The decompiler uses byte offsets only as identities and through order comparisons, so the model numbers
   instructions by index: instruction i of the modelled stream sits at position i + 2; position 1 is the FOR_ITER of the
   (innermost) loop, the target of every backward jump; 0 means "no endpos attribute". *)
From Coq Require Import List Bool Arith.
Import ListNotations.
Require Import PonyV.Model.C03Bexp.

(* ------------------------------------------------------------------------------------------------ instructions *)
Inductive instr : Type :=
| ILoad (n : nat)              (* LOAD_GLOBAL / LOAD_FAST / LOAD_DEREF of atom n *)
| IConst (v : val)             (* LOAD_CONST *)
| INot                         (* UNARY_NOT *)
| ICmp (ne : bool)             (* COMPARE_OP == / != *)
| IIs (neg : bool)             (* LOAD_CONST None ; IS_OP  (value context `e is None`) *)
| ICopy                        (* COPY 1 *)
| IPopTop                      (* POP_TOP *)
| IJump (c : bool) (t : nat)   (* POP_JUMP_IF_TRUE (c) / POP_JUMP_IF_FALSE, forward, absolute target position *)
| IJumpNone (c : bool) (t : nat)   (* POP_JUMP_IF_NONE (c) / POP_JUMP_IF_NOT_NONE, forward *)
| IBack (c : bool)             (* after Pony's merge: POP_JUMP_BACKWARD_IF_TRUE (c) / _IF_FALSE to the loop top.
                                  In CPython's stream: POP_JUMP_IF_<not c> +1 ; JUMP_BACKWARD top *)
| IBackNone (c : bool)         (* POP_JUMP_BACKWARD_IF_NONE (c) / _IF_NOT_NONE *)
| IFwd (t : nat)               (* JUMP_FORWARD *)
| IPushComp                    (* LOAD iterable ; GET_ITER ; FOR_ITER ; STORE_FAST  of a further for-clause *)
| ILoadElt                     (* LOAD_FAST of the yielded loop variable *)
| IYield                       (* YIELD_VALUE *)
| IReturn.                     (* RETURN_VALUE *)

Definition TOP : nat := 1.
Definition pos_of (i : nat) : nat := i + 2.

(* ------------------------------------------------------------------------------------------------ (a) code generation *)
(* jump target while generating: the loop's cleanup label (becomes a backward jump) or an absolute position *)
Inductive tgt : Type := TTop | TAt (p : nat).

Definition jump_to (c : bool) (t : tgt) : instr :=
  match t with TTop => IBack c | TAt p => IJump c p end.
(* POP_JUMP_IF_FALSE cleanup is emitted by CPython as POP_JUMP_IF_TRUE +1; JUMP_BACKWARD and merged by Pony into
   POP_JUMP_BACKWARD_IF_TRUE?  No: Pony renames the pair (POP_JUMP_IF_TRUE ; JUMP_BACKWARD) to POP_JUMP_BACKWARD_IF_FALSE,
   i.e. the merged instruction has the sense of the ORIGINAL jump to cleanup.  IBack c = "jump back to the top if c". *)
Definition jump_none_to (c : bool) (t : tgt) : instr :=
  match t with TTop => IBackNone c | TAt p => IJumpNone c p end.

(* number of instructions emitted for e: in condition context (compiler_jump_if) when cnd = true, else value context *)
Fixpoint elen (cnd : bool) (e : bexp) {struct e} : nat :=
  match e with
  | Atom _ => if cnd then 2 else 1
  | Const _ => if cnd then 2 else 1
  | Not e1 => if cnd then elen true e1
              else match e1 with IsNone _ e2 => S (elen false e2) | _ => S (elen false e1) end
  | And l | Or l =>
      (fix go (l : list bexp) : nat :=
         match l with
         | [] => 0
         | x :: r => match r with
                     | [] => elen cnd x
                     | _ :: _ => (if cnd then elen true x else elen false x + 3) + go r
                     end
         end) l
  | IfExp c a b => elen true c + elen cnd a + 1 + elen cnd b
  | Cmp _ a b => elen false a + elen false b + (if cnd then 2 else 1)
  | IsNone _ e1 => elen false e1 + 1
  end.

Fixpoint elen_list (cnd : bool) (l : list bexp) : nat :=
  match l with
  | [] => 0
  | x :: r => match r with
              | [] => elen cnd x
              | _ :: _ => (if cnd then elen true x else elen false x + 3) + elen_list cnd r
              end
  end.

(* comp cnd e p next c : code of e placed at position p.
   cnd = true : compiler_jump_if(e, next, c)  - jump to next when the truth value of e is c, fall through otherwise;
   cnd = false: value of e is left on the stack (next, c unused). *)
Fixpoint comp (cnd : bool) (e : bexp) (p : nat) (next : tgt) (c : bool) {struct e} : list instr :=
  match e with
  | Atom n => if cnd then [ILoad n; jump_to c next] else [ILoad n]
  | Const v => if cnd then [IConst v; jump_to c next] else [IConst v]
  | Not e1 =>
      if cnd then comp true e1 p next (negb c)
      else match e1 with
           | IsNone neg e2 => comp false e2 p next c ++ [IIs (negb neg)]     (* peephole: IS_OP ; UNARY_NOT -> inverted IS_OP *)
           | _ => comp false e1 p next c ++ [INot]
           end
  | And l =>
      let total := elen cnd e in
      (* condition context: operands jump to next2 when false; next2 = next if the whole jumps on false, else the end *)
      let next2 := if cnd then (if c then TAt (p + total) else next) else TAt (p + total) in
      (fix go (l : list bexp) (p : nat) : list instr :=
         match l with
         | [] => []
         | x :: r => match r with
                     | [] => comp cnd x p next c
                     | _ :: _ =>
                         if cnd then comp true x p next2 false ++ go r (p + elen true x)
                         else comp false x p next c ++ [ICopy; jump_to false next2; IPopTop] ++ go r (p + elen false x + 3)
                     end
         end) l p
  | Or l =>
      let total := elen cnd e in
      let next2 := if cnd then (if c then next else TAt (p + total)) else TAt (p + total) in
      (fix go (l : list bexp) (p : nat) : list instr :=
         match l with
         | [] => []
         | x :: r => match r with
                     | [] => comp cnd x p next c
                     | _ :: _ =>
                         if cnd then comp true x p next2 true ++ go r (p + elen true x)
                         else comp false x p next c ++ [ICopy; jump_to true next2; IPopTop] ++ go r (p + elen false x + 3)
                     end
         end) l p
  | IfExp t a b =>
      let pa := p + elen true t in
      let pb := pa + elen cnd a + 1 in
      let pe := pb + elen cnd b in
      comp true t p (TAt pb) false ++ comp cnd a pa next c ++ [IFwd pe] ++ comp cnd b pb next c
  | Cmp ne a b =>
      comp false a p next c ++ comp false b (p + elen false a) next c ++ [ICmp ne] ++ (if cnd then [jump_to c next] else [])
  | IsNone neg e1 =>
      (* `x is None` as a condition is peephole-optimised to POP_JUMP_IF_(NOT_)NONE *)
      comp false e1 p next c ++ (if cnd then [jump_none_to (xorb c neg) next] else [IIs neg])
  end.

(* CPython's jump threading: a jump whose target instruction is an unconditional JUMP goes to that jump's target *)
Definition target_of (i : instr) : option nat :=
  match i with IJump _ t | IJumpNone _ t | IFwd t => Some t | _ => None end.
Definition retarget (i : instr) (t : nat) : instr :=
  match i with IJump c _ => IJump c t | IJumpNone c _ => IJumpNone c t | IFwd _ => IFwd t | _ => i end.

Fixpoint final_target (fuel : nat) (code : list instr) (t : nat) : nat :=
  match fuel with
  | O => t
  | S f => match nth_error code (t - 2) with
           | Some (IFwd t') => if Nat.leb 2 t then final_target f code t' else t
           | _ => t
           end
  end.

Definition thread (code : list instr) : list instr :=
  map (fun i => match target_of i with Some t => retarget i (final_target (length code) code t) | None => i end) code.

(* the five modelled positions of an expression *)
Inductive position : Type := PFilter | PFilter2 | PFilter3 | PElt | PLambda.

(* Domain of the code-generation model.  Not modelled: compile-time constants (CPython folds jumps on them and removes
   dead code) and conditional expressions in a lambda body (CPython copies the small exit block `...; RETURN_VALUE` to
   every `JUMP_FORWARD end`; the decompiler rejects such code anyway: RETURN_VALUE before the end). *)
Fixpoint has_const (e : bexp) : bool :=
  match e with
  | Atom _ => false
  | Const _ => true
  | Not e1 | IsNone _ e1 => has_const e1
  | And l | Or l => (fix go (l : list bexp) : bool := match l with [] => false | x :: r => has_const x || go r end) l
  | IfExp c a b => has_const c || has_const a || has_const b
  | Cmp _ a b => has_const a || has_const b
  end.
Fixpoint has_ifexp (e : bexp) : bool :=
  match e with
  | Atom _ | Const _ => false
  | Not e1 | IsNone _ e1 => has_ifexp e1
  | And l | Or l => (fix go (l : list bexp) : bool := match l with [] => false | x :: r => has_ifexp x || go r end) l
  | IfExp _ _ _ => true
  | Cmp _ a b => has_ifexp a || has_ifexp b
  end.

Definition compile (ps : position) (e : bexp) : list instr :=
  match ps with
  | PFilter => thread (comp true e (pos_of 0) TTop false ++ [ILoadElt; IYield])
  | PFilter2 => thread (comp true e (pos_of 0) TTop false ++ [IPushComp; ILoadElt; IYield])
  | PFilter3 => thread (IPushComp :: comp true e (pos_of 1) TTop false ++ [ILoadElt; IYield])
  | PElt => thread (comp false e (pos_of 0) TTop false ++ [IYield])
  | PLambda => thread (comp false e (pos_of 0) TTop false ++ [IReturn])
  end.

Definition compile_domain (ps : position) (e : bexp) : bool :=
  negb (has_const e) && match ps with PLambda => negb (has_ifexp e) | _ => true end.

(* ------------------------------------------------------------------------------------------------ (b) Pony's decompiler *)
(* The decompiler's AST objects: every node carries an identity (fresh for the clauses / conditional expressions that are
   stored in `targets`, 0 otherwise) and its `endpos` attribute (0 = absent). *)
Inductive dn : Type :=
| DAtom (id ep : nat) (n : nat)
| DConst (id ep : nat) (v : val)
| DNot (id ep : nat) (e : dn)
| DBool (id ep : nat) (isor : bool) (vs : list dn)
| DIf (id ep : nat) (c a : dn) (b : option dn)
| DCmp (id ep : nat) (ne : bool) (a b : dn)
| DIsNone (id ep : nat) (neg : bool) (e : dn)
| DComp (id ep : nat)            (* ast.comprehension pushed by FOR_ITER *)
| DElt (id ep : nat).            (* the yielded loop variable *)

Definition id_of (d : dn) : nat :=
  match d with DAtom i _ _ | DConst i _ _ | DNot i _ _ | DBool i _ _ _ | DIf i _ _ _ _ | DCmp i _ _ _ _ | DIsNone i _ _ _ | DComp i _ | DElt i _ => i end.
Definition ep_of (d : dn) : nat :=
  match d with DAtom _ e _ | DConst _ e _ | DNot _ e _ | DBool _ e _ _ | DIf _ e _ _ _ | DCmp _ e _ _ _ | DIsNone _ e _ _ | DComp _ e | DElt _ e => e end.
Definition set_ep (d : dn) (e : nat) : dn :=
  match d with
  | DAtom i _ n => DAtom i e n | DConst i _ v => DConst i e v | DNot i _ x => DNot i e x | DBool i _ o vs => DBool i e o vs
  | DIf i _ c a b => DIf i e c a b | DCmp i _ ne a b => DCmp i e ne a b | DIsNone i _ n x => DIsNone i e n x
  | DComp i _ => DComp i e | DElt i _ => DElt i e
  end.
Definition is_comp (d : dn) : bool := match d with DComp _ _ => true | _ => false end.

(* simplify(clause) *)
Definition simplify (d : dn) : dn :=
  match d with
  | DBool _ ep false [x] => if Nat.ltb (ep_of x) ep then set_ep x ep else x
  | DBool _ ep true [x] => DNot 0 ep x          (* new UnaryOp: endpos 0 < clause.endpos unless that is 0 too *)
  | _ => d
  end.

Record state : Type := mkState {
  stack : list dn;                  (* head = top *)
  targets : list (nat * nat);       (* pos -> identity of the pending clause *)
  nextid : nat
}.

Fixpoint tget (ts : list (nat * nat)) (p : nat) : option nat :=
  match ts with [] => None | (q, i) :: r => if Nat.eqb q p then Some i else tget r p end.
Fixpoint tdel (ts : list (nat * nat)) (p : nat) : list (nat * nat) :=
  match ts with [] => [] | (q, i) :: r => if Nat.eqb q p then tdel r p else (q, i) :: tdel r p end.
Fixpoint tset (ts : list (nat * nat)) (p i : nat) : list (nat * nat) :=
  match ts with [] => [(p, i)] | (q, j) :: r => if Nat.eqb q p then (q, i) :: r else (q, j) :: tset r p i end.
Definition tsetdefault (ts : list (nat * nat)) (p i : nat) : list (nat * nat) :=
  match tget ts p with Some _ => ts | None => ts ++ [(p, i)] end.

Definition same_id (d : dn) (lim : option nat) : bool :=
  match lim with Some i => Nat.eqb (id_of d) i && negb (Nat.eqb i 0) | None => false end.

(* the loop of process_target; structurally recursive on the stack below `top`.
   pos = Some p: the position being processed (for the `partial` test); returns the new stack (top pushed) and targets,
   or None = exception (DecompileError "too complex"). *)
Fixpoint pt_loop (partial : bool) (pos : nat) (lim : option nat) (top : dn) (stk : list dn) (ts : list (nat * nat))
  : option (list dn * list (nat * nat)) :=
  let top := simplify top in
  if same_id top lim then Some (top :: stk, ts)
  else if is_comp top then Some (top :: stk, ts)
  else match stk with
       | [] => Some ([top], ts)
       | top2 :: rest =>
           if is_comp top2 then Some (top :: stk, ts)
           else if partial && negb (Nat.eqb (ep_of top2) 0) && Nat.eqb (ep_of top2) pos then Some (top :: stk, ts)
           else match top2 with
                | DBool i ep o vs =>
                    let vs' := match top with
                               | DBool _ _ o' vs2 => if Bool.eqb o o' then vs ++ vs2 else vs ++ [top]
                               | _ => vs ++ [top]
                               end in
                    pt_loop partial pos lim (DBool i (Nat.max ep (ep_of top)) o vs') rest ts
                | DIf i ep c a _ =>
                    let ep1 := if Nat.eqb (ep_of top) 0 then ep else ep_of top in
                    let ts' := if negb (Nat.eqb (ep_of top) 0) && same_id top (tget ts (ep_of top)) then tset ts (ep_of top) i else ts in
                    pt_loop partial pos lim (DIf i (Nat.max ep1 (ep_of top)) c a (Some top)) rest ts'
                | _ => None
                end
       end.

(* process_target(pos, partial); pos = 0 stands for None *)
Definition process_target (partial : bool) (pos : nat) (s : state) : option state :=
  let lim := if Nat.eqb pos 0 then None else tget (targets s) pos in
  let ts := if partial || Nat.eqb pos 0 then targets s else tdel (targets s) pos in
  match stack s with
  | [] => None                                            (* IndexError: pop from empty list *)
  | top :: stk => match pt_loop partial pos lim top stk ts with
                  | Some (stk', ts') => Some (mkState stk' ts' (nextid s))
                  | None => None
                  end
  end.

Definition has_target (s : state) (p : nat) : bool := match tget (targets s) p with Some _ => true | None => false end.

Definition pop (s : state) : option (dn * state) :=
  match stack s with [] => None | x :: r => Some (x, mkState r (targets s) (nextid s)) end.
Definition push (x : dn) (s : state) : state := mkState (x :: stack s) (targets s) (nextid s).

(* analyze_jumps *)
Definition jumps_to (code : list instr) (p : nat) : list nat :=      (* positions of forward jumps targeting p, increasing *)
  let fix go (l : list instr) (i : nat) : list nat :=
    match l with
    | [] => []
    | x :: r => match target_of x with
                | Some t => if Nat.eqb t p then pos_of i :: go r (S i) else go r (S i)
                | None => go r (S i)
                end
    end in go code 0.

Definition is_back (i : instr) : bool := match i with IBack _ | IBackNone _ => true | _ => false end.

(* conditions_end: position following the last backward jump before the yield; 0 if there is none *)
Definition conditions_end (code : list instr) : nat :=
  let fix go (l : list instr) (i : nat) (acc : nat) : nat :=
    match l with
    | [] => acc
    | x :: r => go r (S i) (if is_back x then pos_of (S i) else acc)
    end in go code 0 0.

Definition add_or_jump (p : nat) (orj : list nat) (j : nat) : list nat :=
  if Nat.ltb p j then orj                                              (* jump_start_pos > pos: continue *)
  else if existsb (fun o => Nat.ltb j o && Nat.ltb o p) orj then orj   (* an or-jump strictly between: "And jump" *)
  else j :: orj.

(* i runs from the index of conditions_end down to 1 in the real instruction list; every modelled instruction has a
   real index >= 1, so the model walks all positions from conditions_end down to the first *)
Fixpoint analyze (code : list instr) (k : nat) (orj : list nat) : list nat :=
  match k with
  | O => orj
  | S k' => let p := pos_of k' in
            analyze code k' (fold_left (add_or_jump p) (jumps_to code p) orj)
  end.

Definition or_jumps (code : list instr) : list nat :=
  let ce := conditions_end code in
  if Nat.eqb ce 0 then [] else analyze code (S (ce - 2)) [].

(* positions of the jumps whose previous instruction is COPY: the jump of a value-context and/or (COPY ; POP_JUMP_IF_x ;
   POP_TOP).  Since /repo 145f804 conditional_jump_new treats them like jumps after conditions_end. *)
Definition value_jumps (code : list instr) : list nat :=
  let fix go (l : list instr) (i : nat) : list nat :=
    match l with
    | [] => []
    | x :: r => match x with ICopy => pos_of (S i) :: go r (S i) | _ => go r (S i) end
    end in go code 0.

(* conditional_jump_new / conditional_jump_none_impl; mk turns the popped expression into the clause operand *)
Definition cond_jump (orj : list nat) (ce : nat) (vcs : list nat) (p nextp endpos : nat) (if_true : bool)
           (none_test : option bool) (s : state) : option state :=
  match pop s with
  | None => None
  | Some (expr, s1) =>
      let in_or := existsb (Nat.eqb p) orj in
      let '(isor, expr1) :=
        match none_test with
        | None =>
            if Nat.leb ce p || existsb (Nat.eqb p) vcs then (if_true, expr)
            else if in_or then (true, if if_true then expr else DNot 0 0 expr)
            else (false, if if_true then DNot 0 0 expr else expr)
        | Some negate =>
            if in_or then (true, DIsNone 0 0 negate expr) else (false, DIsNone 0 0 (negb negate) expr)
        end in
      let s2 := push expr1 s1 in
      (* conditional_jump_none_impl starts with assert(pos < conditions_end) *)
      let asserted := match none_test with Some _ => Nat.ltb p ce | None => true end in
      match (if negb asserted then None else if has_target s2 nextp then process_target false nextp s2 else Some s2) with
      | None => None
      | Some s3 =>
          match pop s3 with
          | None => None
          | Some (expr2, s4) =>
              let id := nextid s4 in
              let clause := DBool id endpos isor [expr2] in
              Some (mkState (clause :: stack s4) (tsetdefault (targets s4) endpos id) (S id))
          end
      end
  end.

Definition jump_forward (nextp endpos : nat) (s : state) : option state :=
  match process_target true nextp s with
  | None => None
  | Some s1 =>
      match pop s1 with
      | None => None
      | Some (thn, s2) =>
          match process_target false nextp s2 with
          | None => None
          | Some s3 =>
              match pop s3 with
              | None => None
              | Some (test, s4) =>
                  let id := nextid s4 in
                  let ife := DIf id endpos (simplify test) (simplify thn) None in
                  let ts1 := tsetdefault (targets s4) endpos id in
                  let ts2 := if same_id thn (tget ts1 endpos) then tset ts1 endpos id else ts1 in
                  Some (mkState (ife :: stack s4) ts2 (S id))
              end
          end
      end
  end.

(* result of Decompiler(code).ast *)
Inductive result : Type :=
| RExc                                              (* any exception = rejection *)
| RLambda (body : dn)
| RGen (elt : dn) (gens : list (list dn)).          (* generators in source order, each with its `ifs` *)

(* YIELD_VALUE: collect the comprehensions (and the condition sitting above each) from the stack *)
Fixpoint yield_loop (fuel : nat) (s : state) (acc : list (list dn)) : option (list (list dn)) :=
  match fuel with
  | O => None
  | S f =>
      match stack s with
      | [] => Some acc
      | _ =>
          match process_target false 0 s with
          | None => None
          | Some s1 =>
              match pop s1 with
              | None => None
              | Some (top, s2) =>
                  if is_comp top then yield_loop f s2 ([] :: acc)
                  else match pop s2 with
                       | None => None                                   (* IndexError *)
                       | Some (top2, s3) => if is_comp top2 then yield_loop f s3 ([top] :: acc) else None   (* AssertionError *)
                       end
              end
          end
      end
  end.

(* one iteration of the main loop of Decompiler.decompile for an instruction that is not the last one:
   `if pos in targets: process_target(pos)`, then the opcode method.  (The `code` the decompiler runs over enters only
   through or_jumps and conditions_end.) *)
Definition step (orj : list nat) (ce : nat) (vcs : list nat) (ins : instr) (i : nat) (s : state) : option state :=
  let p := pos_of i in
  let nextp := pos_of (S i) in
  match (if has_target s p then process_target false p s else Some s) with
  | None => None
  | Some s0 =>
      match ins with
      | ILoad n => Some (push (DAtom 0 0 n) s0)
      | IConst v => Some (push (DConst 0 0 v) s0)
      | ILoadElt => Some (push (DElt 0 0) s0)
      | IPushComp => Some (push (DComp 0 0) s0)
      | INot => match pop s0 with Some (x, s1) => Some (push (DNot 0 0 x) s1) | None => None end
      | ICmp ne => match pop s0 with
                   | Some (b, s1) => match pop s1 with Some (a, s2) => Some (push (DCmp 0 0 ne a b) s2) | None => None end
                   | None => None end
      | IIs neg => match pop s0 with Some (x, s1) => Some (push (DIsNone 0 0 neg x) s1) | None => None end
      | ICopy | IPopTop => Some s0
      | IJump c t => cond_jump orj ce vcs p nextp t c None s0
      | IBack c => cond_jump orj ce vcs p nextp TOP c None s0
      | IJumpNone c t => cond_jump orj ce vcs p nextp t c (Some (negb c)) s0
      | IBackNone c => cond_jump orj ce vcs p nextp TOP c (Some (negb c)) s0
      | IFwd t => jump_forward nextp t s0
      | IReturn | IYield => None          (* handled by `finish` *)
      end
  end.

(* RETURN_VALUE / YIELD_VALUE (the last instruction the decompiler executes) and the end of Decompiler.__init__ *)
Definition finish (ins : instr) (last : bool) (i : nat) (s : state) : result :=
  match (if has_target s (pos_of i) then process_target false (pos_of i) s else Some s) with
  | None => RExc
  | Some s0 =>
      match ins with
      | IReturn =>
          if negb last then RExc                                     (* next_pos != end: DecompileError *)
          else match pop s0 with
               | Some (x, s1) => match stack s1 with [] => RLambda (simplify x) | _ => RExc end
               | None => RExc
               end
      | IYield =>
          match pop s0 with
          | None => RExc
          | Some (x, s1) => match yield_loop (S (length (stack s1))) s1 [] with
                            | Some gens => RGen (simplify x) gens
                            | None => RExc
                            end
          end
      | _ => RExc
      end
  end.

Definition is_final (ins : instr) : bool := match ins with IReturn | IYield => true | _ => false end.

Fixpoint run (orj : list nat) (ce : nat) (vcs : list nat) (rest : list instr) (i : nat) (s : state) : result :=
  match rest with
  | [] => RExc
  | ins :: rest' =>
      if is_final ins then finish ins (match rest' with [] => true | _ => false end) i s
      else match step orj ce vcs ins i s with
           | None => RExc
           | Some s' => run orj ce vcs rest' (S i) s'
           end
  end.

Definition init_state (ps : position) : state :=
  match ps with
  | PLambda => mkState [] [] 1
  | _ => mkState [DComp 0 0] [] 1
  end.

Definition decompile_code (ps : position) (code : list instr) : result :=
  run (or_jumps code) (conditions_end code) (value_jumps code) code 0 (init_state ps).

(* the decompiled tree without the bookkeeping; comprehension / missing else-branch make it "not an expression" *)
Inductive ptree : Type :=
| PAtom (n : nat) | PConst (v : val) | PNot (e : ptree) | PBool (isor : bool) (vs : list ptree)
| PIf (c a : ptree) (b : option ptree) | PCmp (ne : bool) (a b : ptree) | PIsNone (neg : bool) (e : ptree)
| PComp | PVar.

Fixpoint strip (d : dn) : ptree :=
  match d with
  | DAtom _ _ n => PAtom n
  | DConst _ _ v => PConst v
  | DNot _ _ e => PNot (strip e)
  | DBool _ _ o vs => PBool o (map strip vs)
  | DIf _ _ c a b => PIf (strip c) (strip a) (match b with Some x => Some (strip x) | None => None end)
  | DCmp _ _ ne a b => PCmp ne (strip a) (strip b)
  | DIsNone _ _ neg e => PIsNone neg (strip e)
  | DComp _ _ => PComp
  | DElt _ _ => PVar
  end.

Fixpoint to_bexp (t : ptree) : option bexp :=
  match t with
  | PAtom n => Some (Atom n)
  | PConst v => Some (Const v)
  | PNot e => match to_bexp e with Some x => Some (Not x) | None => None end
  | PBool o vs =>
      let r := (fix go (l : list ptree) : option (list bexp) :=
                  match l with
                  | [] => Some []
                  | x :: r => match to_bexp x, go r with Some a, Some b => Some (a :: b) | _, _ => None end
                  end) vs in
      match r with Some l => Some (if o then Or l else And l) | None => None end
  | PIf c a (Some b) => match to_bexp c, to_bexp a, to_bexp b with Some x, Some y, Some z => Some (IfExp x y z) | _, _, _ => None end
  | PIf _ _ None => None
  | PCmp ne a b => match to_bexp a, to_bexp b with Some x, Some y => Some (Cmp ne x y) | _, _ => None end
  | PIsNone neg e => match to_bexp e with Some x => Some (IsNone neg x) | None => None end
  | PComp | PVar => None
  end.

(* the expression the decompiler reports at the position the source expression was written in, when the rest of the tree
   is the expected context (one condition for the right `for`, the loop variable as element) *)
Definition conj (l : list ptree) : option ptree := match l with [] => None | [x] => Some x | _ => Some (PBool false l) end.

Definition extract (ps : position) (r : result) : option bexp :=
  match ps, r with
  | PLambda, RLambda b => to_bexp (strip b)
  | PElt, RGen e [[]] => to_bexp (strip e)
  | PFilter, RGen (DElt _ _) [ifs] => match conj (map strip ifs) with Some t => to_bexp t | None => None end
  | PFilter2, RGen (DElt _ _) [ifs; []] => match conj (map strip ifs) with Some t => to_bexp t | None => None end
  | PFilter3, RGen (DElt _ _) [[]; ifs] => match conj (map strip ifs) with Some t => to_bexp t | None => None end
  | _, _ => None
  end.

Definition decompile (ps : position) (e : bexp) : option bexp := extract ps (decompile_code ps (compile ps e)).

(* ------------------------------------------------------------------------------------------------ (c) execution *)
(* Small-step semantics of the modelled stream over the value domain.  The run of a condition ends at the yield
   (result true = the element is produced) or at a backward jump (false = the loop continues with the next element);
   the run of a value ends at YIELD_VALUE / RETURN_VALUE with the value on top. *)
Inductive outcome : Type := OYield (v : option val) | OSkip | OStuck.

Fixpoint exec (fuel : nat) (rho : env) (code : list instr) (pc : nat) (stk : list val) : outcome :=
  match fuel with
  | O => OStuck
  | S f =>
      match nth_error code (pc - 2) with
      | None => OStuck
      | Some ins =>
          if Nat.ltb pc 2 then OStuck else
          let nxt := S pc in
          match ins, stk with
          | ILoad n, _ => exec f rho code nxt (rho n :: stk)
          | IConst v, _ => exec f rho code nxt (v :: stk)
          | INot, x :: r => exec f rho code nxt (of_bool (negb (truthy x)) :: r)
          | ICmp ne, b :: a :: r => exec f rho code nxt (of_bool (xorb ne (val_eqb a b)) :: r)
          | IIs neg, x :: r => exec f rho code nxt (of_bool (xorb neg (val_eqb x VNone)) :: r)
          | ICopy, x :: r => exec f rho code nxt (x :: x :: r)
          | IPopTop, _ :: r => exec f rho code nxt r
          | IJump c t, x :: r => if Bool.eqb (truthy x) c then exec f rho code t r else exec f rho code nxt r
          | IJumpNone c t, x :: r => if Bool.eqb (val_eqb x VNone) c then exec f rho code t r else exec f rho code nxt r
          | IBack c, x :: r => if Bool.eqb (truthy x) c then OSkip else exec f rho code nxt r
          | IBackNone c, x :: r => if Bool.eqb (val_eqb x VNone) c then OSkip else exec f rho code nxt r
          | IFwd t, _ => exec f rho code t stk
          | IPushComp, _ => exec f rho code nxt stk
          | ILoadElt, _ => OYield None                 (* the element of a filtered generator: the condition held *)
          | IYield, x :: _ => OYield (Some x)
          | IReturn, x :: _ => OYield (Some x)
          | _, _ => OStuck
          end
      end
  end.

Definition run_code (rho : env) (code : list instr) : outcome := exec (S (length code)) rho code 2 [].

(* what the source expression means at a position *)
Definition meaning (ps : position) (rho : env) (e : bexp) : outcome :=
  match ps with
  | PFilter | PFilter2 | PFilter3 => if truthy (eval rho e) then OYield None else OSkip
  | PElt | PLambda => OYield (Some (eval rho e))
  end.
