(* C01 - the LIKE family: x.startswith(y), x.endswith(y), y in x, y not in x on strings (StringMixin._like,
   call_startswith, call_endswith, contains in pony/orm/sqltranslation.py), kept apart from the scalar grammar so that
   the C01 induction proof is untouched.  The haystack and the needle are expressions of the C01 grammar.
   Definitions only: the SQL AST built, a LIKE matcher with escape character (SQLite / PostgreSQL / MySQL reading with
   case-sensitive comparison: PRAGMA case_sensitive_like = true is set by the SQLite provider), and the Python meaning. *)
Require Import PonyV.Base.PyBase PonyV.Model.C01Expr PonyV.Model.C01Sql PonyV.Model.C01Translate.

Inductive lx : Type :=
| LX (q : qx)                          (* an expression of the C01 fragment *)
| LLit (s : str)                       (* ['VALUE', s]                       *)
| LReplace (x : lx) (c : Z) (by_ : str)(* ['REPLACE', x, ['VALUE', c], ['VALUE', by_]] with a one-character c *)
| LConcat (l : list lx)                (* ['CONCAT', ...]                    *)
| LCoalesceEmpty (x : lx).             (* ['COALESCE', x, ['VALUE', '']]     *)

Inductive lcond : Type :=
| LLike (neg : bool) (x pat : lx) (esc : bool)   (* ['LIKE' | 'NOT_LIKE', x, pat(, ['VALUE', '!'])] *)
| LOrNull (c : lcond) (x : lx).                  (* ['OR', c, ['IS_NULL', x]]                       *)

Inductive lkind : Type := KStarts | KEnds | KContains.

Definition c_bang : Z := 33.   (* ! *)
Definition c_pct : Z := 37.    (* % *)
Definition c_us : Z := 95.     (* _ *)

Definition has_wild (s : str) : bool := existsb (fun c => (c =? c_pct) || (c =? c_us)) s.

(* value.replace('!', '!!').replace('%', '!%').replace('_', '!_') on a Python string *)
Definition esc_char (c : Z) : str := if (c =? c_bang) || (c =? c_pct) || (c =? c_us) then [c_bang; c] else [c].
Definition esc_str (s : str) : str := flat_map esc_char s.

(* isinstance(item, StringConstMonad): the needle is a string literal of the query *)
Definition needle_lit (m : monad) : option str :=
  match m with MVal KConst TStr _ (QVal (QLStr v)) => Some v | _ => None end.
(* any other string monad: its SQL *)
Definition needle_sql (m : monad) : option qx :=
  match m with MVal _ TStr _ q => Some q | _ => None end.

(* StringMixin._like(item, before, after, not_like) for a haystack monad (sql, nullable, is an AttrMonad) *)
Definition like_ast (d : dname) (hay : qx) (nullable is_attr : bool) (needle : monad) (before after not_like : bool) : option lcond :=
  let pre := if before then [LLit [c_pct]] else [] in
  let post := if after then [LLit [c_pct]] else [] in
  let item : option (lx * bool) :=
    match needle_lit needle with
    | Some v =>
        let esc := has_wild v in
        let v' := if esc then esc_str v else v in
        Some (LLit ((if before then [c_pct] else []) ++ v' ++ (if after then [c_pct] else [])), esc)
    | None =>
        match needle_sql needle with
        | Some q =>
            let r := LReplace (LReplace (LReplace (LX q) c_bang [c_bang; c_bang]) c_pct [c_bang; c_pct]) c_us [c_bang; c_us] in
            Some ((if before || after then LConcat (pre ++ [r] ++ post) else r), true)
        | None => None
        end
    end in
  match item with
  | None => None
  | Some (pat, esc) =>
      let x := if not_like && nullable && negb is_attr && negb (oracle d) then LCoalesceEmpty (LX hay) else LX hay in
      let c := LLike not_like x pat esc in
      Some (if not_like && nullable && (is_attr || oracle d) then LOrNull c x else c)
  end.

(* BoolExprMonad.negate on the result *)
Definition like_negate (c : lcond) : option lcond :=
  match c with LLike neg x pat esc => Some (LLike (negb neg) x pat esc) | _ => None end.

(* the whole source form: hay.startswith(needle) / hay.endswith(needle) / needle in hay, optionally under not / as not in *)
Definition like_of (d : dname) (k : lkind) (neg : bool) (hay needle : expr) : option lcond :=
  match tr d hay with
  | MVal kh TStr n q =>
      let is_attr := match kh with KAttr => true | _ => false end in
      match k with
      | KContains => like_ast d q n is_attr (tr d needle) true true neg
      | KStarts | KEnds =>
          match like_ast d q n is_attr (tr d needle) (match k with KEnds => true | _ => false end) (match k with KStarts => true | _ => false end) false with
          | Some c => if neg then like_negate c else Some c
          | None => None
          end
      end
  | _ => None
  end.

(* ------------------------------------------------------------------------------------------- semantics *)
Inductive tok : Type := TLit (c : Z) | TAny | TOne.

(* pattern -> tokens; with_esc: `ESCAPE '!'` was given *)
Fixpoint parse (with_esc escaped : bool) (p : str) : list tok :=
  match p with
  | [] => []
  | c :: r =>
      if escaped then TLit c :: parse with_esc false r
      else if with_esc && (c =? c_bang) then parse with_esc true r
      else if c =? c_pct then TAny :: parse with_esc false r
      else if c =? c_us then TOne :: parse with_esc false r
      else TLit c :: parse with_esc false r
  end.

Fixpoint tmatch (ts : list tok) (s : str) : bool :=
  match ts with
  | [] => match s with [] => true | _ => false end
  | TLit c :: r => match s with x :: s' => (x =? c) && tmatch r s' | [] => false end
  | TOne :: r => match s with _ :: s' => tmatch r s' | [] => false end
  | TAny :: r => (fix try (s : str) : bool := tmatch r s || match s with [] => false | _ :: s' => try s' end) s
  end.

Definition like_match (with_esc : bool) (pat s : str) : bool := tmatch (parse with_esc false pat) s.

Definition replace1 (c : Z) (by_ : str) (s : str) : str := flat_map (fun x => if x =? c then by_ else [x]) s.

Section LEval.
Variable d : dname.
Variable qe : qenv.

(* string value of an lx: None = type error, Some None = NULL *)
Fixpoint lval (x : lx) : option (option str) :=
  match x with
  | LX q => match qeval d qe q with StrV s => Some (Some s) | NullV => Some None | _ => None end
  | LLit s => Some (Some s)
  | LReplace y c by_ => match lval y with Some (Some s) => Some (Some (replace1 c by_ s)) | o => o end
  | LConcat l =>
      fold_right (fun y acc => match lval y, acc with
                               | Some (Some a), Some (Some b) => Some (Some (a ++ b))
                               | None, _ | _, None => None
                               | _, _ => Some None
                               end) (Some (Some [])) l
  | LCoalesceEmpty y => match lval y with Some None => Some (Some []) | o => o end
  end.

Fixpoint lcond_eval (c : lcond) : option tv :=
  match c with
  | LLike neg x pat esc =>
      match lval x, lval pat with
      | Some (Some s), Some (Some p) => Some (tv_of_bool (xorb neg (like_match esc p s)))
      | None, _ | _, None => None
      | _, _ => Some U
      end
  | LOrNull c' x =>
      match lcond_eval c', lval x with
      | Some t, Some o => Some (or3 t (tv_of_bool (match o with None => true | Some _ => false end)))
      | _, _ => None
      end
  end.
End LEval.

(* Python: s.startswith(n), s.endswith(n), n in s *)
Fixpoint is_prefix (n s : str) : bool :=
  match n, s with [], _ => true | _ :: _, [] => false | x :: n', y :: s' => (x =? y) && is_prefix n' s' end.
Fixpoint is_infix (n s : str) : bool :=
  is_prefix n s || match s with [] => false | _ :: s' => is_infix n s' end.
Fixpoint is_suffix (n s : str) : bool :=
  ((length n =? length s)%nat && is_prefix n s) || match s with [] => false | _ :: s' => is_suffix n s' end.
Definition py_like (k : lkind) (n s : str) : bool :=
  match k with KStarts => is_prefix n s | KEnds => is_suffix n s | KContains => is_infix n s end.

(* boolean equality for the structural tie *)
Fixpoint zl_eqb (a b : list Z) : bool :=
  match a, b with [], [] => true | x :: a', y :: b' => (x =? y) && zl_eqb a' b' | _, _ => false end.
