(* C23 - model of construct_batchload_criteria_list (pony/orm/core.py): the WHERE criteria that select the rows of a batch
   of keys, in its four shapes ('=' per column for one key, IN for a one-column key, row-value IN, OR of ANDs), and their
   meaning on a row.  Definitions only.  Columns are numbered 0..ncols-1; a parameter (i, j) is column j of the i-th
   object passed to the adapter; key values are non-NULL integers (primary-key columns). *)
Require Import PonyV.Base.PyBase.
Open Scope nat_scope.

Definition param := (nat * nat)%type.

Inductive crit : Type :=
| CEq (col : nat) (p : param)                              (* [EQ, [COLUMN, alias, col], [PARAM, (i, None, j)]] *)
| CIn (col : nat) (ps : list param)                        (* [IN, [COLUMN ..], [PARAM .. for each key]] *)
| CInRow (cols : list nat) (pss : list (list param))       (* [IN, [ROW, COLUMN ..], [[ROW, PARAM ..] for each key]] *)
| COr (conjs : list (list (nat * param))).                 (* [OR, [AND, [EQ, COLUMN, PARAM] ..] for each key] *)

Definition construct (ncols batch start : nat) (row_value_syntax : bool) : list crit :=
  if Nat.eqb batch 1 then map (fun j => CEq j (start, j)) (seq 0 ncols)
  else if Nat.eqb ncols 1 then [CIn 0 (map (fun i => (i + start, 0)) (seq 0 batch))]
  else if row_value_syntax then
    [CInRow (seq 0 ncols) (map (fun i => map (fun j => (i + start, j)) (seq 0 ncols)) (seq 0 batch))]
  else [COr (map (fun i => map (fun j => (j, (i + start, j))) (seq 0 ncols)) (seq 0 batch))].

Section Sem.
  Variable args : list (list Z).      (* the objects passed to the adapter, each as its raw key *)
  Variable row : nat -> Z.            (* the row: value of column j *)

  Definition val (p : param) : Z := nth (snd p) (nth (fst p) args []) 0%Z.
  Fixpoint zs_eqb (a b : list Z) : bool :=
    match a, b with [], [] => true | x :: r, y :: s => (x =? y)%Z && zs_eqb r s | _, _ => false end.
  Definition sem (c : crit) : bool :=
    match c with
    | CEq j p => (row j =? val p)%Z
    | CIn j ps => existsb (fun p => (row j =? val p)%Z) ps
    | CInRow cols pss => existsb (fun ps => zs_eqb (map row cols) (map val ps)) pss
    | COr conjs => existsb (fun conj => forallb (fun jp => (row (fst jp) =? val (snd jp))%Z) conj) conjs
    end.
  (* the criteria of a WHERE list are ANDed *)
  Definition sem_all (l : list crit) : bool := forallb sem l.
End Sem.

(* executable comparison with the serialised implementation output *)
Definition param_eqb (a b : param) : bool := Nat.eqb (fst a) (fst b) && Nat.eqb (snd a) (snd b).
Fixpoint list_eqb {A} (f : A -> A -> bool) (a b : list A) : bool :=
  match a, b with [], [] => true | x :: r, y :: s => f x y && list_eqb f r s | _, _ => false end.
Definition crit_eqb (a b : crit) : bool :=
  match a, b with
  | CEq j p, CEq j' p' => Nat.eqb j j' && param_eqb p p'
  | CIn j ps, CIn j' ps' => Nat.eqb j j' && list_eqb param_eqb ps ps'
  | CInRow cs pss, CInRow cs' pss' => list_eqb Nat.eqb cs cs' && list_eqb (list_eqb param_eqb) pss pss'
  | COr c, COr c' => list_eqb (list_eqb (fun x y => Nat.eqb (fst x) (fst y) && param_eqb (snd x) (snd y))) c c'
  | _, _ => false
  end.
Fixpoint failing_from (n : nat) (l : list bool) : list nat :=
  match l with [] => [] | b :: r => (if b then [] else [n]) ++ failing_from (S n) r end.
Definition failing (l : list bool) : list nat := failing_from 0 l.
