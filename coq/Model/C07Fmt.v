(* C07: Python library functions the translated codec code calls (isoformat, strftime, strptime, '%d:%d:%d' formatting,
   datetime(...) construction) as reference models on field tuples.  Definitions only; each is compared with CPython on
   every run (correspondence), none is verified beyond that. *)
Require Import PonyV.Base.PyBase PonyV.Model.C07Base.
Open Scope Z_scope.

(* ---- values ---------------------------------------------------------------------------------------------------------- *)
Record date_v : Type := mk_date { dy : Z; dm : Z; dd : Z }.
Record time_v : Type := mk_time { th : Z; tmi : Z; ts : Z; tus : Z }.
Record datetime_v : Type := mk_dt { dt_date : date_v; dt_time : time_v }.
(* a normalised datetime.timedelta: days, 0 <= seconds < 86400, 0 <= microseconds < 10^6 *)
Record td_v : Type := mk_td { td_days : Z; td_secs : Z; td_us : Z }.

(* what sql2py hands back: a value of the attribute type, or (bare `except: return val`) the raw database string *)
Inductive dbres (A : Type) : Type :=
| RVal (a : A)
| RStr (s : str).
Arguments RVal {A} a.
Arguments RStr {A} s.

Definition is_leap (y : Z) : bool := ((y mod 4 =? 0) && negb (y mod 100 =? 0)) || (y mod 400 =? 0).
Definition days_in_month (y m : Z) : Z :=
  if (m =? 2) then (if is_leap y then 29 else 28)
  else if (m =? 4) || (m =? 6) || (m =? 9) || (m =? 11) then 30 else 31.

Definition valid_dateb (d : date_v) : bool :=
  (1 <=? dy d) && (dy d <=? 9999) && (1 <=? dm d) && (dm d <=? 12) && (1 <=? dd d) && (dd d <=? days_in_month (dy d) (dm d)).
Definition valid_timeb (t : time_v) : bool :=
  (0 <=? th t) && (th t <? 24) && (0 <=? tmi t) && (tmi t <? 60) && (0 <=? ts t) && (ts t <? 60) && (0 <=? tus t) && (tus t <? 1000000).
Definition valid_tdb (t : td_v) : bool :=
  (0 <=? td_secs t) && (td_secs t <? 86400) && (0 <=? td_us t) && (td_us t <? 1000000).

(* ---- printing ---------------------------------------------------------------------------------------------------------- *)
(* '%d:%d:%d' % (h, m, s)   and   '%d:%d:%d.%06d' % (h, m, s, us)   for non-negative arguments *)
Definition fmt_hms (h m s : Z) : str := print_nat h ++ c_colon :: print_nat m ++ c_colon :: print_nat s.
Definition fmt_hms_us (h m s us : Z) : str := fmt_hms h m s ++ c_dot :: d6 us.

(* time.isoformat(): HH:MM:SS, with .ffffff when microsecond != 0 *)
Definition iso_time (t : time_v) : str :=
  d2 (th t) ++ c_colon :: d2 (tmi t) ++ c_colon :: d2 (ts t) ++ (if tus t =? 0 then [] else c_dot :: d6 (tus t)).
(* datetime.isoformat(' '): YYYY-MM-DD HH:MM:SS[.ffffff] (the year IS zero-padded here) *)
Definition iso_datetime (d : datetime_v) : str :=
  d4 (dy (dt_date d)) ++ c_minus :: d2 (dm (dt_date d)) ++ c_minus :: d2 (dd (dt_date d)) ++ c_space :: iso_time (dt_time d).
(* date.strftime('%Y-%m-%d') with glibc: the year is NOT zero-padded *)
Definition strftime_ymd (d : date_v) : str := print_nat (dy d) ++ c_minus :: d2 (dm d) ++ c_minus :: d2 (dd d).

(* date.isoformat(): YYYY-MM-DD, the year zero-padded *)
Definition iso_date (d : date_v) : str := d4 (dy d) ++ c_minus :: d2 (dm d) ++ c_minus :: d2 (dd d).

(* ---- parsing ----------------------------------------------------------------------------------------------------------- *)
Definition p2 (s : str) : option Z :=
  match s with [a; b] => if is_digit a && is_digit b then Some ((a - 48) * 10 + (b - 48)) else None | _ => None end.
Definition p4 (s : str) : option Z :=
  match s with
  | [a; b; c; d] => if is_digit a && is_digit b && is_digit c && is_digit d
                    then Some ((a - 48) * 1000 + (b - 48) * 100 + (c - 48) * 10 + (d - 48)) else None
  | _ => None
  end.
Definition p6 (s : str) : option Z :=
  match s with
  | [a; b; c; d; e; f] => if is_digit a && is_digit b && is_digit c && is_digit d && is_digit e && is_digit f
                          then Some ((a - 48) * 100000 + (b - 48) * 10000 + (c - 48) * 1000 + (d - 48) * 100 + (e - 48) * 10 + (f - 48)) else None
  | _ => None
  end.

(* strptime on the fixed-width forms the encoders above produce (the real strptime also accepts 1-digit fields:
   such strings are never written by py2sql and are outside the model) *)
Definition strptime_ymd (s : str) : option date_v :=
  match s with
  | [y1; y2; y3; y4; s1; m1; m2; s2; d1; d2_] =>
      if (s1 =? c_minus) && (s2 =? c_minus) then
        match p4 [y1; y2; y3; y4], p2 [m1; m2], p2 [d1; d2_] with
        | Some y, Some m, Some d => let v := mk_date y m d in if valid_dateb v then Some v else None
        | _, _, _ => None
        end
      else None
  | _ => None
  end.

Definition strptime_hms (s : str) : option time_v :=
  match s with
  | [h1; h2; s1; m1; m2; s2; x1; x2] =>
      if (s1 =? c_colon) && (s2 =? c_colon) then
        match p2 [h1; h2], p2 [m1; m2], p2 [x1; x2] with
        | Some h, Some m, Some x => let v := mk_time h m x 0 in if valid_timeb v then Some v else None
        | _, _, _ => None
        end
      else None
  | _ => None
  end.

Definition strptime_hms_f (s : str) : option time_v :=
  match s with
  | [h1; h2; s1; m1; m2; s2; x1; x2; s3; f1; f2; f3; f4; f5; f6] =>
      if (s3 =? c_dot) then
        match strptime_hms [h1; h2; s1; m1; m2; s2; x1; x2], p6 [f1; f2; f3; f4; f5; f6] with
        | Some t, Some us => Some (mk_time (th t) (tmi t) (ts t) us)
        | _, _ => None
        end
      else None
  | _ => None
  end.

(* strptime(s, '%Y-%m-%d %H:%M:%S') on a 19-character string *)
Definition strptime_ymd_hms (s : str) : option (date_v * time_v) :=
  match strptime_ymd (firstn 10 s), strptime_hms (skipn 11 s) with
  | Some d, Some t => if (nth 10 s 0 =? c_space) && (Nat.eqb (length s) 19) then Some (d, t) else None
  | _, _ => None
  end.

(* the datetime constructor applied to the six strptime fields and the microseconds: range-checked construction *)
Definition mk_datetime_checked (dt : date_v * time_v) (us : Z) : option datetime_v :=
  let t := mk_time (th (snd dt)) (tmi (snd dt)) (ts (snd dt)) us in
  if valid_dateb (fst dt) && valid_timeb t then Some (mk_dt (fst dt) t) else None.

(* time(h, m, s, us): range-checked construction *)
Definition time_checked (h m s us : Z) : option time_v := let t := mk_time h m s us in if valid_timeb t then Some t else None.

(* int(s) as used by timestamp2datetime on a digit string *)
Definition int_of_str (s : str) : option Z := parse_int s.

(* ---- tracked Json / array values: which (object, attribute) is notified when the value is edited in place ------------- *)
Inductive tval : Type :=
| TPlain (payload : Z)                      (* a plain dict / list / scalar *)
| TTracked (owner attr payload : Z)         (* a TrackedValue: obj_ref() = owner, .attr = attr *)
| TWrapped (inner : tval).                  (* Json(inner): the marker wrapper of pony.orm.ormtypes *)
Definition tv_is_tracked (v : tval) : bool := match v with TTracked _ _ _ => true | _ => false end.
Definition tv_owner_is (v : tval) (obj : Z) : bool := match v with TTracked o _ _ => o =? obj | _ => false end.
Definition tv_attr_is (v : tval) (attr : Z) : bool := match v with TTracked _ a _ => a =? attr | _ => false end.
Fixpoint tv_payload (v : tval) : Z := match v with TTracked _ _ p => p | TPlain p => p | TWrapped i => tv_payload i end.
Definition tv_notifies (v : tval) : option (Z * Z) := match v with TTracked o a _ => Some (o, a) | _ => None end.
Definition tv_unwrap (v : tval) : tval := match v with TWrapped i => i | _ => v end.
Fixpoint tval_eqb (a b : tval) : bool :=
  match a, b with
  | TPlain p, TPlain q => p =? q
  | TTracked o a p, TTracked o' a' p' => (o =? o') && (a =? a') && (p =? p')
  | TWrapped x, TWrapped y => tval_eqb x y
  | _, _ => false
  end.

(* ---- timedelta arithmetic ---------------------------------------------------------------------------------------------- *)
Definition us_per_day : Z := 86400000000.
Definition td_total_us (t : td_v) : Z := td_days t * us_per_day + td_secs t * 1000000 + td_us t.
(* normalisation done by the timedelta constructor (and by unary minus) *)
Definition td_of_us (u : Z) : td_v :=
  mk_td (u / us_per_day) ((u mod us_per_day) / 1000000) (u mod 1000000).
(* timedelta(hours=h, minutes=m, seconds=s, microseconds=us) *)
Definition td_make (h m s us : Z) : td_v := td_of_us (((h * 60 + m) * 60 + s) * 1000000 + us).
Definition td_neg (t : td_v) : td_v := td_of_us (- td_total_us t).

Definition td_eqb (a b : td_v) : bool := (td_days a =? td_days b) && (td_secs a =? td_secs b) && (td_us a =? td_us b).
Definition date_eqb (a b : date_v) : bool := (dy a =? dy b) && (dm a =? dm b) && (dd a =? dd b).
Definition time_eqb (a b : time_v) : bool := (th a =? th b) && (tmi a =? tmi b) && (ts a =? ts b) && (tus a =? tus b).
Definition dt_eqb (a b : datetime_v) : bool := date_eqb (dt_date a) (dt_date b) && time_eqb (dt_time a) (dt_time b).
Definition dbres_eqb {A} (eqb : A -> A -> bool) (a b : dbres A) : bool :=
  match a, b with RVal x, RVal y => eqb x y | RStr x, RStr y => str_eqb x y | _, _ => false end.
Definition opt_eqb {A} (eqb : A -> A -> bool) (a b : option A) : bool :=
  match a, b with Some x, Some y => eqb x y | None, None => true | _, _ => false end.
