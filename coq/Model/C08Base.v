(* C08 / C07: value universe and reference functions used by the translated converter code (Gen/C08Conv.v).
   Definitions only.  Strings are lists of code points (Z). *)
Require Import PonyV.Base.PyBase.
Open Scope Z_scope.

(* exception classes of `result` *)
Definition TypeError : nat := 1%nat.
Definition ValueError : nat := 2%nat.

(* ---- numbers compared by RealConverter / DecimalConverter ---------------------------------------------------------
   A Python float or Decimal as the exact rational it denotes (n / d, d > 0), an infinity, or NaN.
   float: n/d = float.as_integer_ratio();   Decimal: sign * coefficient * 10^exponent. *)
Inductive num : Type :=
| NNan
| NInf (neg : bool)
| NFin (n : Z) (d : positive).

(* Python `<` : false as soon as one side is NaN (float semantics; Decimal raises there - outside the model) *)
Definition num_ltb (a b : num) : bool :=
  match a, b with
  | NNan, _ | _, NNan => false
  | NInf true, NInf true => false
  | NInf true, _ => true
  | _, NInf true => false
  | NInf false, _ => false
  | _, NInf false => true
  | NFin n1 d1, NFin n2 d2 => n1 * Zpos d2 <? n2 * Zpos d1
  end.

Definition num_leb (a b : num) : bool :=
  match a, b with
  | NNan, _ | _, NNan => false
  | NInf true, _ => true
  | _, NInf false => true
  | _, NInf true => false
  | NInf false, _ => false
  | NFin n1 d1, NFin n2 d2 => n1 * Zpos d2 <=? n2 * Zpos d1
  end.

(* bool(x): zero (either sign) is falsy, NaN and infinities are truthy *)
Definition num_truthy (a : num) : bool :=
  match a with
  | NFin n _ => negb (n =? 0)
  | _ => true
  end.

Definition num_is_nan (a : num) : bool := match a with NNan => true | _ => false end.

(* mathematical order used on the specification side: a <= b for non-NaN numbers *)
Definition num_le (a b : num) : Prop :=
  match a, b with
  | NNan, _ | _, NNan => False
  | NInf true, _ => True
  | _, NInf false => True
  | _, NInf true => False
  | NInf false, _ => False
  | NFin n1 d1, NFin n2 d2 => n1 * Zpos d2 <= n2 * Zpos d1
  end.

Definition num_is_zero (a : num) : Prop := match a with NFin n _ => n = 0 | _ => False end.

(* ---- strings ------------------------------------------------------------------------------------------------------ *)
Definition str := list Z.

Definition str_is_empty (s : str) : bool := match s with [] => true | _ => false end.

(* code points c with chr(c).isspace() (CPython 3.12: Unicode White_Space/bidi WS,B,S), validated against CPython on every run *)
Definition is_space (c : Z) : bool :=
  ((9 <=? c) && (c <=? 13)) || ((28 <=? c) && (c <=? 32)) || (c =? 133) || (c =? 160) || (c =? 5760)
  || ((8192 <=? c) && (c <=? 8202)) || (c =? 8232) || (c =? 8233) || (c =? 8239) || (c =? 8287) || (c =? 12288).

Fixpoint lstrip (s : str) : str :=
  match s with
  | c :: r => if is_space c then lstrip r else s
  | [] => []
  end.

(* str.strip() *)
Definition py_strip (s : str) : str := rev (lstrip (rev (lstrip s))).

(* ---- what IntConverter.init leaves on the converter ---------------------------------------------------------------- *)
Record int_conv : Type := mk_int_conv {
  ic_min : option Z;
  ic_max : option Z;
  ic_size : option Z;
  ic_unsigned : option bool }.

(* ---- outcome of the `if val is None:` statement of Attribute.validate ---------------------------------------------- *)
Inductive none_outcome : Type :=
| NoneRaise (cls : nat)
| NoneReturn          (* `return val` with val = None *)
| NoneContinue.       (* val is not None: the rest of Attribute.validate runs *)

(* ---- type dispatch of the converters: representative Python values, converter kinds, outcome ------------------------------ *)
Inductive pytag : Type :=
| TgInt | TgBool | TgFloat | TgStrNum (* '12' *) | TgStrText (* 'x' *) | TgBytes | TgDecimal | TgDate | TgDatetime | TgTime
| TgTimedelta | TgUuid | TgList | TgOther.
Inductive convkind : Type :=
| CBool | CStr | CInt | CReal | CDecimal | CBlob | CDate | CTime | CTimedelta | CDatetime | CUuid.
Inductive tyout : Type :=
| TyAccept (as_tag : pytag)      (* accepted; the Python type of the value that validate goes on with / returns *)
| TyReject (cls : nat).          (* refused with this exception class *)
Definition pytag_eqb (a b : pytag) : bool :=
  match a, b with
  | TgInt, TgInt | TgBool, TgBool | TgFloat, TgFloat | TgStrNum, TgStrNum | TgStrText, TgStrText | TgBytes, TgBytes
  | TgDecimal, TgDecimal | TgDate, TgDate | TgDatetime, TgDatetime | TgTime, TgTime | TgTimedelta, TgTimedelta
  | TgUuid, TgUuid | TgList, TgList | TgOther, TgOther => true
  | _, _ => false
  end.
Definition tyout_eqb (a b : tyout) : bool :=
  match a, b with
  | TyAccept x, TyAccept y => pytag_eqb x y
  | TyReject x, TyReject y => Nat.eqb x y
  | _, _ => false
  end.

(* ---- equality tests for the correspondence run --------------------------------------------------------------------- *)
Definition optz_eqb (a b : option Z) : bool :=
  match a, b with Some x, Some y => x =? y | None, None => true | _, _ => false end.
Definition optb_eqb (a b : option bool) : bool :=
  match a, b with Some x, Some y => Bool.eqb x y | None, None => true | _, _ => false end.
Definition int_conv_eqb (a b : int_conv) : bool :=
  optz_eqb (ic_min a) (ic_min b) && optz_eqb (ic_max a) (ic_max b) && optz_eqb (ic_size a) (ic_size b)
  && optb_eqb (ic_unsigned a) (ic_unsigned b).
Definition res_eqb {A} (eqb : A -> A -> bool) (a b : result A) : bool :=
  match a, b with
  | Ok x, Ok y => eqb x y
  | Err c, Err c' => Nat.eqb c c'
  | _, _ => false
  end.
Fixpoint str_eqb (a b : str) : bool :=
  match a, b with
  | [], [] => true
  | x :: a', y :: b' => (x =? y) && str_eqb a' b'
  | _, _ => false
  end.
(* same number (exact value; NaN equals NaN here, it is a test of serialisation) *)
Definition num_eqb (a b : num) : bool :=
  match a, b with
  | NNan, NNan => true
  | NInf x, NInf y => Bool.eqb x y
  | NFin n1 d1, NFin n2 d2 => n1 * Zpos d2 =? n2 * Zpos d1
  | _, _ => false
  end.
Definition none_outcome_eqb (a b : none_outcome) : bool :=
  match a, b with
  | NoneRaise c, NoneRaise c' => Nat.eqb c c'
  | NoneReturn, NoneReturn => true
  | NoneContinue, NoneContinue => true
  | _, _ => false
  end.
Definition opt_eqb {A} (eqb : A -> A -> bool) (a b : option A) : bool :=
  match a, b with Some x, Some y => eqb x y | None, None => true | _, _ => false end.

Fixpoint failing_from (n : nat) (l : list bool) : list nat :=
  match l with
  | [] => []
  | b :: r => if b then failing_from (S n) r else n :: failing_from (S n) r
  end.
Definition failing (l : list bool) : list nat := failing_from 0 l.
