(* C08: declarations, the specification side ("declared and type bounds hold"), and the hand-written glue that
   composes the translated pieces (Gen/C08Conv.v) into Attribute.validate / Required.validate.  Definitions only. *)
Require Import PonyV.Base.PyBase PonyV.Model.C08Base PonyV.Gen.C08Conv.
Open Scope Z_scope.

(* ---- an int attribute declaration: Required/Optional(int, size=.., unsigned=.., min=.., max=..) -------------------
   d_unsigned: omitted = Some false (the default), an explicit unsigned=None = None. *)
Record int_decl : Type := mk_int_decl {
  d_size : option Z;
  d_unsigned : option bool;
  d_min : option Z;
  d_max : option Z }.

Definition size_ok (s : Z) : Prop := s = 8 \/ s = 16 \/ s = 24 \/ s = 32 \/ s = 64.

(* size actually used: the declared one, else 32 unless unsigned was explicitly None (then no size at all) *)
Definition eff_size (d : int_decl) : option Z :=
  match d_size d with
  | Some s => Some s
  | None => match d_unsigned d with Some _ => Some 32 | None => None end
  end.
Definition is_uns (d : int_decl) : bool := match d_unsigned d with Some true => true | _ => false end.

Definition type_lo (d : int_decl) : option Z :=
  match eff_size d with Some s => Some (if is_uns d then 0 else - 2 ^ (s - 1)) | None => None end.
Definition type_hi (d : int_decl) : option Z :=
  match eff_size d with Some s => Some (if is_uns d then 2 ^ s - 1 else 2 ^ (s - 1) - 1) | None => None end.

Definition ge_opt (b : option Z) (v : Z) : Prop := match b with Some m => m <= v | None => True end.
Definition le_opt (b : option Z) (v : Z) : Prop := match b with Some m => v <= m | None => True end.

(* THE SPECIFICATION: v satisfies the declared min/max and the bounds of the declared size and signedness *)
Definition in_bounds (d : int_decl) (v : Z) : Prop :=
  ge_opt (d_min d) v /\ ge_opt (type_lo d) v /\ le_opt (d_max d) v /\ le_opt (type_hi d) v.

(* a declaration Pony accepts (uint64: does the provider support unsigned 64-bit columns) *)
Definition decl_ok (uint64 : bool) (d : int_decl) : Prop :=
  match d_size d with Some s => size_ok s | None => True end
  /\ ~ (d_size d = Some 64 /\ is_uns d = true /\ uint64 = false)
  /\ match d_min d, type_lo d with Some m, Some l => l <= m | _, _ => True end
  /\ match d_max d, type_hi d with Some m, Some h => m <= h | _, _ => True end.

Definition init_of (uint64 : bool) (d : int_decl) : result int_conv :=
  int_init uint64 (d_size d) (d_unsigned d) (d_min d) (d_max d).

(* the known-defect class: a declared bound equal to 0 that differs from the type bound *)
Definition zero_bound (d : int_decl) : Prop :=
  (d_min d = Some 0 /\ type_lo d <> Some 0) \/ d_max d = Some 0.

(* Does the translated code drop a zero bound?  Evaluated on the current translation of /repo:
   Optional(int, min=0) given -5, Optional(int, max=0) given 5. *)
Definition accepts_int (uint64 : bool) (d : int_decl) (v : Z) : bool :=
  match init_of uint64 d with
  | Ok c => match int_validate (ic_min c) (ic_max c) v with Ok _ => true | Err _ => false end
  | Err _ => false
  end.
Definition int_zero_bound_ignored : bool :=
  accepts_int true (mk_int_decl None (Some false) (Some 0) None) (-5)
  || accepts_int true (mk_int_decl None (Some false) None (Some 0)) 5.

(* compact closed form of IntConverter.init, parameterised by "a zero bound is dropped" (zb) *)
Definition pick (zb : bool) (decl type : option Z) : option Z :=
  match decl with
  | Some m => if zb && (m =? 0) then type else Some m
  | None => type
  end.
Definition size_okb (s : Z) : bool := (s =? 8) || (s =? 16) || (s =? 24) || (s =? 32) || (s =? 64).
Definition gtb_opt (a b : option Z) : bool := match a, b with Some x, Some y => x >? y | _, _ => false end.
Definition int_init_spec (zb uint64 : bool) (d : int_decl) : result int_conv :=
  if match d_size d with Some s => negb (size_okb s) | None => false end then Err TypeError
  else if match d_size d with Some s => (s =? 64) && is_uns d && negb uint64 | None => false end then Err TypeError
  else if gtb_opt (d_max d) (type_hi d) then Err ValueError
  else if gtb_opt (type_lo d) (d_min d) then Err ValueError
  else Ok (mk_int_conv (pick zb (d_min d) (type_lo d)) (pick zb (d_max d) (type_hi d)) (eff_size d) (d_unsigned d)).

(* ---- float / Decimal declarations ---------------------------------------------------------------------------------- *)
Definition num_ge_opt (b : option num) (v : num) : Prop := match b with Some m => num_le m v | None => True end.
Definition num_le_opt (b : option num) (v : num) : Prop := match b with Some m => num_le v m | None => True end.
Definition num_in_bounds (mn mx : option num) (v : num) : Prop := num_ge_opt mn v /\ num_le_opt mx v.
Definition not_nan_opt (b : option num) : Prop := match b with Some NNan => False | _ => True end.
Definition num_zero_bound (mn mx : option num) : Prop :=
  match mn with Some m => num_is_zero m | None => False end \/ match mx with Some m => num_is_zero m | None => False end.

Definition accepts_real (mn mx : option num) (v : num) : bool :=
  match real_validate mn mx v with Ok _ => true | Err _ => false end.
Definition real_zero_bound_ignored : bool :=
  accepts_real (Some (NFin 0 1)) None (NFin (-1) 1) || accepts_real None (Some (NFin 0 1)) (NFin 1 1).

(* ---- str ----------------------------------------------------------------------------------------------------------- *)
Definition str_norm (autostrip : bool) (s : str) : str := if autostrip then py_strip s else s.
Definition accepts_str (autostrip : bool) (max_len : option Z) (s : str) : bool :=
  match str_validate autostrip max_len s with Ok _ => true | Err _ => false end.
Definition str_zero_max_len_ignored : bool := accepts_str false (Some 0) [97].

(* ---- Attribute.validate / Required.validate for a basic attribute with one converter (hand-written composition;
        compared with the real attr.validate by the correspondence run).  from_db = False. ---------------------------- *)
Section AttrValidate.
  Variable V : Type.
  Variable conv : V -> result V.           (* converter.validate *)
  Variable py_check : option (V -> bool).  (* the declared py_check, if any *)
  Variable is_empty : V -> bool.           (* val == '' *)

  Definition attribute_validate (nullable : option bool) (is_required : bool) (val : option V) : result (option V) :=
    match attr_none nullable is_required false val with
    | NoneRaise c => Err c
    | NoneReturn => Ok None
    | NoneContinue =>
        match val with
        | None => Ok None      (* unreachable: attr_none returns NoneContinue only for Some *)
        | Some v =>
            match conv v with
            | Err c => Err c
            | Ok v' => match py_check with
                       | Some chk => if chk v' then Ok (Some v') else Err ValueError
                       | None => Ok (Some v')
                       end
            end
        end
    end.

  (* Required.validate (auto / volatile / sql_default as declared) *)
  Definition required_validate (nullable : option bool) (auto is_volatile sql_default : bool) (val : option V) : result (option V) :=
    match attribute_validate nullable true val with
    | Err c => Err c
    | Ok r => req_validate is_empty auto is_volatile sql_default false r
    end.
End AttrValidate.
Arguments attribute_validate {V}.
Arguments required_validate {V}.

(* ---- declared types: which Python types an attribute of each kind takes (documentation reading) ---------------------------
   type_allowed c: the types validate may accept (the declared type itself, documented coercions: bool is an int, numbers and
   numeric strings for float/Decimal, datetime for date, parseable strings for the date/time types, bytes/int/hex string for UUID);
   type_core c: the declared type itself, which must be accepted;  type_result c t: the type of the value validate goes on with. *)
Definition type_allowed (c : convkind) : list pytag :=
  match c with
  | CBool => [TgBool; TgInt]      (* 0 / 1 *)
  | CStr => [TgStrNum; TgStrText]
  | CInt => [TgInt; TgBool; TgStrNum]
  | CReal => [TgFloat; TgInt; TgBool; TgStrNum; TgDecimal]
  | CDecimal => [TgDecimal; TgInt; TgBool; TgFloat; TgStrNum]
  | CBlob => [TgBytes]
  | CDate => [TgDate; TgDatetime; TgStrNum; TgStrText]
  | CTime => [TgTime; TgStrNum; TgStrText]
  | CTimedelta => [TgTimedelta; TgStrNum; TgStrText]
  | CDatetime => [TgDatetime; TgStrNum; TgStrText]
  | CUuid => [TgUuid; TgBytes; TgInt; TgBool; TgStrNum; TgStrText]
  end.
Definition type_core (c : convkind) : list pytag :=
  match c with
  | CBool => [TgBool] | CStr => [TgStrNum; TgStrText] | CInt => [TgInt] | CReal => [TgFloat] | CDecimal => [TgDecimal]
  | CBlob => [TgBytes] | CDate => [TgDate] | CTime => [TgTime] | CTimedelta => [TgTimedelta] | CDatetime => [TgDatetime] | CUuid => [TgUuid]
  end.
Definition type_result (c : convkind) (t : pytag) : pytag :=
  match c with
  | CBool => TgBool | CStr => TgStrText
  | CInt => match t with TgBool => TgBool | _ => TgInt end      (* True/False are kept as they are *)
  | CReal => TgFloat | CDecimal => TgDecimal | CBlob => TgBytes | CDate => TgDate | CTime => TgTime
  | CTimedelta => TgTimedelta | CDatetime => TgDatetime | CUuid => TgUuid
  end.
Definition tag_in (t : pytag) (l : list pytag) : bool := existsb (pytag_eqb t) l.

(* bool attributes: does the translated BoolConverter.validate take values that are not bool (it applies bool() to anything)? *)
Definition bool_accepts_any_type : bool :=
  match type_dispatch CBool TgStrText with TyAccept _ => true | TyReject _ => false end.

(* Decimal(precision, scale): a value needs more digits than declared when |v| >= 10^(precision - scale) *)
Definition dec_exceeds_precision (precision scale : Z) (v : num) : Prop := num_le (NFin (10 ^ (precision - scale)) 1) v.
