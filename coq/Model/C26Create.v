(* C26 - model of DBSchema.create_tables (pony/orm/dbschema.py): the loop over the tables in creation order and, inside it,
   over the objects of each table (Table.get_objects_to_create: the table, then its separately created indexes, then the
   foreign keys that can be added now), with the "does it exist already" question asked per object.  Definitions only.
   Objects are numbered; db = the objects that exist (under exactly the declared name); othercase o = an object with the
   same name in a different letter case exists (DBSchemaError). *)
Require Import PonyV.Base.PyBase PonyV.Model.C26Schema.
Open Scope nat_scope.

Fixpoint create_objs (othercase : nat -> bool) (objs : list nat) (db : list nat) : option (list nat) :=
  match objs with
  | [] => Some db
  | o :: r =>
      if nmem o db then create_objs othercase r db        (* name == base_name: exists already; go on with the NEXT object *)
      else if othercase o then None                       (* exists with a different letter case *)
      else create_objs othercase r (o :: db)              (* db_object.create(provider, connection) *)
  end.

Fixpoint create_tables (othercase : nat -> bool) (tables : list (list nat)) (db : list nat) : option (list nat) :=
  match tables with
  | [] => Some db
  | t :: r => match create_objs othercase t db with
              | None => None
              | Some db1 => create_tables othercase r db1
              end
  end.

(* set comparison for the correspondence run *)
Definition subset (a b : list nat) : bool := forallb (fun x => nmem x b) a.
Definition same_set (a b : list nat) : bool := subset a b && subset b a.
Definition opt_same_set (a : option (list nat)) (b : list nat) : bool :=
  match a with Some x => same_set x b | None => false end.
