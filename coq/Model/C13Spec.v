(* C13 - what the property talks about: the observation of a session and the classification of a call as known-bad. Definitions only. *)
From Coq Require Import ZArith NArith List Bool.
Import ListNotations.
Require Import PonyV.Model.C13Heap PonyV.Model.C13Session.

(* Everything observable: attribute values, both sides of collections (items and pending added/removed), index lookups,
   object statuses and write bits, the save queue (objects_to_save with positions), modified_collections - as typed cells. *)
Definition observe (s : state) (l : loc) : cell := view s l.

(* A call is known-bad in state s when its execution passes through a code site of core.py that mutates the session without a
   (correct) undo AND that mutation visibly changes something (`taint`, Model/C13Heap.v); each site has a refutation witness
   in Findings/C13.v. *)
Definition known_bad (sch : schema) (flt : option (nat * nat)) (s : state) (o : op) : bool :=
  negb (is_empty (o_taints (step sch flt s o))).

Definition raises (sch : schema) (flt : option (nat * nat)) (s : state) (o : op) : Prop := o_err (step sch flt s o) <> None.

Definition state_of_history (sch : schema) (ops : list (option (nat * nat) * op)) : state :=
  fold_left (fun s fo => o_state (step sch (fst fo) s (snd fo))) ops empty.
