(* Comparison of a model run with the observations recorded from the implementation (Tie B of C09-C14):
   evaluated by vm_compute inside coqc on every ./check run.  Definitions only. *)
Require Import PonyV.Model.SessionBase PonyV.Model.SessionDb PonyV.Model.Session.

Definition errkind_eqb (a b : errkind) : bool :=
  match a, b with
  | EConstraint, EConstraint | ECacheIndex, ECacheIndex | EValue, EValue | EType, EType | ETxnIntegrity, ETxnIntegrity
  | EIntegrity, EIntegrity | ECyclic, ECyclic | EObjectNotFound, EObjectNotFound | EMultiple, EMultiple | EDeleted, EDeleted
  | ESessionOver, ESessionOver | EUnrepeatable, EUnrepeatable | EOptimistic, EOptimistic | EBadHandle, EBadHandle
  | EBadAttr, EBadAttr | EKeyError, EKeyError | EAssertion, EAssertion | EOther, EOther => true
  | _, _ => false
  end.

Definition res_eqb (a b : res) : bool :=
  match a, b with
  | ROk, ROk => true
  | RVal x, RVal y => val_eqb x y
  | RObj x, RObj y => Nat.eqb x y
  | RNoneObj, RNoneObj => true
  | RObjs x, RObjs y => list_eqb Nat.eqb x y
  | RBool x, RBool y => Bool.eqb x y
  | RInt x, RInt y => Z.eqb x y
  | RErr x, RErr y => errkind_eqb x y
  | _, _ => false
  end.

Definition dump : Type := list (list (Z * list val)).

Definition dump_of (sch : schema) (d : db) : dump :=
  map (fun p => let '(e, en) := p in
         map (fun r => (r_pk r, flat_map (fun q => let '(a, at_) := q in if is_set_kind (a_kind at_) then [] else [col r a])
                                        (combine (seq O (length (e_attrs en))) (e_attrs en))))
             (tab d e))
      (combine (seq O (length sch)) sch).

Definition dump_eqb (a b : dump) : bool :=
  list_eqb (list_eqb (fun x y => Z.eqb (fst x) (fst y) && list_eqb val_eqb (snd x) (snd y))) a b.

Definition is_dump_op (o : op) : bool := match o with OCommit | ORollback | ONewSession => true | _ => false end.

(* At the dirty sites where the code runs undo functions after a partial change (1 failed creation, 2 / 3 failing Entity.set - there in
   forward order -, 4 failing collection assignment, 9 failing delete) an undo function may itself raise AssertionError
   (`assert obj2 is obj ...` on objects_to_save, when later steps of the same call moved the queue), which then replaces the original
   exception: the model's error kind or AssertionError are both accepted there. *)
Definition undo_may_assert (s1 : sess) (r1 r : res) : bool :=
  (Nat.eqb (s_dirty s1) 1 || Nat.eqb (s_dirty s1) 2 || Nat.eqb (s_dirty s1) 3 || Nat.eqb (s_dirty s1) 4 || Nat.eqb (s_dirty s1) 9) &&
  match r1, r with RErr _, RErr EAssertion => true | _, _ => false end.

(* verdict code: 0 = all compared results and dumps agree; 100 + site = stopped at a dirty step (agreeing so far; site numbers in Model/Session.v); 2 = stopped where the
   model declines; 3 = result mismatch at the index; 4 = dump mismatch at the index.  Second component: op index. *)
Fixpoint check_run (sch : schema) (s : sess) (ops : list op) (exp : list res) (dumps : list dump) (i : nat) : nat * nat :=
  match ops, exp with
  | [], _ =>
    let '(s1, _) := newsession_op sch s in
    if s_declined s1 then (2, i)%nat else
    match dumps with
    | d :: _ => if dump_eqb (dump_of sch (s_committed s1)) d then (0, i)%nat else (4, i)%nat
    | [] => (4, i)%nat
    end
  | o :: ops', r :: exp' =>
    let '(s1, r1) := step sch s o in
    if s_declined s1 then (2, i)%nat
    else if negb (res_eqb r1 r) && negb (undo_may_assert s1 r1 r) then (3, i)%nat
    else match s_dirty s1 with S _ => ((100 + s_dirty s1)%nat, i) | O =>
    if is_dump_op o then
      match dumps with
      | d :: dumps' => if dump_eqb (dump_of sch (s_committed s1)) d then check_run sch s1 ops' exp' dumps' (S i) else (4, i)%nat
      | [] => (4, i)%nat
      end
    else check_run sch s1 ops' exp' dumps (S i)
    end
  | _ :: _, [] => (3, i)%nat
  end.

Definition check_history (sch : schema) (ops : list op) (exp : list res) (dumps : list dump) : nat * nat :=
  check_run sch (init_sess sch) ops exp dumps O.

(* for diagnosis: the model's results and its committed dumps *)
Fixpoint model_dumps (sch : schema) (s : sess) (ops : list op) : list dump :=
  match ops with
  | [] => [dump_of sch (s_committed (fst (newsession_op sch s)))]
  | o :: t => let '(s1, _) := step sch s o in
              if is_dump_op o then dump_of sch (s_committed s1) :: model_dumps sch s1 t else model_dumps sch s1 t
  end.
