(* C01/C02 - attribute paths through to-one relationships: p.group.number, p.group.dept.name ... over the schema
       P (the scalar attributes of the C01 entity, column ids 0..7, plus `group` = Optional(G), column 8)
       G (id 10, number 11 Required int, title 12 Optional str, dept 13 = Optional(D), level 14 Optional int)
       D (id 20, name 21 Required str, code 22 Optional int, open 23 Required bool)
   A path attribute is an [EAttr] whose column id lies in the joined table's range (id / 10 = number of references
   followed); its `nullable` flag is the one of the LAST attribute (as AttrMonad.__init__ sets it).  The expression
   translation is the one of Model/C01Translate.v; this file adds what the translator does around it - which tables are
   joined (SqlQuery.from_ast: `FROM P p, G g, D d` with the join conditions moved to WHERE for select(), `LEFT JOIN ... ON`
   for left_join()) - the relational meaning of that FROM section, and the Python meaning of a path over the object
   graph (a None reference makes the whole path None).  Definitions only. *)
Require Import PonyV.Base.PyBase PonyV.Model.C01Expr PonyV.Model.C01Sql PonyV.Model.C01Translate PonyV.Model.C01Eqb PonyV.Model.C01Query.

Definition row := nat -> pyv.                 (* column number inside its table -> value; column 0 is the primary key *)
(* a row given by its non-None columns *)
Definition row_of (l : list (nat * pyv)) : row :=
  fun i => match find (fun c => Nat.eqb (fst c) i) l with Some (_, v) => v | None => PNone end.

Record jdb : Type := mkjdb { tP : list row; tG : list row; tD : list row }.

Definition col_group : nat := 8.              (* P.group *)
Definition col_dept : nat := 3.               (* G.dept (column id 13) *)

(* a row of the joined relation: the P row and the G / D rows it is joined with (None = NULL-extended / not joined) *)
Definition jrow := (row * option row * option row)%type.

Definition jattr (j : jrow) (i : nat) : pyv :=
  match j with
  | (p, og, od) =>
      if (i <? 10)%nat then p i
      else if (i <? 20)%nat then match og with Some g => g (i - 10)%nat | None => PNone end
      else match od with Some d => d (i - 20)%nat | None => PNone end
  end.
Definition penv (params : nat -> pyv) (j : jrow) : env := mkenv (jattr j) params.

(* the join condition `fk = t.id` *)
Definition fk_eq (v : pyv) (t : row) : bool := match v, t 0%nat with PInt a, PInt b => a =? b | _, _ => false end.

Inductive jkind : Type := JInner | JLeft.     (* select(...) | left_join(...) *)

(* one join step: the rows of T matching the foreign key; LEFT JOIN keeps the row with NULLs when there is none *)
Definition extend (k : jkind) (T : list row) (fk : pyv) : list (option row) :=
  match filter (fk_eq fk) T, k with
  | [], JLeft => [None]
  | l, _ => map Some l
  end.

Definition fk_of (og : option row) : pyv := match og with Some g => g col_dept | None => PNone end.

(* FROM P p [, G g [, D d]] with the join conditions p.group = g.id, g.dept = d.id (nested loops in table order) *)
Definition from_rows (k : jkind) (depth : nat) (db : jdb) : list jrow :=
  flat_map (fun p =>
    match depth with
    | O => [(p, None, None)]
    | S O => map (fun og => (p, og, None)) (extend k (tG db) (p col_group))
    | _ => flat_map (fun og => map (fun od => (p, og, od)) (extend k (tD db) (fk_of og))) (extend k (tG db) (p col_group))
    end) (tP db).

(* which tables the translator joins: those a non-key attribute of which is mentioned *)
Fixpoint attr_ids (e : expr) : list nat :=
  match e with
  | EAttr a => [a_id a]
  | EInt _ | EStr _ | EBool _ | ENone | EParam _ _ => []
  | ECol i _ _ | ESub i => [i]
  | EArith _ a b | EConcat a b | ECmp _ a b | EAnd a b | EOr a b => attr_ids a ++ attr_ids b
  | ENeg a | EAbs a | ELen a | ENot a | EIn _ a _ => attr_ids a
  | EIf c t f => attr_ids c ++ attr_ids t ++ attr_ids f
  | ECoalesce args | EMinMax _ args => flat_map attr_ids args
  end.
Definition table_of (i : nat) : nat := if (i <? 10)%nat then 0 else if (i <? 20)%nat then 1 else 2.
Definition depth_of (es : list expr) : nat := fold_right Nat.max 0%nat (map table_of (flat_map attr_ids es)).

(* SqlQuery.from_ast: kind and, per joined table, (foreign key column, primary key column of the joined table) *)
Definition tr_from (k : jkind) (depth : nat) : jkind * list (nat * nat) := (k, firstn depth [(8, 10); (13, 20)]%nat).

Definition jkind_eqb (a b : jkind) : bool := match a, b with JInner, JInner | JLeft, JLeft => true | _, _ => false end.
Definition from_eqb (a b : jkind * list (nat * nat)) : bool :=
  jkind_eqb (fst a) (fst b) &&
  (fix go (x y : list (nat * nat)) := match x, y with [], [] => true | (p, q) :: x', (r, s) :: y' => Nat.eqb p r && Nat.eqb q s && go x' y' | _, _ => false end) (snd a) (snd b).

(* SELECT [DISTINCT] q FROM ... WHERE conds *)
Definition sql_join_rows (d : dname) (k : jkind) (depth : nat) (distinct : bool) (conds : list qx) (q : qx)
                         (params : nat -> pyv) (db : jdb) : list qv :=
  let l := map (fun j => qeval d (encenv d (penv params j)) q)
               (filter (fun j => where_truth d (encenv d (penv params j)) conds) (from_rows k depth db)) in
  if distinct then dedup qv_eqb l else l.

(* ------------------------------------------------------------------------------------------- the Python side *)
(* following a reference: the object with that primary key (None when the reference is None) *)
Definition deref (T : list row) (v : pyv) : option row := match filter (fk_eq v) T with t :: _ => Some t | [] => None end.

(* the objects reachable from p along p.group and p.group.dept *)
Definition flat (db : jdb) (p : row) : jrow :=
  let og := deref (tG db) (p col_group) in (p, og, deref (tD db) (fk_of og)).

(* [proj(p) for p in P if filt(p)] over the object graph, attribute paths evaluated with None propagation *)
Definition py_join_rows (distinct : bool) (filt proj : expr) (params : nat -> pyv) (db : jdb) : list pyv :=
  let l := map (fun p => ref_eval (penv params (flat db p)) proj)
               (filter (fun p => py_truthy filt (ref_eval (penv params (flat db p)) filt)) (tP db)) in
  if distinct then dedup pyv_eqb l else l.

(* the part of the object graph a query of the given depth touches *)
Definition trunc (depth : nat) (j : jrow) : jrow :=
  match j with (p, og, od) => match depth with O => (p, None, None) | S O => (p, og, None) | _ => (p, og, od) end end.
(* every reference the query follows is set *)
Definition defined (depth : nat) (j : jrow) : bool :=
  match j with
  | (p, og, od) =>
      match depth with
      | O => true
      | S O => match og with Some _ => true | None => false end
      | _ => match og, od with Some _, Some _ => true | _, _ => false end
      end
  end.

(* primary keys identify rows *)
Definition ids_unique (T : list row) : Prop := forall v, (length (filter (fk_eq v) T) <= 1)%nat.
