(* C30: what identifies a raw_sql() fragment in Pony's cache keys.  A RawSQLType is part of the vartypes of a query, which
   are part of the translator-cache and constructed-SQL-cache keys; the cached translator has the converter of every
   $parameter's TYPE baked into its PARAM nodes.  So two fragments that compare equal must have the same text and the same
   parameter types.  The lists of fields __eq__ compares and __hash__ hashes are scanned from source (Gen/C30RawType.v).
   Definitions only. *)
Require Import PonyV.Base.PyBase PonyV.Model.C06Str PonyV.Model.C30Adapt.

Inductive rfield : Type := FSql | FItems | FTypes | FResult.
Definition rfield_eqb (a b : rfield) : bool :=
  match a, b with FSql, FSql | FItems, FItems | FTypes, FTypes | FResult, FResult => true | _, _ => false end.

Record rawtype : Type := {
  rt_sql : str;               (* the fragment text *)
  rt_items : list item;       (* parse_raw_sql(sql): text pieces and expressions *)
  rt_types : list Z;          (* the (normalised) Python types of the values of the $expressions, numbered *)
  rt_result : option Z        (* result_type *)
}.

Definition field_eqb (f : rfield) (a b : rawtype) : bool :=
  match f with
  | FSql => str_eqb (rt_sql a) (rt_sql b)
  | FItems => list_eqb item_eqb (rt_items a) (rt_items b)
  | FTypes => list_eqb Z.eqb (rt_types a) (rt_types b)
  | FResult => opt_eqb Z.eqb (rt_result a) (rt_result b)
  end.

(* __eq__ as a conjunction over the compared fields *)
Definition rawtype_eqb_of (fields : list rfield) (a b : rawtype) : bool := forallb (fun f => field_eqb f a b) fields.
