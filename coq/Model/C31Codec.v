(* C31 - strings as lists of code points: the two str operations Bag._reduce_composite_pk uses, and an explicit decoder of its
   output (the decoder exists only to state injectivity constructively; Pony has no such function).  Definitions only. *)
Require Import PonyV.Base.PyBase.

(* s.replace(c, by) for a one-character c *)
Definition replace1 (c : Z) (by_ : list Z) (s : list Z) : list Z :=
  flat_map (fun x => if x =? c then by_ else [x]) s.

(* sep.join(parts) *)
Fixpoint join (sep : list Z) (l : list (list Z)) : list Z :=
  match l with
  | [] => []
  | [x] => x
  | x :: r => x ++ sep ++ join sep r
  end.

Definition star : Z := 42.     (* '*' *)
Definition comma : Z := 44.    (* ',' *)

(* put a character in front of the first part *)
Definition push (c : Z) (l : list (list Z)) : list (list Z) :=
  match l with [] => [[c]] | x :: t => (c :: x) :: t end.

(* read an encoded key back: '*' escapes the next character, a bare ',' separates parts *)
Fixpoint decode (s : list Z) : list (list Z) :=
  match s with
  | [] => [[]]
  | c :: r =>
      if c =? star then
        match r with
        | d :: r' => push d (decode r')
        | [] => push c [[]]
        end
      else if c =? comma then [] :: decode r
      else push c (decode r)
  end.

Fixpoint zs_eqb (a b : list Z) : bool :=
  match a, b with [], [] => true | x :: r, y :: s => (x =? y) && zs_eqb r s | _, _ => false end.
Fixpoint zss_eqb (a b : list (list Z)) : bool :=
  match a, b with [], [] => true | x :: r, y :: s => zs_eqb x y && zss_eqb r s | _, _ => false end.
Fixpoint failing_from (n : nat) (l : list bool) : list nat :=
  match l with [] => [] | b :: r => (if b then [] else [n]) ++ failing_from (S n) r end.
Definition failing (l : list bool) : list nat := failing_from 0 l.
