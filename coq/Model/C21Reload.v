(* C21 - model `Reload`: what a session sees when rows it has already loaded are fetched again after other sessions
   committed.  Definitions only, no proofs.

   Scalar part (core.py): Attribute.__get__ (rbits), Attribute.__set__ (wbits), Entity._db_set_ and Attribute.db_set
   (same decision per attribute):
        old_dbval == new_dbval                -> nothing
        rbits & bit                           -> UnrepeatableReadError          (bit = 0 for a volatile attribute)
        else dbvals[a] = new; if not (wbits & bit): vals[a] = new
   A re-fetched row (query result, _load_) is the sequence of `Load a v` events for its columns; the values are arbitrary
   (whatever other sessions committed).

   Collection part: one Set attribute of one object, either one-to-many (items carry the owner column) or many-to-many
   (link table): Set.load / copy / __len__, Set.db_reverse_add ("phantom appeared"), Set.db_reverse_remove ("phantom disappeared" when fully loaded),
   the "phantom disappeared" check of Set.load for many-to-many, and the read bits copy() puts on every item's owner. *)
From Coq Require Import ZArith List Bool.
Import ListNotations.
Open Scope Z_scope.

Definition val := option Z.

Definition val_eqb (x y : val) : bool :=
  match x, y with
  | None, None => true
  | Some p, Some q => Z.eqb p q
  | _, _ => false
  end.

Definition upd {A} (f : nat -> A) (i : nat) (x : A) : nat -> A := fun j => if Nat.eqb j i then x else f j.

(* ------------------------------------------------------------------------------------------------ scalar attributes *)

(* vals.get(a) / dbvals.get(a): None = NOT_LOADED *)
Record cell := { cval : option val; cdb : option val; rbit : bool; wbit : bool }.
Definition cell0 : cell := {| cval := None; cdb := None; rbit := false; wbit := false |}.

Inductive ev :=
| Read (a : nat) (ext : val)       (* obj.a ; ext = the column's current database value, used only if a is not loaded yet (lazy) *)
| Write (a : nat) (v : val)        (* obj.a = v *)
| Load (a : nat) (v : val)         (* one column of a re-fetched row arrives with value v *)
| Flush (exts : list (nat * val)). (* the session flushes its pending writes (a query after an own write, or commit()): one UPDATE with the
                                      optimistic criteria; exts = the row's current values in the database, per attribute *)

Inductive tev := TObs (a : nat) (v : val) | TWrite (a : nat) (v : val).

Record state := { cells : nat -> cell; failed : bool (* ended in UnrepeatableReadError (or OptimisticCheckError of an own flush) *); trace : list tev (* newest first *) }.
Definition init : state := {| cells := fun _ => cell0; failed := false; trace := [] |}.

Definition opt_val_eqb (x : option val) (y : val) : bool := match x with Some o => val_eqb o y | None => false end.

(* _db_set_ / Attribute.db_set for one attribute; None = UnrepeatableReadError *)
Definition load_cell (vol : bool) (c : cell) (v : val) : option cell :=
  if opt_val_eqb (cdb c) v then Some c
  else if negb vol && rbit c then None
  else Some {| cval := if negb vol && wbit c then cval c else Some v; cdb := Some v; rbit := rbit c; wbit := wbit c |}.

(* Entity._save_updated_ after a successful UPDATE: `obj._rbits_ |= obj._wbits_ & obj._all_bits_except_volatile_; obj._wbits_ = 0`
   and _update_dbvals_: the written attributes get dbval = the written value (a volatile one is forgotten: it will be loaded again);
   attributes that were read but not written KEEP their read bit. *)
Definition flush_cell (vol : bool) (c : cell) : cell :=
  if wbit c then (if vol then {| cval := None; cdb := None; rbit := rbit c; wbit := false |}
                  else {| cval := cval c; cdb := cval c; rbit := true; wbit := false |})
  else c.
(* the optimistic criteria of that UPDATE (C20): every attribute with a read bit must still have its dbval in the database *)
Definition flush_check (vol : nat -> bool) (s : state) (exts : list (nat * val)) : bool :=
  forallb (fun p => let c := cells s (fst p) in negb (rbit c && negb (vol (fst p))) || opt_val_eqb (cdb c) (snd p)) exts.

Definition step (vol : nat -> bool) (s : state) (e : ev) : state :=
  if failed s then s else
  match e with
  | Flush exts =>
      if negb (existsb (fun p => wbit (cells s (fst p))) exts) then s             (* nothing to write: no statement *)
      else if flush_check vol s exts
           then {| cells := fun a => flush_cell (vol a) (cells s a); failed := false; trace := trace s |}
           else {| cells := cells s; failed := true; trace := trace s |}          (* OptimisticCheckError: also loud *)
  | Load a v =>
      match load_cell (vol a) (cells s a) v with
      | Some c => {| cells := upd (cells s) a c; failed := false; trace := trace s |}
      | None => {| cells := cells s; failed := true; trace := trace s |}
      end
  | Write a v =>
      let c := cells s a in
      {| cells := upd (cells s) a {| cval := Some v; cdb := cdb c; rbit := rbit c; wbit := true |}; failed := false; trace := TWrite a v :: trace s |}
  | Read a ext =>
      let c0 := cells s a in
      match (match cval c0 with Some _ => Some c0 | None => load_cell (vol a) c0 ext end) with
      | None => {| cells := cells s; failed := true; trace := trace s |}
      | Some c =>
          match cval c with
          | None => s                                   (* unreachable: a loaded cell has a value *)
          | Some v =>
              let c' := if wbit c || vol a then c else {| cval := cval c; cdb := cdb c; rbit := true; wbit := wbit c |} in
              {| cells := upd (cells s) a c'; failed := false; trace := TObs a v :: trace s |}
          end
      end
  end.

Definition run (vol : nat -> bool) (s : state) (evs : list ev) : state := fold_left (step vol) evs s.

(* the newest trace entry about attribute a *)
Fixpoint last_about (a : nat) (t : list tev) : option val :=
  match t with
  | [] => None
  | TObs b v :: t' => if Nat.eqb b a then Some v else last_about a t'
  | TWrite b v :: t' => if Nat.eqb b a then Some v else last_about a t'
  end.

(* every value read for a non-volatile attribute equals the previous thing the program saw or wrote for it *)
Fixpoint trace_ok (vol : nat -> bool) (t : list tev) : Prop :=
  match t with
  | [] => True
  | TObs a v :: t' => (vol a = false -> forall v', last_about a t' = Some v' -> v = v') /\ trace_ok vol t'
  | TWrite _ _ :: t' => trace_ok vol t'
  end.

Definition is_write (e : ev) : bool := match e with Write _ _ => true | _ => false end.

(* ------------------------------------------------------------------------------------------------ collections *)

Record cstate := { items : list nat;        (* SetData of obj.coll *)
                   full : bool;             (* is_fully_loaded *)
                   pinned : list nat;       (* one-to-many: items whose owner attribute has its read bit set *)
                   revfull : list nat;      (* many-to-many: items whose own collection (the other side) is fully loaded *)
                   cfailed : bool;
                   cobs : list (list nat) } (* observations of the collection, newest first *).
Definition cinit : cstate := {| items := []; full := false; pinned := []; revfull := []; cfailed := false; cobs := [] |}.

Inductive cev :=
| CObsCopy (dbitems : list nat)        (* iteration / copy() / set(obj.coll): loads if needed (database content = dbitems), pins the items *)
| CObsLen (dbitems : list nat)         (* len(obj.coll) (also bool, is_empty, count on a loaded set): loads if needed, pins nothing *)
| CItemReload (i : nat) (mine : bool)  (* one-to-many: the row of item i is fetched again; its owner column is / is not this object *)
| CRevLoad (i : nat) (linked : bool).  (* many-to-many: the collection of item i (other side) is loaded; the link (i, obj) exists / not *)

Definition mem (i : nat) (l : list nat) : bool := existsb (Nat.eqb i) l.
Definition add (i : nat) (l : list nat) : list nat := if mem i l then l else l ++ [i].
Definition remove (i : nat) (l : list nat) : list nat := filter (fun j => negb (Nat.eqb j i)) l.
Definition union (l m : list nat) : list nat := fold_left (fun acc i => add i acc) m l.
Definition subset (l m : list nat) : bool := forallb (fun i => mem i m) l.

Definition cfail (s : cstate) : cstate :=
  {| items := items s; full := full s; pinned := pinned s; revfull := revfull s; cfailed := true; cobs := cobs s |}.
Definition with_items (s : cstate) (l : list nat) : cstate :=
  {| items := l; full := full s; pinned := pinned s; revfull := revfull s; cfailed := cfailed s; cobs := cobs s |}.

(* Entity._db_set_ on item i of a one-to-many collection: the owner column changes to / away from this object *)
Definition item_reload (s : cstate) (i : nat) (mine : bool) : cstate :=
  if Bool.eqb (mem i (items s)) mine then s                                  (* owner column unchanged for us *)
  else if mem i (pinned s) then cfail s                                      (* rbit on item.owner: UnrepeatableReadError *)
  else if mine then (if full s then cfail s                                  (* db_reverse_add: phantom appeared *)
                     else with_items s (add i (items s)))
  else with_items s (remove i (items s)).                                    (* db_reverse_remove on a collection that is not fully loaded (the fully loaded case is caught in cstep) *)

(* Set.load *)
Definition cload (m2m : bool) (s : cstate) (dbitems : list nat) : cstate :=
  if full s then s
  else if m2m then
    (if subset (items s) dbitems
     then (if existsb (fun i => negb (mem i (items s)) && mem i (revfull s)) dbitems
           then cfail s                                                      (* db_reverse_add on a fully loaded other side: phantom appeared there *)
           else {| items := union (items s) dbitems; full := true; pinned := pinned s; revfull := revfull s; cfailed := false; cobs := cobs s |})
     else cfail s)                                                           (* phantom disappeared *)
  else
    let s1 := fold_left (fun acc i => if cfailed acc then acc else item_reload acc i true) dbitems s in
    if cfailed s1 then s1
    else {| items := items s1; full := true; pinned := pinned s1; revfull := revfull s1; cfailed := false; cobs := cobs s1 |}.

Definition cstep0 (m2m : bool) (s : cstate) (e : cev) : cstate :=
  if cfailed s then s else
  match e with
  | CObsCopy db =>
      let s1 := cload m2m s db in
      if cfailed s1 then s1
      else {| items := items s1; full := full s1; pinned := if m2m then pinned s1 else union (pinned s1) (items s1);
              revfull := revfull s1; cfailed := false; cobs := items s1 :: cobs s1 |}
  | CObsLen db =>
      let s1 := cload m2m s db in
      if cfailed s1 then s1
      else {| items := items s1; full := full s1; pinned := pinned s1; revfull := revfull s1; cfailed := false; cobs := items s1 :: cobs s1 |}
  | CItemReload i mine => if m2m then s else item_reload s i mine
  | CRevLoad i linked =>
      if negb m2m || mem i (revfull s) then s                               (* other side already fully loaded: no query *)
      else if mem i (items s) && negb linked then cfail s                   (* phantom disappeared from the other side *)
      else if linked && negb (mem i (items s)) then
             (if full s then cfail s                                        (* db_reverse_add: phantom appeared *)
              else {| items := add i (items s); full := false; pinned := pinned s; revfull := add i (revfull s); cfailed := false; cobs := cobs s |})
      else {| items := items s; full := full s; pinned := pinned s; revfull := add i (revfull s); cfailed := false; cobs := cobs s |}
  end.

Definition crun0 (m2m : bool) (s : cstate) (evs : list cev) : cstate := fold_left (cstep0 m2m) evs s.

(* the event db_reverse_remove now rejects: a member without read bit on its owner moves away from a fully loaded collection *)
Definition bad_event (m2m : bool) (s : cstate) (e : cev) : bool :=
  match e with
  | CItemReload i false => negb m2m && negb (cfailed s) && full s && mem i (items s) && negb (mem i (pinned s))
  | _ => false
  end.

Fixpoint no_bad (m2m : bool) (s : cstate) (evs : list cev) : bool :=
  match evs with
  | [] => true
  | e :: r => negb (bad_event m2m s e) && no_bad m2m (cstep0 m2m s e) r
  end.

(* Set.db_reverse_remove raises "Phantom object disappeared" on a fully loaded, non-volatile collection (repo commit a9972eb):
   the step as coded = cstep0 plus that check; cstep0 alone is the code before the repair and is kept only as a building block *)
Definition cstep (m2m : bool) (s : cstate) (e : cev) : cstate := if bad_event m2m s e then cfail s else cstep0 m2m s e.
Definition crun (m2m : bool) (s : cstate) (evs : list cev) : cstate := fold_left (cstep m2m) evs s.

(* Set.copy sets the read bit of the back-reference on every member `if not reverse.is_collection and reverse.pk_offset is None`:
   a back-reference that is a member of the PRIMARY key is exempt (it cannot change without the item becoming another object);
   one that is a member of a secondary unique key (unique=True, composite_key) is NOT exempt.  Iterating such an exempt
   collection is the observation without pins. *)
Definition copy_event (ref_in_pk : bool) (dbitems : list nat) : cev := if ref_in_pk then CObsLen dbitems else CObsCopy dbitems.

Fixpoint all_same (l : list (list nat)) : Prop :=
  match l with
  | x :: ((y :: _) as r) => x = y /\ all_same r
  | _ => True
  end.

(* ------------------------------------------------------------------------------------------------ executable interface *)

Fixpoint list_eqb {A} (e : A -> A -> bool) (x y : list A) : bool :=
  match x, y with
  | [], [] => true
  | p :: x', q :: y' => e p q && list_eqb e x' y'
  | _, _ => false
  end.

Definition tev_eqb (x y : tev) : bool :=
  match x, y with
  | TObs a v, TObs b w => Nat.eqb a b && val_eqb v w
  | TWrite a v, TWrite b w => Nat.eqb a b && val_eqb v w
  | _, _ => false
  end.

Definition vol_of (l : list bool) : nat -> bool := fun a => nth a l false.

(* outcome of a scalar history: (failed, events oldest first) *)
Definition outcome (voll : list bool) (evs : list ev) : bool * list tev :=
  let s := run (vol_of voll) init evs in (failed s, rev (trace s)).
Definition outcome_eqb (x y : bool * list tev) : bool := Bool.eqb (fst x) (fst y) && list_eqb tev_eqb (snd x) (snd y).

(* collection history: (failed, observations oldest first, each sorted by the caller) *)
Fixpoint insert (i : nat) (l : list nat) : list nat :=
  match l with [] => [i] | j :: r => if Nat.leb i j then i :: l else j :: insert i r end.
Definition sort (l : list nat) : list nat := fold_right insert [] l.
Definition coutcome0 (m2m : bool) (evs : list cev) : bool * list (list nat) :=
  let s := crun0 m2m cinit evs in (cfailed s, map sort (rev (cobs s))).
Definition coutcome (m2m : bool) (evs : list cev) : bool * list (list nat) :=
  let s := crun m2m cinit evs in (cfailed s, map sort (rev (cobs s))).
(* after every observation that did not fail: the members whose back-reference carries a read bit *)
Fixpoint cpins (m2m : bool) (s : cstate) (evs : list cev) : list (list nat) :=
  match evs with
  | [] => []
  | e :: r =>
      let s' := cstep m2m s e in
      (match e with
       | CObsCopy _ | CObsLen _ => if cfailed s' then [] else [sort (filter (fun i => mem i (pinned s')) (items s'))]
       | _ => []
       end) ++ cpins m2m s' r
  end.
Definition coutcome_eqb (x y : bool * list (list nat)) : bool := Bool.eqb (fst x) (fst y) && list_eqb (list_eqb Nat.eqb) (snd x) (snd y).

Fixpoint failing_from (i : nat) (l : list bool) : list nat :=
  match l with
  | [] => []
  | b :: r => if b then failing_from (S i) r else i :: failing_from (S i) r
  end.
Definition failing (l : list bool) : list nat := failing_from 0 l.
