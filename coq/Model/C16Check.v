(* C16 - comparison of the model's statement list with the statements traced from the implementation (definitions only). *)
From Coq Require Import List Bool Arith.
Import ListNotations.
Require Import PonyV.Model.C16Flush.

(* canonical statement: (kind, a, b) with kind 0 INSERT, 1 UPDATE, 2 DELETE (a = row), 3 link INSERT, 4 link DELETE (a <= b = the two rows) *)
Definition canon (s : stmt) : nat * nat * nat :=
  match s with
  | SInsert o _ => (0, o, 0)
  | SUpdate o _ => (1, o, 0)
  | SDelete o => (2, o, 0)
  | SLinkIns x y => (3, Nat.min x y, Nat.max x y)
  | SLinkDel x y => (4, Nat.min x y, Nat.max x y)
  end.
Definition trip_eqb (a b : nat * nat * nat) : bool :=
  let '(a1, a2, a3) := a in let '(b1, b2, b3) := b in Nat.eqb a1 b1 && Nat.eqb a2 b2 && Nat.eqb a3 b3.
Fixpoint list_eqb {A} (f : A -> A -> bool) (xs ys : list A) : bool :=
  match xs, ys with [], [] => true | x :: xs', y :: ys' => f x y && list_eqb f xs' ys' | _, _ => false end.
Definition is_link (t : nat * nat * nat) : bool := Nat.leb 3 (fst (fst t)).
Definition count (t : nat * nat * nat) (l : list (nat * nat * nat)) : nat := length (filter (trip_eqb t) l).
Definition same_bag (xs ys : list (nat * nat * nat)) : bool :=
  Nat.eqb (length xs) (length ys) && forallb (fun t => Nat.eqb (count t xs) (count t ys)) xs.

(* the object statements must come in exactly the same order; link-row statements are compared as bags (executemany over a set),
   removals before the object statements and additions after them.  `silent` = modified objects whose UPDATE has no column to write *)
Definition stmts_match (model : list stmt) (silent : list nat) (real : list (nat * nat * nat)) : bool :=
  let m := filter (fun t => negb (Nat.eqb (fst (fst t)) 1 && existsb (Nat.eqb (snd (fst t))) silent)) (map canon model) in
  let objs l := filter (fun t => negb (is_link t)) l in
  let dels l := filter (fun t => Nat.eqb (fst (fst t)) 4) l in
  let adds l := filter (fun t => Nat.eqb (fst (fst t)) 3) l in
  list_eqb trip_eqb (objs m) (objs real) && same_bag (dels m) (dels real) && same_bag (adds m) (adds real)
  (* phases: no link removal after the first object statement, no link addition before the last one *)
  && (let fix phase (l : list (nat * nat * nat)) (st : nat) : bool :=
          match l with
          | [] => true
          | t :: l' => let k := fst (fst t) in
                       if Nat.eqb k 4 then Nat.eqb st 0 && phase l' 0
                       else if Nat.eqb k 3 then phase l' 2
                       else Nat.leb st 1 && phase l' 1
          end in phase real 0).

(* 0 = statements accepted, 1 = UnresolvableCyclicDependency, 2 = a statement is rejected, 3 = out of fuel *)
Definition outcome (d : db) (p : pending) : nat :=
  match flush p with
  | FOk ss => match exec_all d ss with Some _ => 0 | None => 2 end
  | FCycle _ => 1
  | FFuel => 3
  end.

Definition check_flush (d : db) (p : pending) (silent : list nat) (real_outcome : nat) (real : list (nat * nat * nat)) : bool * bool * bool * nat :=
  (wf_pending d p,
   Nat.eqb (outcome d p) real_outcome,
   match flush p with FOk ss => if Nat.eqb real_outcome 0 then stmts_match ss silent real else true | _ => true end,
   outcome d p).
