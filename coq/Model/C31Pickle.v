(* C31 - pickling of entity instances, query results and collection wrappers (hand-written model of Entity.__reduce__,
   unpickle_entity + Entity._db_set_(unpickling=True), QueryResult.__getstate__/__setstate__, SetInstance.__reduce__ +
   unpickle_setwrapper; tied by correspondence with real pickle round trips across sessions).  Definitions only.

   An object in a session: its status and, per non-collection attribute (numbered), the value the session holds (None = not loaded). *)
Require Import PonyV.Base.PyBase.

Inductive status := Loaded | Created | Modified | Deleted.
Definition vals := nat -> option Z.
Definition no_vals : vals := fun _ => None.

(* Entity.__reduce__: deleted / created / modified objects are refused; otherwise the pickle holds the class, and every loaded
   non-collection attribute value of obj._vals_ as it is at pickling time (the primary key among them) *)
Definition pickle_entity (st : status) (v : vals) : result vals :=
  match st with
  | Loaded => Ok v
  | Deleted => Err 3%nat            (* OperationWithDeletedObjectError *)
  | Created | Modified => Err 4%nat (* OrmError: has to be stored in DB before it can be pickled *)
  end.

(* unpickle_entity in the unpickling session: the object with that key is taken from (or created in) the identity map of the
   CURRENT session; a pickled value is stored only for an attribute this session has not loaded itself
   (_db_set_: `if old_dbval is not NOT_LOADED: if unpickling ...: del avdict[attr]`); an object deleted here is returned as it is *)
Definition unpickle_entity (here_status : status) (here : vals) (pickled : vals) : vals :=
  match here_status with
  | Deleted => here
  | _ => fun a => match here a with Some w => Some w | None => pickled a end
  end.

(* QueryResult.__getstate__ fetches the items (a lazy result is executed at pickling time) and keeps limit/offset/expr_type/col_names;
   __setstate__ restores them with _query = None.  Items are pickled one by one. *)
Definition pickle_query_result {I} (fetched : option (list I)) (fetch : list I) : list I :=
  match fetched with Some items => items | None => fetch end.
Definition unpickle_query_result {I J} (unpickle_item : I -> J) (items : list I) : list J := map unpickle_item items.

(* SetInstance.__reduce__ = (unpickle_setwrapper, (obj, attr name, copy of the items)).  unpickle_setwrapper takes (or creates) the
   SetData of obj in the current session, adds the pickled items (`setdata.update(items)`) and marks it fully loaded -- for
   one-to-many and many-to-many collections alike (unpickling a one-to-many item also restores its reference: no new element) *)
Inductive relkind := OneToMany | ManyToMany.
Definition unpickle_set (k : relkind) (here : list nat) (items : list nat) (ref_loaded : nat -> bool) : list nat :=
  here ++ filter (fun i => negb (existsb (Nat.eqb i) here)) items.

Definition ovals_eqb (a b : option Z) : bool := match a, b with None, None => true | Some x, Some y => x =? y | _, _ => false end.
Fixpoint natlist_eqb (a b : list nat) : bool :=
  match a, b with [], [] => true | x :: r, y :: s => Nat.eqb x y && natlist_eqb r s | _, _ => false end.
