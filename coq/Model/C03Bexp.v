(* C03 - the boolean / jump fragment of Python expressions, its meaning, and an executable equivalence checker.
   Definitions only (proofs: Proofs/C03Checker.v).

   Values.  `a and b` in value position returns an OPERAND, not a bool, so expressions are evaluated over a
   value domain, not over bool.  The domain is the four Python values  False, True, None, 'x'  (two falsy, two
   truthy, both bools included, equality = identity on them), which is what separates `a and b` from
   `bool(a and b)`, `a or b` from `b or a`, and `x == (a and b)` from `x == (not a or b)`.
   Atoms (free names, or maximal sub-expressions outside the fragment) range over the whole domain. *)
From Coq Require Import List Bool Arith.
Import ListNotations.

Inductive val : Type := VFalse | VTrue | VNone | VStr.

Definition truthy (v : val) : bool := match v with VTrue | VStr => true | _ => false end.
Definition of_bool (b : bool) : val := if b then VTrue else VFalse.
Definition val_eqb (a b : val) : bool :=
  match a, b with
  | VFalse, VFalse | VTrue, VTrue | VNone, VNone | VStr, VStr => true
  | _, _ => false
  end.
Definition DOM : list val := [VFalse; VTrue; VNone; VStr].

(* Python source fragment:  name | constant | not e | e1 and ... and en | e1 or ... or en | a if c else b
   | a == b | a != b | e is None | e is not None  *)
Inductive bexp : Type :=
| Atom (n : nat)
| Const (v : val)
| Not (e : bexp)
| And (l : list bexp)
| Or (l : list bexp)
| IfExp (c a b : bexp)             (* a if c else b *)
| Cmp (ne : bool) (a b : bexp)     (* ne = false: a == b ; ne = true: a != b *)
| IsNone (neg : bool) (e : bexp).  (* neg = false: e is None ; neg = true: e is not None *)

Definition env := nat -> val.

(* Python's and/or over already-known meanings of the operands: first falsy (resp. truthy) operand, else the last.
   The empty lists do not occur in Python; they get the neutral elements. *)
Fixpoint eval (rho : env) (e : bexp) {struct e} : val :=
  match e with
  | Atom n => rho n
  | Const v => v
  | Not e1 => of_bool (negb (truthy (eval rho e1)))
  | And l =>
      (fix go (l : list bexp) : val :=
         match l with
         | [] => VTrue
         | x :: r => match r with
                     | [] => eval rho x
                     | _ :: _ => let v := eval rho x in if truthy v then go r else v
                     end
         end) l
  | Or l =>
      (fix go (l : list bexp) : val :=
         match l with
         | [] => VFalse
         | x :: r => match r with
                     | [] => eval rho x
                     | _ :: _ => let v := eval rho x in if truthy v then v else go r
                     end
         end) l
  | IfExp c a b => if truthy (eval rho c) then eval rho a else eval rho b
  | Cmp ne a b => of_bool (xorb ne (val_eqb (eval rho a) (eval rho b)))
  | IsNone neg e1 => of_bool (xorb neg (val_eqb (eval rho e1) VNone))
  end.

(* the same two list walks, named, for stating lemmas *)
Fixpoint eval_and (rho : env) (l : list bexp) : val :=
  match l with
  | [] => VTrue
  | x :: r => match r with
              | [] => eval rho x
              | _ :: _ => let v := eval rho x in if truthy v then eval_and rho r else v
              end
  end.
Fixpoint eval_or (rho : env) (l : list bexp) : val :=
  match l with
  | [] => VFalse
  | x :: r => match r with
              | [] => eval rho x
              | _ :: _ => let v := eval rho x in if truthy v then v else eval_or rho r
              end
  end.

(* atoms occurring in an expression (with repetitions) *)
Fixpoint atoms (e : bexp) : list nat :=
  match e with
  | Atom n => [n]
  | Const _ => []
  | Not e1 => atoms e1
  | And l => (fix go (l : list bexp) : list nat := match l with [] => [] | x :: r => atoms x ++ go r end) l
  | Or l => (fix go (l : list bexp) : list nat := match l with [] => [] | x :: r => atoms x ++ go r end) l
  | IfExp c a b => atoms c ++ atoms a ++ atoms b
  | Cmp _ a b => atoms a ++ atoms b
  | IsNone _ e1 => atoms e1
  end.
Fixpoint atoms_list (l : list bexp) : list nat :=
  match l with [] => [] | x :: r => atoms x ++ atoms_list r end.

(* syntactic equality (fast path of the checker) *)
Fixpoint bexp_eqb (e f : bexp) {struct e} : bool :=
  match e, f with
  | Atom n, Atom m => Nat.eqb n m
  | Const v, Const w => val_eqb v w
  | Not e1, Not f1 => bexp_eqb e1 f1
  | And l, And m =>
      (fix go (l m : list bexp) : bool :=
         match l, m with
         | [], [] => true
         | x :: r, y :: s => bexp_eqb x y && go r s
         | _, _ => false
         end) l m
  | Or l, Or m =>
      (fix go (l m : list bexp) : bool :=
         match l, m with
         | [], [] => true
         | x :: r, y :: s => bexp_eqb x y && go r s
         | _, _ => false
         end) l m
  | IfExp c a b, IfExp c' a' b' => bexp_eqb c c' && bexp_eqb a a' && bexp_eqb b b'
  | Cmp ne a b, Cmp ne' a' b' => Bool.eqb ne ne' && bexp_eqb a a' && bexp_eqb b b'
  | IsNone n1 e1, IsNone n2 f1 => Bool.eqb n1 n2 && bexp_eqb e1 f1
  | _, _ => false
  end.
Fixpoint bexp_list_eqb (l m : list bexp) : bool :=
  match l, m with
  | [], [] => true
  | x :: r, y :: s => bexp_eqb x y && bexp_list_eqb r s
  | _, _ => false
  end.

(* all assignments of the listed atoms over DOM (every other atom gets VFalse): 4^(length xs) environments *)
Definition upd (x : nat) (v : val) (rho : env) : env := fun y => if Nat.eqb y x then v else rho y.
Fixpoint envs (xs : list nat) : list env :=
  match xs with
  | [] => [fun _ => VFalse]
  | x :: r => flat_map (fun rho => map (fun v => upd x v rho) DOM) (envs r)
  end.

Definition atoms2 (e f : bexp) : list nat := nodup Nat.eq_dec (atoms e ++ atoms f).

(* value position: the two expressions have the same VALUE under every assignment *)
Definition table_val (e f : bexp) : bool :=
  forallb (fun rho => val_eqb (eval rho e) (eval rho f)) (envs (atoms2 e f)).
(* condition position (filter of a generator, test of a conditional): the same TRUTH VALUE under every assignment *)
Definition table_truth (e f : bexp) : bool :=
  forallb (fun rho => Bool.eqb (truthy (eval rho e)) (truthy (eval rho f))) (envs (atoms2 e f)).

Definition equiv_check (e f : bexp) : bool := bexp_eqb e f || table_val e f.
Definition equiv_check_truth (e f : bexp) : bool := bexp_eqb e f || table_truth e f.

(* helper for the harness: indexes of the cases that are not `true` *)
Fixpoint failing_from (i : nat) (l : list bool) : list nat :=
  match l with [] => [] | b :: r => if b then failing_from (S i) r else i :: failing_from (S i) r end.
Definition failing (l : list bool) : list nat := failing_from 0 l.

(* helpers for the correspondence run (reference semantics vs CPython): the value table of an expression over atoms 0..n-1 *)
Fixpoint vl_eqb (a b : list val) : bool :=
  match a, b with
  | [], [] => true
  | x :: r, y :: s => val_eqb x y && vl_eqb r s
  | _, _ => false
  end.
Definition table_of (n : nat) (e : bexp) : list val := map (fun rho => eval rho e) (envs (seq 0 n)).
