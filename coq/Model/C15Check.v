(* C15 - comparison of a model run with the database states read back from the implementation (definitions only). *)
From Coq Require Import List Bool Arith.
Import ListNotations.
Require Import PonyV.Model.C15Delete.

Definition pair_eqb (a b : oid * nat) : bool := Nat.eqb (fst a) (fst b) && Nat.eqb (snd a) (snd b).
Definition link_eqb (a b : link) : bool :=
  Nat.eqb (l_e a) (l_e b) && Nat.eqb (l_a a) (l_a b) && Nat.eqb (l_x a) (l_x b) && Nat.eqb (l_y a) (l_y b).
Definition subset {A} (eqb : A -> A -> bool) (xs ys : list A) : bool := forallb (fun x => existsb (eqb x) ys) xs.
Definition same_set {A} (eqb : A -> A -> bool) (xs ys : list A) : bool := subset eqb xs ys && subset eqb ys xs.

Definition state_matches (s : st) (os : list (oid * nat)) (ls : list link) : bool :=
  same_set pair_eqb (objs s) os && same_set link_eqb (links s) ls.

Definition result_eqb (a b : result) : bool := match a, b with ROk, ROk | RRefused, RRefused => true | _, _ => false end.

(* a session: its ops with the implementation's result, then the database state after its commit *)
Definition session := (list (op * result) * (list (oid * nat) * list link))%type.

Fixpoint run_session (sch : schema) (s : st) (n k : nat) (ops : list (op * result)) : st * list (nat * nat * nat) :=
  match ops with
  | [] => (s, [])
  | (o, r) :: ops' =>
      let '(s', r') := step sch s o in
      let bad := if result_eqb r r' then [] else [(n, k, 1)] in
      let '(s2, bads) := run_session sch s' n (S k) ops' in (s2, bad ++ bads)
  end.

(* mismatches: (session, op, 1) = result differs; (session, 0, 2) = database state after the commit differs *)
Fixpoint check_from (sch : schema) (s : st) (n : nat) (ss : list session) : list (nat * nat * nat) :=
  match ss with
  | [] => []
  | (ops, (os, ls)) :: ss' =>
      let '(s', bads) := run_session sch s n 0 ops in
      bads ++ (if state_matches s' os ls then [] else [(n, 0, 2)]) ++ check_from sch s' (S n) ss'
  end.
Definition check_history sch ss := check_from sch (mkst [] []) 0 ss.

(* schema facts of the implementation: per attribute (cascade_delete, has column, ON DELETE code 0 none / 1 SET NULL / 2 CASCADE / 3 no fk) *)
Definition od_code (sch : schema) (e a : nat) : nat :=
  if has_column sch e a then match fk_on_delete sch e a with OdNone => 0 | OdSetNull => 1 | OdCascade => 2 end else 3.
Definition facts_of (sch : schema) : list (list (bool * bool * nat)) :=
  map (fun e => map (fun a => (cascade sch e a, has_column sch e a, od_code sch e a)) (seq 0 (length (nth e sch [])))) (seq 0 (length sch)).
