(* C13 - comparison of a model run with the observations recorded from the implementation (definitions only).
   An expectation per op: the error class (None = no exception) and, optionally, the typed view at a list of locations. *)
From Coq Require Import ZArith NArith List Bool.
Import ListNotations.
Require Import PonyV.Model.C13Heap PonyV.Model.C13Session.

Definition err_code (e : err) : nat :=
  match e with EValue => 0 | EType => 1 | ECacheIndex => 2 | EConstraint => 3 | ETransaction => 4 | EDeleted => 5
             | EAssert => 6 | EInjected => 7 | EKey => 8 | EFuel => 9 end.
Definition err_eqb (a b : err) : bool := Nat.eqb (err_code a) (err_code b).

Definition taint_code (t : taint) : nat :=
  match t with TSetBits => 0 | TSetIdx => 1 | TSetForward => 2 | TSetReverse => 3 | TRemFlag => 4 | TDelNested => 5
             | TNewPk => 6 | TDelCreated => 7 | TInconsistent => 8 end.

Definition expectation := (option err * option (list (loc * cell)))%type.

Definition check_view (s : state) (exp : list (loc * cell)) : list nat :=
  map fst (filter (fun p => negb (cell_eqb (view s (fst (snd p))) (snd (snd p)))) (combine (seq 0 (length exp)) exp)).

(* walk the history; stop after the first failing op the model marks as tainted (nothing is claimed about later states).
   Result: list of (op number, 0 = error class differs | S k = k-th expected location differs) *)
Fixpoint check_from (sch : schema) (s : state) (n : nat) (ops : list (option (nat * nat) * op)) (exps : list expectation) : list (nat * nat) :=
  match ops, exps with
  | fo :: ops', ex :: exps' =>
      let out := step sch (fst fo) s (snd fo) in
      let bad_err := if opt_eqb err_eqb (o_err out) (fst ex) then [] else [(n, 0)] in
      let bad_view := match snd ex with Some l => map (fun k => (n, S k)) (check_view (o_state out) l) | None => [] end in
      let tainted := match o_err out, o_taints out with Some _, _ :: _ => true | _, _ => false end in
      bad_err ++ bad_view ++ (if tainted || negb (is_empty bad_err) then [] else check_from sch (o_state out) (S n) ops' exps')
  | _, _ => []
  end.

Definition check_history sch ops exps := check_from sch empty 0 ops exps.

(* what the model says about each op until the first tainted failure: (failed?, taint codes) *)
Fixpoint taints_from (sch : schema) (s : state) (ops : list (option (nat * nat) * op)) : list (bool * list nat) :=
  match ops with
  | fo :: ops' =>
      let out := step sch (fst fo) s (snd fo) in
      let failed := match o_err out with Some _ => true | None => false end in
      (failed, map taint_code (o_taints out)) ::
      (if failed && negb (is_empty (o_taints out)) then [] else taints_from sch (o_state out) ops')
  | [] => []
  end.
