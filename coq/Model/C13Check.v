(* C13 - comparison of a model run with the observations recorded from the implementation (definitions only).
   An expectation per op: the error class (None = no exception) and, optionally, a structured snapshot of the session cache
   (expanded here into the typed view at every location of the finite universe of the history). *)
From Coq Require Import ZArith NArith List Bool.
Import ListNotations.
Require Import PonyV.Model.C13Heap PonyV.Model.C13Session.

Definition err_code (e : err) : nat :=
  match e with EValue => 0 | EType => 1 | ECacheIndex => 2 | EConstraint => 3 | ETransaction => 4 | EDeleted => 5
             | EAssert => 6 | EInjected => 7 | EKey => 8 | EFuel => 9 end.
Definition err_eqb (a b : err) : bool := Nat.eqb (err_code a) (err_code b).

Definition taint_code (t : taint) : nat :=
  match t with TInconsistent => 8 end.

Record osnap := mkos {
  os_cls : nat; os_status : status; os_wbits : option N; os_savepos : option nat;
  os_vals : list (nat * value);
  os_colls : list (nat * (list oid * list oid * list oid))       (* attr, (items, added, removed) *)
}.
Record snap := mksnap {
  sn_objs : list osnap;
  sn_queue : list (option oid);
  sn_idx : list (nat * list nat * list (list value * oid));      (* entity, spec, entries *)
  sn_mod : list (nat * nat * oid)
}.

Definition expectation := (option err * option snap)%type.

Definition ints : list value := [VInt 0; VInt 1; VInt 2].
Fixpoint product (n : nat) : list (list value) :=
  match n with O => [[]] | S k => flat_map (fun v => map (cons v) (product k)) ints end.
Definition cands (spec : list nat) : list (list value) :=
  match spec with [O] => map (fun k => [VInt (Z.of_nat k)]) (seq 1 12) | _ => product (length spec) end.

Definition lookup_key (k : list value) (l : list (list value * oid)) : option oid :=
  match find (fun p => key_eqb (fst p) k) l with Some p => Some (snd p) | None => None end.

Definition bnat (b : bool) (code : nat) : list nat := if b then [] else [code].

(* mismatching components, as small codes: 1 next, 2 queue, 10+h*10+{0 cls,1 status,2 wbits,3 savepos,4 vals,5 items,6 added,7 removed}, 3 idx, 4 mod *)
Definition check_obj (s : state) (n : nat) (h : nat) (o : osnap) : list nat :=
  bnat (Nat.eqb (g_cls s h) (os_cls o)) (10 + h * 10)
  ++ bnat (status_eqb (g_status s h) (os_status o)) (11 + h * 10)
  ++ bnat (opt_eqb N.eqb (g_wbits s h) (os_wbits o)) (12 + h * 10)
  ++ bnat (opt_eqb Nat.eqb (g_savepos s h) (os_savepos o)) (13 + h * 10)
  ++ bnat (forallb (fun av => value_eqb (g_val s h (fst av)) (snd av)) (os_vals o)) (14 + h * 10)
  ++ flat_map (fun c => let a := fst c in let '(its, ad, rm) := snd c in
        bnat (forallb (fun x => Bool.eqb (g_bool s (LItem h a x)) (mem x its)) (seq 0 (S n))) (15 + h * 10)
        ++ bnat (forallb (fun x => Bool.eqb (g_bool s (LAdded h a x)) (mem x ad)) (seq 0 (S n))) (16 + h * 10)
        ++ bnat (forallb (fun x => Bool.eqb (g_bool s (LRemoved h a x)) (mem x rm)) (seq 0 (S n))) (17 + h * 10)) (os_colls o).

Definition check_snap (sch : schema) (s : state) (sn : snap) : list nat :=
  let n := length (sn_objs sn) in
  bnat (Nat.eqb (g_next s) n) 1
  ++ bnat (list_eqb (opt_eqb Nat.eqb) (g_queue s) (sn_queue sn)) 2
  ++ flat_map (fun ho => check_obj s n (fst ho) (snd ho)) (combine (seq 0 n) (sn_objs sn))
  ++ bnat (forallb (fun esl => let '(e, spec, entries) := esl in
                      forallb (fun k => opt_eqb Nat.eqb (g_idx s e spec k) (lookup_key k entries)) (cands spec ++ map fst entries)) (sn_idx sn)) 3
  ++ bnat (forallb (fun ei => forallb (fun a => forallb (fun h =>
              Bool.eqb (g_bool s (LMod (fst ei) a h)) (existsb (fun m => let '(e', a', h') := m in Nat.eqb e' (fst ei) && Nat.eqb a' a && Nat.eqb h' h) (sn_mod sn)))
              (seq 0 (S n))) (set_attr_ids (snd ei))) (combine (seq 0 (length sch)) sch)) 4.

(* walk the history; stop after the first failing op the model marks as tainted (nothing is claimed about later states).
   Result: list of (op number, 0 = error class differs | component code) *)
Fixpoint check_from (sch : schema) (s : state) (n : nat) (ops : list (option (nat * nat) * op)) (exps : list expectation) : list (nat * nat) :=
  match ops, exps with
  | fo :: ops', ex :: exps' =>
      let out := step sch (fst fo) s (snd fo) in
      let bad_err := if opt_eqb err_eqb (o_err out) (fst ex) then [] else [(n, 0)] in
      let bad_view := match snd ex with Some sn => map (fun k => (n, k)) (check_snap sch (o_state out) sn) | None => [] end in
      let tainted := match o_err out, o_taints out with Some _, _ :: _ => true | _, _ => false end in
      bad_err ++ bad_view ++ (if tainted || negb (is_empty bad_err) then [] else check_from sch (o_state out) (S n) ops' exps')
  | _, _ => []
  end.

Definition check_history sch ops exps := check_from sch empty 0 ops exps.

(* what the model says about each op until the first tainted failure: (failed?, taint codes) *)
Fixpoint taints_from (sch : schema) (s : state) (ops : list (option (nat * nat) * op)) : list (bool * list nat) :=
  match ops with
  | fo :: ops' =>
      let out := step sch (fst fo) s (snd fo) in
      let failed := match o_err out with Some _ => true | None => false end in
      (failed, map taint_code (o_taints out)) ::
      (if failed && negb (is_empty (o_taints out)) then [] else taints_from sch (o_state out) ops')
  | [] => []
  end.

(* both in one pass: (mismatches, per-op (failed?, taint codes)) *)
Definition check_and_taints sch ops exps := (check_history sch ops exps, taints_from sch empty ops).

(* debugging aid: the model state in the shape of an implementation snapshot *)
Definition dump (sch : schema) (s : state) :=
  (g_next s, g_queue s,
   map (fun h => (h, g_cls s h, g_status s h, g_wbits s h, g_savepos s h,
                  map (g_val s h) (seq 0 (length (e_attrs (get_ent sch (g_cls s h))))),
                  map (fun a => (a, members s (LItem h a), members s (LAdded h a), members s (LRemoved h a))) (set_attr_ids (get_ent sch (g_cls s h)))))
       (seq 0 (S (g_next s)))).
Definition state_after (sch : schema) (ops : list (option (nat * nat) * op)) : state :=
  fold_left (fun s fo => o_state (step sch (fst fo) s (snd fo))) ops empty.
