(* C04 - an evaluation semantics for expression trees over a small Python value domain: integers (booleans are 0 / 1), strings,
   tuples.  Covered: names, non-negative integer literals, plain string literals, tuple displays, + (integers, strings, tuples),
   - and * on integers, unary minus, not, and / or with their short-circuit value semantics, comparison chains (== != on everything,
   < <= > >= on integers and, lexicographically, on strings), conditional expressions, indexing a tuple or string with an integer.
   Everything else evaluates to None ("outside the fragment", which includes Python's TypeError cases).  Used to state "the value bound as
   query parameter is Python's value of the subexpression".  Definitions only. *)
From Coq Require Import ZArith List Bool.
Import ListNotations.
Require Import PonyV.Model.C04Expr PonyV.Model.C04Parse.
Open Scope Z_scope.

Inductive pyv := VInt (z : Z) | VStr (s : str) | VTuple (vs : list pyv).

Definition env := str -> option pyv.

Fixpoint pyv_eqb (a b : pyv) {struct a} : bool :=
  match a, b with
  | VInt x, VInt y => x =? y
  | VStr x, VStr y => str_eqb x y
  | VTuple xs, VTuple ys =>
      (fix go (xs ys : list pyv) : bool :=
         match xs, ys with [], [] => true | x :: xs', y :: ys' => pyv_eqb x y && go xs' ys' | _, _ => false end) xs ys
  | _, _ => false
  end.

Fixpoint str_ltb (a b : str) : bool :=
  match a, b with
  | _, [] => false
  | [], _ :: _ => true
  | x :: a', y :: b' => (x <? y) || ((x =? y) && str_ltb a' b')
  end.

Fixpoint digits (s : str) (acc : Z) : option Z :=
  match s with
  | [] => Some acc
  | c :: r => if (48 <=? c) && (c <=? 57) then digits r (acc * 10 + (c - 48)) else None
  end.

(* repr text of a constant: decimal digits, or '...' without quote and backslash inside *)
Definition const_val (s : str) : option pyv :=
  match s with
  | [] => None
  | 39 :: r =>
      match rev r with
      | 39 :: body' => let body := rev body' in
                       if forallb (fun c => negb ((c =? 39) || (c =? 92))) body then Some (VStr body) else None
      | _ => None
      end
  | _ => option_map VInt (digits s 0)
  end.

Definition truthy (v : pyv) : bool :=
  match v with VInt z => negb (z =? 0) | VStr s => negb (length s =? 0)%nat | VTuple vs => negb (length vs =? 0)%nat end.

Definition lt_sem (a b : pyv) : option bool :=
  match a, b with VInt x, VInt y => Some (x <? y) | VStr x, VStr y => Some (str_ltb x y) | _, _ => None end.

Definition cmp_sem (o : cmpop) (a b : pyv) : option bool :=
  match o with
  | CEq => Some (pyv_eqb a b)
  | CNotEq => Some (negb (pyv_eqb a b))
  | CLt => lt_sem a b
  | CGt => lt_sem b a
  | CLtE => option_map (fun l => l || pyv_eqb a b) (lt_sem a b)
  | CGtE => option_map (fun l => l || pyv_eqb a b) (lt_sem b a)
  | _ => None
  end.

Definition add_sem (a b : pyv) : option pyv :=
  match a, b with
  | VInt x, VInt y => Some (VInt (x + y))
  | VStr x, VStr y => Some (VStr (x ++ y))
  | VTuple x, VTuple y => Some (VTuple (x ++ y))
  | _, _ => None
  end.

Definition int2 (f : Z -> Z -> Z) (a b : pyv) : option pyv :=
  match a, b with VInt x, VInt y => Some (VInt (f x y)) | _, _ => None end.

Definition index_sem (a i : pyv) : option pyv :=
  match i with
  | VInt z =>
      match a with
      | VTuple vs => let n := Z.of_nat (length vs) in let k := if z <? 0 then z + n else z in
                     if (0 <=? k) && (k <? n) then nth_error vs (Z.to_nat k) else None
      | VStr s => let n := Z.of_nat (length s) in let k := if z <? 0 then z + n else z in
                  if (0 <=? k) && (k <? n) then option_map (fun c => VStr [c]) (nth_error s (Z.to_nat k)) else None
      | _ => None
      end
  | _ => None
  end.

Definition bind2 (f : pyv -> pyv -> option pyv) (a b : option pyv) : option pyv :=
  match a, b with Some x, Some y => f x y | _, _ => None end.

(* x or y or ...: the first truthy value, else the last; x and y and ...: the first falsy value, else the last *)
Definition eval_bool (ev : expr -> option pyv) (stop_on : bool) : list expr -> option pyv :=
  fix go (cs : list expr) : option pyv :=
    match cs with
    | [] => None
    | [c] => ev c
    | c :: r => match ev c with Some z => if Bool.eqb (truthy z) stop_on then Some z else go r | None => None end
    end.

(* a < b <= c ...: operands evaluated left to right, stops at the first false link *)
Definition eval_chain (ev : expr -> option pyv) : pyv -> list cmpop -> list expr -> option pyv :=
  fix go (v : pyv) (ops : list cmpop) (cs : list expr) {struct cs} : option pyv :=
    match ops, cs with
    | [], [] => Some (VInt 1)
    | o :: ops', c :: cs' =>
        match ev c with
        | Some w => match cmp_sem o v w with Some true => go w ops' cs' | Some false => Some (VInt 0) | None => None end
        | None => None
        end
    | _, _ => None
    end.

Definition eval_all (ev : expr -> option pyv) : list expr -> option (list pyv) :=
  fix go (cs : list expr) : option (list pyv) :=
    match cs with
    | [] => Some []
    | c :: r => match ev c, go r with Some v, Some vs => Some (v :: vs) | _, _ => None end
    end.

Fixpoint ceval (rho : env) (e : expr) {struct e} : option pyv :=
  match e with Node l cs =>
    match l, cs with
    | LName s, [] => rho s
    | LConst s, [] => const_val s
    | LOp KAdd, [a; b] => bind2 add_sem (ceval rho a) (ceval rho b)
    | LOp KSub, [a; b] => bind2 (int2 Z.sub) (ceval rho a) (ceval rho b)
    | LOp KMult, [a; b] => bind2 (int2 Z.mul) (ceval rho a) (ceval rho b)
    | LOp KUSub, [a] => match ceval rho a with Some (VInt z) => Some (VInt (- z)) | _ => None end
    | LOp KNot, [a] => option_map (fun v => VInt (if truthy v then 0 else 1)) (ceval rho a)
    | LOp KIfExp, [b; t; o] => match ceval rho t with Some v => if truthy v then ceval rho b else ceval rho o | None => None end
    | LOp KOr, _ => eval_bool (ceval rho) true cs
    | LOp KAnd, _ => eval_bool (ceval rho) false cs
    | LOp KTuple, _ => option_map VTuple (eval_all (ceval rho) cs)
    | LOp KSubscript, [a; i] => bind2 index_sem (ceval rho a) (ceval rho i)
    | LCompare ops, a :: rest => match ceval rho a with Some v => eval_chain (ceval rho) v ops rest | None => None end
    | _, _ => None
    end
  end.

(* Python's eval(compile(src)) of a token list: parse (SyntaxError = None), then evaluate *)
Definition eval_tokens (f : nat) (ts : list tok) (rho : env) : option pyv :=
  match parse_top f ts with Some t => ceval rho t | None => None end.
