(* C04 - a small evaluation semantics for expression trees over Python integers (booleans are 0 / 1): names, non-negative integer
   literals, + - *, unary minus, not, and / or with their short-circuit value semantics, comparison chains, conditional expressions.
   Everything else evaluates to None ("outside the fragment").  Used to state "the value bound as query parameter is Python's value
   of the subexpression".  Definitions only. *)
From Coq Require Import ZArith List Bool.
Import ListNotations.
Require Import PonyV.Model.C04Expr PonyV.Model.C04Parse.
Open Scope Z_scope.

Definition env := str -> option Z.

Fixpoint digits (s : str) (acc : Z) : option Z :=
  match s with
  | [] => Some acc
  | c :: r => if (48 <=? c) && (c <=? 57) then digits r (acc * 10 + (c - 48)) else None
  end.
Definition const_val (s : str) : option Z := match s with [] => None | _ => digits s 0 end.

Definition truthy (z : Z) : bool := negb (z =? 0).

Definition cmp_sem (o : cmpop) (a b : Z) : option bool :=
  match o with
  | CEq => Some (a =? b) | CNotEq => Some (negb (a =? b)) | CLt => Some (a <? b) | CLtE => Some (a <=? b)
  | CGt => Some (b <? a) | CGtE => Some (b <=? a) | _ => None
  end.

(* x or y or ...: the first truthy value, else the last; x and y and ...: the first falsy value, else the last *)
Definition eval_bool (ev : expr -> option Z) (stop_on : bool) : list expr -> option Z :=
  fix go (cs : list expr) : option Z :=
    match cs with
    | [] => None
    | [c] => ev c
    | c :: r => match ev c with Some z => if Bool.eqb (truthy z) stop_on then Some z else go r | None => None end
    end.

(* a < b <= c ...: operands evaluated left to right, stops at the first false link *)
Definition eval_chain (ev : expr -> option Z) : Z -> list cmpop -> list expr -> option Z :=
  fix go (v : Z) (ops : list cmpop) (cs : list expr) {struct cs} : option Z :=
    match ops, cs with
    | [], [] => Some 1
    | o :: ops', c :: cs' =>
        match ev c with
        | Some w => match cmp_sem o v w with Some true => go w ops' cs' | Some false => Some 0 | None => None end
        | None => None
        end
    | _, _ => None
    end.

Definition lift2 (f : Z -> Z -> Z) (a b : option Z) : option Z :=
  match a, b with Some x, Some y => Some (f x y) | _, _ => None end.

Fixpoint ceval (rho : env) (e : expr) {struct e} : option Z :=
  match e with Node l cs =>
    match l, cs with
    | LName s, [] => rho s
    | LConst s, [] => const_val s
    | LOp KAdd, [a; b] => lift2 Z.add (ceval rho a) (ceval rho b)
    | LOp KSub, [a; b] => lift2 Z.sub (ceval rho a) (ceval rho b)
    | LOp KMult, [a; b] => lift2 Z.mul (ceval rho a) (ceval rho b)
    | LOp KUSub, [a] => option_map Z.opp (ceval rho a)
    | LOp KNot, [a] => option_map (fun z => if truthy z then 0 else 1) (ceval rho a)
    | LOp KIfExp, [b; t; o] => match ceval rho t with Some z => if truthy z then ceval rho b else ceval rho o | None => None end
    | LOp KOr, _ => eval_bool (ceval rho) true cs
    | LOp KAnd, _ => eval_bool (ceval rho) false cs
    | LCompare ops, a :: rest => match ceval rho a with Some v => eval_chain (ceval rho) v ops rest | None => None end
    | _, _ => None
    end
  end.

(* Python's eval(compile(src)) of a token list: parse (SyntaxError = None), then evaluate *)
Definition eval_tokens (f : nat) (ts : list tok) (rho : env) : option Z :=
  match parse_top f ts with Some t => ceval rho t | None => None end.
