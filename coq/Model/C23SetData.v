(* C23 - SetData of a partially loaded many-to-many collection and the early-exit checks of SetInstance.__contains__
   (pony/orm/core.py).  The order of the checks is generated from the source (Gen/ContainsOrder.v).  Definitions only. *)
Require Import PonyV.Base.PyBase.
Open Scope nat_scope.

Record setdata : Type := mksd {
  sd_items : list nat;        (* the known members (SetData is a set) *)
  sd_full : bool;             (* is_fully_loaded *)
  sd_added : list nat;        (* added in this session, not flushed *)
  sd_removed : list nat;
  sd_absent : option (list nat);  (* negative cache of __contains__: items known NOT to be members; reset by flush / full load *)
  sd_count : option Z             (* SetData.count (a Python int: the code can drive it below zero) *)
}.

Inductive check : Type :=
| ChkItems        (* if item in setdata: return True *)
| ChkFull         (* if setdata.is_fully_loaded: return False *)
| ChkFullExact    (* if setdata.is_fully_loaded: return item in setdata *)
| ChkAbsent.      (* if setdata.absent is not None and item in setdata.absent: return False *)

Definition memn (x : nat) (l : list nat) : bool := existsb (Nat.eqb x) l.

(* the checks in order; None = none fired: the collection is asked from the database (attr.load(obj, (item,))) *)
Fixpoint contains_local (order : list check) (sd : setdata) (x : nat) : option bool :=
  match order with
  | [] => None
  | ChkItems :: r => if memn x (sd_items sd) then Some true else contains_local r sd x
  | ChkFull :: r => if sd_full sd then Some false else contains_local r sd x
  | ChkFullExact :: r => if sd_full sd then Some (memn x (sd_items sd)) else contains_local r sd x
  | ChkAbsent :: r => match sd_absent sd with
                      | Some a => if memn x a then Some false else contains_local r sd x
                      | None => contains_local r sd x
                      end
  end.

Definition without (x : nat) (l : list nat) : list nat := filter (fun y => negb (Nat.eqb x y)) l.

(* SetInstance.add(x) / Set.reverse_add from the other side, for an x that is not yet a member: absent is NOT touched *)
Definition sd_add (sd : setdata) (x : nat) : setdata :=
  mksd (x :: sd_items sd) (sd_full sd)
       (if memn x (sd_removed sd) then sd_added sd else x :: sd_added sd) (without x (sd_removed sd)) (sd_absent sd)
       (option_map Z.succ (sd_count sd)).
(* SetInstance.remove(x) / reverse_remove *)
Definition sd_remove (sd : setdata) (x : nat) : setdata :=
  mksd (without x (sd_items sd)) (sd_full sd)
       (without x (sd_added sd)) (if memn x (sd_added sd) then sd_removed sd else x :: sd_removed sd) (sd_absent sd)
       (option_map Z.pred (sd_count sd)).

(* an order is safe when no check that can answer False stands before the membership test *)
Fixpoint safe_order (order : list check) : bool :=
  match order with
  | [] => true
  | ChkItems :: _ => true
  | ChkFullExact :: r => safe_order r
  | ChkFull :: _ => false
  | ChkAbsent :: _ => false
  end.
