(* C36 - base vocabulary shared by the generated pool functions (Gen/C36Pool.v) and the fork model (definitions only). *)
From Coq Require Import ZArith List Bool.
Open Scope Z_scope.

(* a DB-API connection object: (pid of the process that created it, serial number inside that process' address space) *)
Definition conn := (Z * Z)%type.
Definition creator (c : conn) : Z := fst c.

(* cx_Oracle.SessionPool object, same identification; a connection acquired from a pool belongs to the pool's creator *)
Definition cxpool := (Z * Z)%type.
Definition acquire (p : cxpool) : conn := p.

(* pool.pid == pid where pool.pid may still be None *)
Definition optz_eqb (a b : option Z) : bool :=
  match a, b with
  | Some x, Some y => x =? y
  | None, None => true
  | _, _ => false
  end.

Definition conn_eqb (a b : conn) : bool := (fst a =? fst b) && (snd a =? snd b).
