(* C07: json.dumps / json.loads as the SQLite (and Oracle) Json and array converters call them:
       json.dumps(val, separators=(',', ':'), sort_keys=True, ensure_ascii=False)      json.loads(text)
   for the JSON subset  null | true | false | int | str | list | dict with str keys  (floats are outside this model).
   A dict is an association list in the order in which it is printed (sort_keys: the correspondence run hands the model the
   items sorted by key, as CPython prints them).  Strings are lists of code points.  Definitions only; both functions are
   compared with CPython's json module on every run. *)
Require Import PonyV.Base.PyBase PonyV.Model.C07Base.
Open Scope Z_scope.

Inductive jv : Type :=
| JNull
| JBool (b : bool)
| JInt (z : Z)
| JStr (s : str)
| JList (l : list jv)
| JDict (d : list (str * jv)).

(* ---- printing ---------------------------------------------------------------------------------------------------------------- *)
Definition hexdigit (x : Z) : Z := if x <? 10 then 48 + x else 87 + x.        (* 0-9a-f *)

(* py json encoder with ensure_ascii=False: only the double quote, the backslash and control characters are escaped *)
Definition esc_char (c : Z) : str :=
  if c =? 34 then [92; 34]
  else if c =? 92 then [92; 92]
  else if c =? 10 then [92; 110]
  else if c =? 13 then [92; 114]
  else if c =? 9 then [92; 116]
  else if c =? 8 then [92; 98]
  else if c =? 12 then [92; 102]
  else if c <? 32 then [92; 117; 48; 48; hexdigit (c / 16); hexdigit (c mod 16)]
  else [c].
Definition jstring (s : str) : str := 34 :: flat_map esc_char s ++ [34].

Fixpoint join (sep : Z) (l : list str) : str :=
  match l with
  | [] => []
  | [a] => a
  | a :: r => a ++ sep :: join sep r
  end.

Definition print_int (z : Z) : str := if z <? 0 then c_minus :: print_nat (- z) else print_nat z.

Fixpoint dumps (v : jv) : str :=
  match v with
  | JNull => [110; 117; 108; 108]
  | JBool true => [116; 114; 117; 101]
  | JBool false => [102; 97; 108; 115; 101]
  | JInt z => print_int z
  | JStr s => jstring s
  | JList l => 91 :: join 44 (map dumps l) ++ [93]
  | JDict d => 123 :: join 44 (map (fun kv => jstring (fst kv) ++ 58 :: dumps (snd kv)) d) ++ [125]
  end.

(* ---- parsing ----------------------------------------------------------------------------------------------------------------- *)
Definition hexval (c : Z) : option Z :=
  if (48 <=? c) && (c <=? 57) then Some (c - 48)
  else if (97 <=? c) && (c <=? 102) then Some (c - 87)
  else if (65 <=? c) && (c <=? 70) then Some (c - 55)
  else None.

(* the characters after the opening quote, up to and including the closing quote *)
Fixpoint parse_string_body (s : str) : option (str * str) :=
  match s with
  | [] => None
  | c :: r =>
      if c =? 34 then Some ([], r)
      else if c =? 92 then
        match r with
        | [] => None
        | e :: r2 =>
            let cont (ch : Z) (rest : str) (k : option (str * str)) := match k with Some (t, rest') => Some (ch :: t, rest') | None => None end in
            if e =? 34 then cont 34 r2 (parse_string_body r2)
            else if e =? 92 then cont 92 r2 (parse_string_body r2)
            else if e =? 47 then cont 47 r2 (parse_string_body r2)
            else if e =? 110 then cont 10 r2 (parse_string_body r2)
            else if e =? 114 then cont 13 r2 (parse_string_body r2)
            else if e =? 116 then cont 9 r2 (parse_string_body r2)
            else if e =? 98 then cont 8 r2 (parse_string_body r2)
            else if e =? 102 then cont 12 r2 (parse_string_body r2)
            else if e =? 117 then
              match r2 with
              | a :: b :: c2 :: d :: r3 =>
                  match hexval a, hexval b, hexval c2, hexval d with
                  | Some x1, Some x2, Some x3, Some x4 => cont (((x1 * 16 + x2) * 16 + x3) * 16 + x4) r3 (parse_string_body r3)
                  | _, _, _, _ => None
                  end
              | _ => None
              end
            else None
        end
      else if c <? 32 then None                      (* raw control characters are refused (strict mode) *)
      else match parse_string_body r with Some (t, rest) => Some (c :: t, rest) | None => None end
  end.

(* maximal run of digits *)
Fixpoint span_digits (s : str) : str * str :=
  match s with
  | c :: r => if is_digit c then let (a, b) := span_digits r in (c :: a, b) else ([], s)
  | [] => ([], [])
  end.

Definition parse_number (s : str) : option (Z * str) :=
  match s with
  | c :: r =>
      if c =? c_minus then
        match span_digits r with ([], _) => None | (ds, rest) => Some (- digits_value ds, rest) end
      else match span_digits s with ([], _) => None | (ds, rest) => Some (digits_value ds, rest) end
  | [] => None
  end.

Definition starts_with (p s : str) : option str :=
  (fix go (p s : str) : option str :=
     match p, s with
     | [], _ => Some s
     | a :: p', b :: s' => if a =? b then go p' s' else None
     | _ :: _, [] => None
     end) p s.

Fixpoint parse_value (f : nat) (s : str) {struct f} : option (jv * str) :=
  match f with
  | O => None
  | S f' =>
      match s with
      | [] => None
      | c :: r =>
          if c =? 110 then option_map (fun rest => (JNull, rest)) (starts_with [117; 108; 108] r)
          else if c =? 116 then option_map (fun rest => (JBool true, rest)) (starts_with [114; 117; 101] r)
          else if c =? 102 then option_map (fun rest => (JBool false, rest)) (starts_with [97; 108; 115; 101] r)
          else if c =? 34 then match parse_string_body r with Some (t, rest) => Some (JStr t, rest) | None => None end
          else if c =? 91 then
            match r with
            | c2 :: r2 => if c2 =? 93 then Some (JList [], r2)
                          else match parse_elems f' r with Some (l, rest) => Some (JList l, rest) | None => None end
            | [] => None
            end
          else if c =? 123 then
            match r with
            | c2 :: r2 => if c2 =? 125 then Some (JDict [], r2)
                          else match parse_members f' r with Some (d, rest) => Some (JDict d, rest) | None => None end
            | [] => None
            end
          else match parse_number s with Some (z, rest) => Some (JInt z, rest) | None => None end
      end
  end
with parse_elems (f : nat) (s : str) {struct f} : option (list jv * str) :=
  match f with
  | O => None
  | S f' =>
      match parse_value f' s with
      | Some (v, c :: r) =>
          if c =? 44 then match parse_elems f' r with Some (vs, rest) => Some (v :: vs, rest) | None => None end
          else if c =? 93 then Some ([v], r)
          else None
      | _ => None
      end
  end
with parse_members (f : nat) (s : str) {struct f} : option (list (str * jv) * str) :=
  match f with
  | O => None
  | S f' =>
      match s with
      | q :: r0 =>
          if q =? 34 then
            match parse_string_body r0 with
            | Some (k, c0 :: r1) =>
                if c0 =? 58 then
                  match parse_value f' r1 with
                  | Some (v, c :: r) =>
                      if c =? 44 then match parse_members f' r with Some (kvs, rest) => Some ((k, v) :: kvs, rest) | None => None end
                      else if c =? 125 then Some ([(k, v)], r)
                      else None
                  | _ => None
                  end
                else None
            | _ => None
            end
          else None
      | [] => None
      end
  end.

(* json.loads(text): the whole text must be one value *)
Definition loads (s : str) : option jv :=
  match parse_value (S (length s)) s with
  | Some (v, []) => Some v
  | _ => None
  end.

(* ---- well-formed values: code points are non-negative ------------------------------------------------------------------------ *)
Definition valid_str (s : str) : Prop := Forall (fun c => 0 <= c) s.
Fixpoint valid_jv (v : jv) : Prop :=
  match v with
  | JStr s => valid_str s
  | JList l => (fix all (l : list jv) : Prop := match l with [] => True | x :: r => valid_jv x /\ all r end) l
  | JDict d => (fix all (d : list (str * jv)) : Prop := match d with [] => True | kv :: r => (valid_str (fst kv) /\ valid_jv (snd kv)) /\ all r end) d
  | _ => True
  end.

(* fuel needed by the parser *)
Fixpoint jcost (v : jv) : nat :=
  match v with
  | JList l => S ((fix sum (l : list jv) : nat := match l with [] => O | x :: r => S (jcost x + sum r) end) l)
  | JDict d => S ((fix sum (d : list (str * jv)) : nat := match d with [] => O | kv :: r => S (jcost (snd kv) + sum r) end) d)
  | _ => 1%nat
  end.

(* equality test for the correspondence run *)
Fixpoint jv_eqb (a b : jv) : bool :=
  match a, b with
  | JNull, JNull => true
  | JBool x, JBool y => Bool.eqb x y
  | JInt x, JInt y => x =? y
  | JStr x, JStr y => str_eqb x y
  | JList x, JList y => (fix go (x y : list jv) : bool := match x, y with [], [] => true | a :: x', b :: y' => jv_eqb a b && go x' y' | _, _ => false end) x y
  | JDict x, JDict y => (fix go (x y : list (str * jv)) : bool :=
                           match x, y with [], [] => true | a :: x', b :: y' => str_eqb (fst a) (fst b) && jv_eqb (snd a) (snd b) && go x' y' | _, _ => false end) x y
  | _, _ => false
  end.
Definition chk_dumps (v : jv) (s : str) : bool := str_eqb (dumps v) s.
Definition chk_loads (s : str) (r : option jv) : bool :=
  match loads s, r with Some a, Some b => jv_eqb a b | None, None => true | _, _ => false end.
