(* Session model, database layer: the tables Pony creates for a Stage 1 schema on SQLite, with the constraints of
   its DDL (PRIMARY KEY, UNIQUE, NOT NULL, REFERENCES with immediate enforcement, AUTOINCREMENT), as reference
   semantics.  Validated against the linked SQLite by the history fuzzer (row dumps after every commit; error
   classes of failing flushes).  Definitions only. *)
Require Import PonyV.Model.SessionBase.

Record row : Type := mkRow { r_pk : Z; r_cols : list val }.   (* one column per attribute index; Set attributes hold VNone *)
Record db : Type := mkDb { d_tabs : list (list row); d_seqs : list Z }.   (* tables sorted by pk; sqlite_sequence per entity *)

Inductive dberr : Type := DbIntegrity | DbNoRow | DbUnmodelled.

Definition db_init (sch : schema) : db := mkDb (map (fun _ => []) sch) (map (fun _ => 0) sch).

Definition tab (d : db) (e : nat) : list row := nth e (d_tabs d) [].
Definition seq_of (d : db) (e : nat) : Z := nth e (d_seqs d) 0.
Definition col (r : row) (a : nat) : val := nth a (r_cols r) VNone.

Fixpoint find_row (rows : list row) (pk : Z) : option row :=
  match rows with
  | [] => None
  | r :: t => if Z.eqb (r_pk r) pk then Some r else find_row t pk
  end.

Definition has_row (d : db) (e : nat) (pk : Z) : bool :=
  match find_row (tab d e) pk with Some _ => true | None => false end.

Definition row_le (a b : row) : bool := Z.leb (r_pk a) (r_pk b).
Definition max_pk (rows : list row) : Z := fold_left (fun m r => Z.max m (r_pk r)) rows 0.

(* column nullability as in the generated DDL: Required -> NOT NULL; Optional(str) -> NOT NULL (default ''); else NULL *)
Definition col_notnull (at_ : attr) : bool :=
  match a_kind at_ with
  | KSet _ _ => false
  | KStr => true
  | _ => a_req at_
  end.

Definition notnull_ok (sch : schema) (e : nat) (cols : list val) : bool :=
  match nth_error sch e with
  | Some en => forallb_i (fun a at_ => negb (col_notnull at_) || negb (is_vnone (nth a cols VNone))) O (e_attrs en)
  | None => false
  end.

Definition uniq_ok (sch : schema) (e : nat) (cols : list val) (others : list row) : bool :=
  match nth_error sch e with
  | Some en => forallb_i (fun a at_ =>
                 negb (a_uniq at_) || is_vnone (nth a cols VNone) ||
                 negb (existsb (fun r => val_eqb (col r a) (nth a cols VNone)) others)) O (e_attrs en)
  | None => false
  end.

Definition fk_ok (sch : schema) (d : db) (e : nat) (cols : list val) : bool :=
  match nth_error sch e with
  | Some en => forallb_i (fun a at_ =>
                 match a_kind at_ with
                 | KRef t _ => match nth a cols VNone with
                               | VNone => true
                               | VInt z => has_row d t z
                               | _ => false
                               end
                 | _ => true
                 end) O (e_attrs en)
  | None => false
  end.

Definition set_tab (d : db) (e : nat) (rows : list row) : db := mkDb (upd_nth (d_tabs d) e rows) (d_seqs d).
Definition set_seq (d : db) (e : nat) (z : Z) : db := mkDb (d_tabs d) (upd_nth (d_seqs d) e z).

(* INSERT; pk = None asks for an AUTOINCREMENT id: max(sqlite_sequence, max rowid) + 1 *)
Definition db_insert (sch : schema) (d : db) (e : nat) (pk : option Z) (cols : list val) : dberr + (db * Z) :=
  let rows := tab d e in
  let pk' := match pk with Some z => z | None => Z.max (seq_of d e) (max_pk rows) + 1 end in
  if has_row d e pk' then inl DbIntegrity
  else if negb (notnull_ok sch e cols) then inl DbIntegrity
  else if negb (uniq_ok sch e cols rows) then inl DbIntegrity
  else if negb (fk_ok sch d e cols) then inl DbIntegrity
  else
    let d1 := set_tab d e (insert_by row_le (mkRow pk' cols) rows) in
    let d2 := if ent_auto sch e then set_seq d1 e (Z.max (seq_of d e) pk') else d1 in
    inr (d2, pk').

Fixpoint apply_asg (cols : list val) (asg : list (nat * val)) : list val :=
  match asg with
  | [] => cols
  | (a, v) :: t => apply_asg (upd_nth cols a v) t
  end.

Definition replace_row (rows : list row) (r' : row) : list row :=
  map (fun r => if Z.eqb (r_pk r) (r_pk r') then r' else r) rows.

(* UPDATE ... SET asg WHERE id = pk ; DbNoRow = rowcount 0 *)
Definition db_update (sch : schema) (d : db) (e : nat) (pk : Z) (asg : list (nat * val)) : dberr + db :=
  let rows := tab d e in
  match find_row rows pk with
  | None => inl DbNoRow
  | Some r =>
    let cols := apply_asg (r_cols r) asg in
    let others := filter (fun r2 => negb (Z.eqb (r_pk r2) pk)) rows in
    if negb (notnull_ok sch e cols) then inl DbIntegrity
    else if negb (uniq_ok sch e cols others) then inl DbIntegrity
    else if negb (fk_ok sch d e cols) then inl DbIntegrity
    else inr (set_tab d e (replace_row rows (mkRow pk cols)))
  end.

(* rows of any table that reference (e, pk) *)
Definition referenced (sch : schema) (d : db) (e : nat) (pk : Z) : bool :=
  existsb (fun p => let '(e2, en) := p in
     existsb (fun q => let '(a, at_) := q in
        match a_kind at_ with
        | KRef t _ => Nat.eqb t e && existsb (fun r => val_eqb (col r a) (VInt pk)) (tab d e2)
        | _ => false
        end) (combine (seq O (length (e_attrs en))) (e_attrs en)))
    (combine (seq O (length sch)) sch).

(* DELETE WHERE id = pk with the foreign-key actions of Pony's DDL: ON DELETE CASCADE for Required references,
   ON DELETE SET NULL for Optional ones.  (Pony unlinks / deletes dependants in memory first, but when a dependant is itself
   queued for deletion after its principal its UPDATE is dropped and the database action does the work.) *)
Definition set_col (r : row) (a : nat) (v : val) : row := mkRow (r_pk r) (upd_nth (r_cols r) a v).

Fixpoint db_delete_rec (fuel : nat) (sch : schema) (d : db) (e : nat) (pk : Z) : db :=
  match fuel with
  | O => d
  | S f =>
    let d1 := set_tab d e (filter (fun r => negb (Z.eqb (r_pk r) pk)) (tab d e)) in
    fold_left (fun dacc p => let '(e2, en) := p in
       fold_left (fun dacc2 q => let '(a, at_) := q in
          match a_kind at_ with
          | KRef t _ =>
            if Nat.eqb t e then
              if a_req at_ then
                fold_left (fun d3 r => if val_eqb (col r a) (VInt pk) then db_delete_rec f sch d3 e2 (r_pk r) else d3) (tab dacc2 e2) dacc2
              else set_tab dacc2 e2 (map (fun r => if val_eqb (col r a) (VInt pk) then set_col r a VNone else r) (tab dacc2 e2))
            else dacc2
          | _ => dacc2
          end) (combine (seq O (length (e_attrs en))) (e_attrs en)) dacc)
      (combine (seq O (length sch)) sch) d1
  end.

Definition db_rows_total (d : db) : nat := fold_left (fun n t => (n + length t)%nat) (d_tabs d) O.

Definition db_delete (sch : schema) (d : db) (e : nat) (pk : Z) : dberr + db :=
  inr (db_delete_rec (S (db_rows_total d)) sch d e pk).

(* SELECT ... WHERE col = v  (v = VNone: IS NULL).  Result in pk order (rowid / index order). *)
Definition select_eq (d : db) (e a : nat) (v : val) : list row :=
  filter (fun r => val_eqb (col r a) v) (tab d e).
