(* C20 - model `Multi`: one optimistic db_session working on SEVERAL objects (rows), several transactions, while other
   sessions commit changes whenever this session does not hold the write lock.  Definitions only.

   Mirrored code (core.py): cache.objects_to_save (order of first modification since the last flush), SessionCache.flush
   (one UPDATE per modified object, in that order, each with its own optimistic criteria), the auto-flush in front of every
   statement (prepare_connection_for_query_execution: loading another object while writes are pending flushes them and the
   session then holds SQLite's write lock until commit), rollback of the whole transaction when one UPDATE finds rowcount 0
   (OptimisticCheckError): none of the UPDATEs already executed in that transaction becomes visible. *)
From Coq Require Import ZArith List Bool.
Import ListNotations.
Require Import PonyV.Model.C20Opt PonyV.Model.C20Life.

Open Scope Z_scope.

Inductive mev :=
| MRead (o a : nat)
| MWrite (o a : nat) (e : expr)          (* EPlus b d reads attribute b of the SAME object *)
| MCommit
| MExt (o a : nat) (v : val).            (* another session commits obj.a := v (blocks while this session holds the lock) *)

Inductive mtev :=
| MObs (o a : nat) (v : val)
| MUpd (o : nat) (sets wher : list (nat * val)) (applied : bool)
| MFail (e : nat).

Record mstate := {
  mdb : nat -> row;                      (* committed rows, by object *)
  mtxn : option (nat -> row);            (* Some t: inside a write transaction (lock held); t = this session's view *)
  mx : nat -> sess;
  mord : list nat;                       (* objects_to_save *)
  mfail : option nat;
  mtrace : list mtev }.

Definition minit0 (d : nat -> row) : mstate :=
  {| mdb := d; mtxn := None; mx := fun _ => sess0; mord := []; mfail := None; mtrace := [] |}.

Definition mview (s : mstate) : nat -> row := match mtxn s with Some t => t | None => mdb s end.
Definition memb (o : nat) (l : list nat) : bool := existsb (Nat.eqb o) l.

(* the UPDATEs of one flush, in objects_to_save order; None = one of them found rowcount 0 *)
Fixpoint flush_objs (k : nat) (sch : schema) (t : nat -> row) (xs : nat -> sess) (ord : list nat) (tr : list mtev)
  : option ((nat -> row) * (nat -> sess)) * list mtev :=
  match ord with
  | [] => (Some (t, xs), tr)
  | o :: rest =>
      let x := xs o in
      let sets := set_list k x in
      let w := criteria k sch x in
      if matches (t o) w
      then flush_objs k sch (upd t o (apply_sets (t o) sets)) (upd xs o (after_update k sch x)) rest (MUpd o sets w true :: tr)
      else (None, MFail E_OPT :: MUpd o sets w false :: tr)
  end.

(* cache.flush() *)
Definition m_flush (k : nat) (sch : schema) (s : mstate) : mstate :=
  match mord s with
  | [] => s
  | ord =>
      match flush_objs k sch (mview s) (mx s) ord (mtrace s) with
      | (Some (t', xs'), tr) => {| mdb := mdb s; mtxn := Some t'; mx := xs'; mord := []; mfail := None; mtrace := tr |}
      | (None, tr) => {| mdb := mdb s; mtxn := None; mx := mx s; mord := mord s; mfail := Some E_OPT; mtrace := tr |}   (* ROLLBACK *)
      end
  end.

(* first access to object o: a SELECT - preceded by the auto-flush of pending writes *)
Definition m_load (k : nat) (sch : schema) (s : mstate) (o : nat) : mstate :=
  if loaded (mx s o) then s
  else let s1 := m_flush k sch s in
       match mfail s1 with
       | Some _ => s1
       | None => {| mdb := mdb s1; mtxn := mtxn s1; mx := upd (mx s1) o (do_load (mview s1 o) (mx s1 o)); mord := mord s1; mfail := None; mtrace := mtrace s1 |}
       end.

Definition m_put (s : mstate) (o : nat) (x : sess) (modified : bool) (evs : list mtev) : mstate :=
  {| mdb := mdb s; mtxn := mtxn s; mx := upd (mx s) o x;
     mord := if modified && negb (memb o (mord s)) then mord s ++ [o] else mord s; mfail := mfail s; mtrace := evs ++ mtrace s |}.

Definition mstep (k : nat) (sch : schema) (s : mstate) (e : mev) : mstate :=
  match e with
  | MExt o a v =>
      match mtxn s with
      | None => {| mdb := upd (mdb s) o (upd (mdb s o) a v); mtxn := None; mx := mx s; mord := mord s; mfail := mfail s; mtrace := mtrace s |}
      | Some _ => s
      end
  | _ =>
    match mfail s with
    | Some _ => s
    | None =>
      match e with
      | MRead o a =>
          let s1 := m_load k sch s o in
          match mfail s1 with Some _ => s1 | None =>
            let '(x2, v, _) := do_get sch (mx s1 o) a in m_put s1 o x2 false [MObs o a v] end
      | MWrite o a (EConst v) =>
          let s1 := m_load k sch s o in
          match mfail s1 with Some _ => s1 | None => m_put s1 o (do_set (mx s1 o) a v) true [] end
      | MWrite o a (EPlus b d) =>
          let s1 := m_load k sch s o in
          match mfail s1 with Some _ => s1 | None =>
            let '(x2, v, _) := do_get sch (mx s1 o) b in
            match v with
            | Some z => m_put s1 o (do_set x2 a (Some (z + d))) true [MObs o b v]
            | None => {| mdb := mdb s1; mtxn := None; mx := upd (mx s1) o x2; mord := mord s1; mfail := Some E_TYPE;
                         mtrace := MFail E_TYPE :: MObs o b v :: mtrace s1 |}
            end end
      | MCommit =>
          let s1 := m_flush k sch s in
          match mfail s1 with Some _ => s1 | None =>
            {| mdb := mview s1; mtxn := None; mx := mx s1; mord := mord s1; mfail := None; mtrace := mtrace s1 |} end
      | MExt _ _ _ => s
      end
    end
  end.

Definition mrunm (k : nat) (sch : schema) (s : mstate) (evs : list mev) : mstate := fold_left (mstep k sch) evs s.

(* ---------------------------------------------------------------- executable interface *)
Definition mtev_eqb (x y : mtev) : bool :=
  match x, y with
  | MObs o a v, MObs o' a' v' => Nat.eqb o o' && Nat.eqb a a' && val_eqb v v'
  | MUpd o s w ap, MUpd o' s' w' ap' => Nat.eqb o o' && list_eqb pair_eqb s s' && list_eqb pair_eqb w w' && Bool.eqb ap ap'
  | MFail e, MFail f => Nat.eqb e f
  | _, _ => false
  end.

(* (committed rows of objects 0..n-1, lock held at the end, events oldest first) *)
Definition moutcomem (k n : nat) (schl : list attr) (d0 : list (list val)) (evs : list mev) : list (list val) * bool * list mtev :=
  let f := mrunm k (schema_of schl) (minit0 (fun o => row_of (nth o d0 []))) evs in
  (map (fun o => row_list k (mdb f o)) (seq 0 n), match mtxn f with Some _ => true | None => false end, rev (mtrace f)).
Definition moutcomem_eqb (x y : list (list val) * bool * list mtev) : bool :=
  list_eqb (list_eqb val_eqb) (fst (fst x)) (fst (fst y)) && Bool.eqb (snd (fst x)) (snd (fst y)) && list_eqb mtev_eqb (snd x) (snd y).
