(* C22 - model `Sched`: threads interleaved at the access points of one shared dict entry.  Definitions only.

   Query._get_translator (core.py) for queries whose translation depends on a parameter VALUE (fixed_param_values,
   e.g. s[x:] or getattr(p, name)); all threads use the same cache key:

       translator = database._translator_cache.get(query_key)                 -- get
       if translator is not None:
           for key, val in translator.fixed_param_values.items():
               if val != new_vars[key]:
                   database._translator_cache.pop(query_key, None)           -- del   (tolerant; was `del cache[key]`: KeyError if another thread deleted it)
                   return None, ...
       ...
       translator = translate(...)                                            -- thread-local
       database._translator_cache[query_key] = translator                    -- set

   A translator is represented by the parameter value it was built for.  `safe = true` is the code as it is
   (`pop(query_key, None)`, repo commit e8266c3); `safe = false` is the former `del cache[key]`, kept to state what the
   repair removed. *)
From Coq Require Import List Bool Arith.
Import ListNotations.
Require Import PonyV.Model.C22Memo.

Inductive tres := TNone | TGot (v : nat) | TKeyError.
Inductive dop := DGet | DDel | DSet.

(* pc 0: get; 1: del; 2: translate + set; 3: finished *)
Record tthread := { t_x : nat; t_pc : nat; t_res : tres }.
Record tstate := { t_cache : option nat; t_thr : nat -> tthread; t_log : list (nat * dop) (* newest first *) }.

Definition tupd (f : nat -> tthread) (t : nat) (c : tthread) : nat -> tthread := fun u => if Nat.eqb u t then c else f u.

Definition tstep (safe : bool) (s : tstate) (t : nat) : tstate :=
  let th := t_thr s t in
  let put c th' op := {| t_cache := c; t_thr := tupd (t_thr s) t th'; t_log := (t, op) :: t_log s |} in
  match t_pc th with
  | 0 => match t_cache s with
         | None => put (t_cache s) {| t_x := t_x th; t_pc := 2; t_res := TNone |} DGet
         | Some v => if Nat.eqb v (t_x th)
                     then put (t_cache s) {| t_x := t_x th; t_pc := 3; t_res := TGot v |} DGet
                     else put (t_cache s) {| t_x := t_x th; t_pc := 1; t_res := TNone |} DGet
         end
  | 1 => match t_cache s with
         | Some _ => put None {| t_x := t_x th; t_pc := 2; t_res := TNone |} DDel
         | None => if safe then put None {| t_x := t_x th; t_pc := 2; t_res := TNone |} DDel
                   else put None {| t_x := t_x th; t_pc := 3; t_res := TKeyError |} DDel
         end
  | 2 => put (Some (t_x th)) {| t_x := t_x th; t_pc := 3; t_res := TGot (t_x th) |} DSet
  | _ => s
  end.

Definition trun (safe : bool) (s : tstate) (sched : list nat) : tstate := fold_left (tstep safe) sched s.

Definition tinit (warm : option nat) (xs : nat -> nat) : tstate :=
  {| t_cache := warm; t_thr := fun t => {| t_x := xs t; t_pc := 0; t_res := TNone |}; t_log := [] |}.

(* ---------------------------------------------------------------- cross-thread use of an object of another live session
   Decision table of the guards in core.py: does the operation, executed by thread B on an object that belongs to the
   live session of thread A, raise TransactionError?  (`loaded`: the data the operation needs is already in A's cache.) *)
Inductive xop :=
| XReadAttr | XReadLazyAttr | XAssignAttr | XObjSet | XDelete | XObjLoad | XToDict
| XCollLen | XCollIter | XCollAdd | XAssignRelation | XCreateWith.

Definition guard (o : xop) (loaded : bool) : bool :=
  match o with
  | XReadAttr => negb loaded           (* Attribute.get -> attr.load -> obj._load_: "doesn't belong to current transaction"; a loaded value is returned unchecked *)
  | XReadLazyAttr => false             (* lazy column: Attribute.load runs the SELECT on the caller's connection, no check *)
  | XAssignAttr => false               (* Attribute.__set__: only cache.is_alive of the OBJECT's cache is checked *)
  | XObjSet => false
  | XDelete => false
  | XObjLoad => true                   (* Entity.load / _load_ compare with database._get_cache() *)
  | XToDict => negb loaded
  | XCollLen => negb loaded            (* Set.load checks; a fully loaded collection is answered from the set data *)
  | XCollIter => negb loaded
  | XCollAdd => true                   (* Set.validate: "An attempt to mix objects belonging to different transactions" *)
  | XAssignRelation => true            (* Attribute.validate *)
  | XCreateWith => true
  end.

(* the cases that are not rejected (known findings, one key each) *)
Definition unguarded (o : xop) (loaded : bool) : bool :=
  match o with
  | XReadAttr | XToDict | XCollLen | XCollIter => loaded
  | XReadLazyAttr | XAssignAttr | XObjSet | XDelete => true
  | _ => false
  end.

(* ---------------------------------------------------------------- executable interface for the correspondence run *)

Definition tres_eqb (x y : tres) : bool :=
  match x, y with
  | TNone, TNone | TKeyError, TKeyError => true
  | TGot a, TGot b => Nat.eqb a b
  | _, _ => false
  end.
Definition dop_eqb (x y : dop) : bool := match x, y with DGet, DGet | DDel, DDel | DSet, DSet => true | _, _ => false end.

Fixpoint list_eqb {A} (e : A -> A -> bool) (x y : list A) : bool :=
  match x, y with
  | [], [] => true
  | p :: x', q :: y' => e p q && list_eqb e x' y'
  | _, _ => false
  end.

Definition opt_eqb (x y : option nat) : bool :=
  match x, y with None, None => true | Some a, Some b => Nat.eqb a b | _, _ => false end.

(* (results of threads 0..n-1, log oldest first, final cache) *)
Definition toutcome (safe : bool) (warm : option nat) (xs : list nat) (sched : list nat) : list tres * list (nat * dop) * option nat :=
  let f := trun safe (tinit warm (fun t => nth t xs 0)) sched in
  (map (fun t => t_res (t_thr f t)) (seq 0 (length xs)), rev (t_log f), t_cache f).
Definition toutcome_eqb (x y : list tres * list (nat * dop) * option nat) : bool :=
  list_eqb tres_eqb (fst (fst x)) (fst (fst y))
  && list_eqb (fun p q => Nat.eqb (fst p) (fst q) && dop_eqb (snd p) (snd q)) (snd (fst x)) (snd (fst y))
  && opt_eqb (snd x) (snd y).

(* set-only cache run on nat inputs: key = compute = the class of the input (inputs with equal keys have equal values) *)
Fixpoint mlog (key : nat -> nat) (s : mstate nat nat nat) (sched : list nat) : list (nat * dop) :=
  match sched with
  | [] => []
  | t :: r =>
      let pc := c_pc (m_cl s t) in
      (if Nat.ltb pc 2 then [(t, if Nat.eqb pc 0 then DGet else DSet)] else [])
      ++ mlog key (mstep nat nat nat Nat.eqb key key s t) r
  end.

Definition moutcome (classes inputs sched : list nat) : list (option nat) * list (nat * dop) :=
  let key := fun i => nth i classes 0 in
  let s0 := minit nat nat nat (fun _ => None) (fun t => nth t inputs 0) in
  let f := mrun nat nat nat Nat.eqb key key s0 sched in
  (map (fun t => c_res (m_cl f t)) (seq 0 (length inputs)), mlog key s0 sched).
Definition moutcome_eqb (x y : list (option nat) * list (nat * dop)) : bool :=
  list_eqb opt_eqb (fst x) (fst y)
  && list_eqb (fun p q => Nat.eqb (fst p) (fst q) && dop_eqb (snd p) (snd q)) (snd x) (snd y).

Fixpoint failing_from (i : nat) (l : list bool) : list nat :=
  match l with
  | [] => []
  | b :: r => if b then failing_from (S i) r else i :: failing_from (S i) r
  end.
Definition failing (l : list bool) : list nat := failing_from 0 l.
