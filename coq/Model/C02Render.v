(* C02 - the SQL text each provider's builder produces for the expression fragment (pony/orm/sqlbuilding.py SQLBuilder and
   the overrides in dbproviders/sqlite.py, postgres.py, mysql.py, oracle.py), as a function from the AST to a string.
   Parameters are written `?` (the harness normalises `%(p1)s`, `%s`, `:p1`).  This is what the dialect semantics of
   Model/C01Sql.v assumes about the syntax (`/` for FLOORDIV and DIV, `(x)::int`, `||` vs concat(), min vs least, ...);
   it is compared with the real builders' text on every run of check C02.  Definitions only. *)
From Coq Require Import String Ascii DecimalString DecimalZ.
Require Import PonyV.Base.PyBase PonyV.Model.C01Expr PonyV.Model.C01Sql.
Open Scope string_scope.

Definition zs (z : Z) : string := NilZero.string_of_int (Z.to_int z).
Fixpoint str_of (s : str) : string :=
  match s with [] => "" | c :: r => String (ascii_of_N (Z.to_N c)) (str_of r) end.

Definition col_name (i : nat) : string :=
  match i with 0 => "id" | 1 => "a" | 2 => "b" | 3 => "r" | 4 => "s" | 5 => "u" | 6 => "f" | _ => "g" end%nat.
Definition col_name_upper (i : nat) : string :=
  match i with 0 => "ID" | 1 => "A" | 2 => "B" | 3 => "R" | 4 => "S" | 5 => "U" | 6 => "F" | _ => "G" end%nat.

Definition percent_style (d : dname) : bool := match d with DPostgres | DMysql => true | _ => false end.

(* quote_str: ' doubled; % doubled for the format / pyformat paramstyles *)
Fixpoint quote_body (pct : bool) (s : str) : string :=
  match s with
  | [] => ""
  | c :: r =>
      let ch := String (ascii_of_N (Z.to_N c)) "" in
      (if (c =? 39)%Z then "''" else if ((c =? 37)%Z && pct)%bool then "%%" else ch) ++ quote_body pct r
  end.

Definition render_lit (d : dname) (l : qlit) : string :=
  match l with
  | QLInt z => zs z
  | QLStr s => "'" ++ quote_body (percent_style d) s ++ "'"
  | QLBool b => match d with DPostgres => if b then "true" else "false" | _ => if b then "1" else "0" end
  | QLNone => "null"
  end.

Definition render_col (d : dname) (i : nat) : string :=
  match d with
  | DMysql => "`p`.`" ++ col_name i ++ "`"
  | DOracle => """p"".""" ++ col_name_upper i ++ """"
  | _ => """p"".""" ++ col_name i ++ """"
  end.

Fixpoint join_with (sep : string) (l : list string) : string :=
  match l with [] => "" | [x] => x | x :: r => x ++ sep ++ join_with sep r end.

Section Render.
Variable d : dname.

Definition bin_sym (op : qbin) : string :=
  match op with
  | QAdd => " + " | QSub => " - " | QMul => " * " | QDiv | QFloorDiv => " / "
  | QMod => if percent_style d then " %% " else " % "
  | QConcat => " || "
  | QEq => " = " | QNe => " <> " | QLt => " < " | QLe => " <= " | QGt => " > " | QGe => " >= "
  end.

Fixpoint render (q : qx) : string :=
  match q with
  | QVal l => render_lit d l
  | QCol i => render_col d i
  | QParam _ => "?"
  | QBin op a b =>
      match op with
      | QEq | QNe | QLt | QLe | QGt | QGe => render a ++ bin_sym op ++ render b
      | QConcat => match d with
                   | DMysql => "concat(" ++ render a ++ ", " ++ render b ++ ")"
                   | _ => "(" ++ render a ++ " || " ++ render b ++ ")"
                   end
      | QMod => match d with
                | DOracle => "MOD(" ++ render a ++ ", " ++ render b ++ ")"
                | _ => "(" ++ render a ++ bin_sym op ++ render b ++ ")"
                end
      | _ => "(" ++ render a ++ bin_sym op ++ render b ++ ")"
      end
  | QUn op a =>
      match op with
      | QNeg => "-(" ++ render a ++ ")"
      | QAbs => "abs(" ++ render a ++ ")"
      | QLen => "length(" ++ render a ++ ")"
      | QToInt => match d with
                  | DPostgres => "(" ++ render a ++ ")::int"
                  | DMysql => "CAST(" ++ render a ++ " AS SIGNED)"
                  | _ => "CAST(" ++ render a ++ " AS integer)"
                  end
      | QNot => "NOT (" ++ render a ++ ")"
      | QIsNull => render a ++ " IS NULL"
      | QIsNotNull => render a ++ " IS NOT NULL"
      end
  | QAnd l => join_with " AND " (map render l)
  | QOr l => "(" ++ join_with " OR " (map render l) ++ ")"
  | QIn neg a items =>
      match items with
      | [] => if neg then "1 = 1" else "0 = 1"
      | _ => render a ++ (if neg then " NOT IN (" else " IN (") ++ join_with ", " (map render items) ++ ")"
      end
  | QCase c t f =>
      (* SQLBuilder.CASE merges a searched CASE in the ELSE position into the outer one *)
      "case when " ++ render c ++ " then " ++ render t ++
      (fix tail (x : qx) : string :=
         match x with
         | QCase c2 t2 f2 => " when " ++ render c2 ++ " then " ++ render t2 ++ tail f2
         | _ => " else " ++ render x ++ " end"
         end) f
  | QCoalesce l => "coalesce(" ++ join_with ", " (map render l) ++ ")"
  | QMinMax is_max l =>
      (match d, is_max with
       | DSqlite, false => "min" | DSqlite, true => "max"
       | _, false => "least" | _, true => "greatest"
       end) ++ "(" ++ join_with ", " (map render l) ++ ")"
  end.
End Render.

(* the LIMIT section for `query[offset:]` (no upper bound), per dialect, as text; Oracle has none (ROWNUM subqueries) *)
Definition render_offset_only (d : dname) (offset : Z) : option string :=
  match d with
  | DSqlite => Some ("LIMIT -1 OFFSET " ++ zs offset)
  | DMysql => Some ("LIMIT 18446744073709551615 OFFSET " ++ zs offset)
  | DPostgres => Some ("LIMIT null OFFSET " ++ zs offset)
  | DOracle => None
  end.
