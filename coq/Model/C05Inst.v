(* C05 - a concrete instance of Model/C05Memo.v used by the correspondence run of check C05: keys, values and results
   are small integers interned by the harness; the translation function and the query executor are lookup tables filled
   from the cold-cache run of the real implementation.  Definitions only. *)
Require Import PonyV.Base.PyBase PonyV.Model.C05Memo PonyV.Gen.C05Flags.

(* (code id, vartypes id, pinned parameter values, translator id): "for parameter values agreeing with the pinned ones,
   translating code c under vartypes vt gives this translator" - a table that satisfies the read-set hypothesis by construction *)
Definition oracle := list (nat * nat * list (nat * Z) * Z).

Definition agrees (f : list (nat * Z)) (v : nat -> Z) : bool := forallb (fun px => Z.eqb (snd px) (v (fst px))) f.

Definition tr_of (o : oracle) (c vt : nat) (v : nat -> Z) : Z * list (nat * Z) :=
  match find (fun e => match e with (c', vt', f, _) => Nat.eqb c c' && Nat.eqb vt vt' && agrees f v end) o with
  | Some (_, _, f, a) => (a, f)
  | None => (-1, [])
  end.

Definition vars_of (l : list (nat * Z)) : nat -> Z :=
  fun p => match find (fun px => Nat.eqb (fst px) p) l with Some (_, x) => x | None => -1 end.

Definition ev_code (e : event) : Z := match e with Hit => 0 | Miss => 1 | Replaced => 2 end.

(* one request: (code id, vartypes id, parameter values) -> (translator id, pinned values, event) per request *)
Definition run_translator (o : oracle) (h : list (nat * nat * list (nat * Z))) : list (Z * list (nat * Z) * Z) :=
  map (fun x => match x with ((a, f), e) => (a, f, ev_code e) end)
      (trun nat nat nat Z Z Nat.eqb Nat.eqb Z.eqb (tr_of o) []
            (map (fun r => match r with (c, vt, l) => mkreq nat nat nat Z c vt (vars_of l) end) h)).

(* the SQL cache is never cleared: a lookup hits iff the same key was looked up before *)
Fixpoint sql_hits (seen : list Z) (keys : list Z) : list bool :=
  match keys with [] => [] | k :: r => existsb (Z.eqb k) seen :: sql_hits (k :: seen) r end.

(* session results: database state = number of writes so far; exec = table ((version, query id) -> result id) *)
Definition exec_of (t : list (nat * Z * Z)) (db : nat) (q : Z) : Z :=
  match find (fun e => match e with (v, q', _) => Nat.eqb v db && Z.eqb q q' end) t with Some (_, _, r) => r | None => -1 end.

(* step codes: 0 fetch q | 1 aggregate q | 2 modify | 3 flush | 4 commit (also: new session) | 5 bulk delete | 6 raw write *)
Definition sop_of (c : Z * Z) : sop unit Z :=
  match fst c with
  | 0 => SQuery unit Z (snd c) | 1 => SAggregate unit Z (snd c) | 2 => SModify unit Z tt | 3 => SFlush unit Z
  | 4 => SCommit unit Z | 5 => SBulkDelete unit Z tt | _ => SRaw unit Z tt
  end.

Definition run_session (t : list (nat * Z * Z)) (h : list (Z * Z)) : list (option Z) :=
  srun nat unit Z Z Z.eqb (exec_of t) (fun db _ => S db) raw_clears_in_source aggr_flushes_in_source (mksess nat unit Z Z 0%nat [] []) (map sop_of h).

Definition fixed_eqb (a b : list (nat * Z)) : bool :=
  (fix go (x y : list (nat * Z)) := match x, y with [] , [] => true | (p, v) :: x', (q, w) :: y' => Nat.eqb p q && Z.eqb v w && go x' y' | _, _ => false end) a b.
Definition tres_eqb (a b : list (Z * list (nat * Z) * Z)) : bool :=
  (fix go x y := match x, y with [], [] => true | (a1, f1, e1) :: x', (a2, f2, e2) :: y' => Z.eqb a1 a2 && fixed_eqb f1 f2 && Z.eqb e1 e2 && go x' y' | _, _ => false end) a b.
Definition bools_eqb (a b : list bool) : bool :=
  (fix go x y := match x, y with [], [] => true | p :: x', q :: y' => Bool.eqb p q && go x' y' | _, _ => false end) a b.
Definition oz_eqb (a b : list (option Z)) : bool :=
  (fix go x y := match x, y with [], [] => true | Some p :: x', Some q :: y' => Z.eqb p q && go x' y' | None :: x', None :: y' => go x' y' | _, _ => false end) a b.

(* indexes (0-based) of the cases that failed *)
Fixpoint failing_from (n : nat) (l : list bool) : list nat :=
  match l with [] => [] | b :: r => (if b then [] else [n]) ++ failing_from (S n) r end.
Definition failing (l : list bool) : list nat := failing_from 0 l.
