(* C05 - Query, SQL and result caches as memo tables over request histories.  Definitions only.

   1. [Memo]      a plain memo table  key -> value  with lookups, clears and single-key invalidations
                  (string2ast_cache, extractors_cache, ast_cache, _constructed_sql_cache);
   2. [Validated] the translator cache of Query._get_translator: an entry found under the query key is used only if the
                  parameter values it pinned (translator.fixed_param_values) equal the current ones; otherwise it is
                  deleted and the query is translated again;
   3. [Session]   the per-session result cache SessionCache.query_results with its invalidation points: flush (when the
                  session has unsaved modifications - also reached from every query execution through
                  prepare_connection_for_query_execution), commit, bulk delete; raw SQL writes (Database.execute /
                  Database.insert) do NOT invalidate it. *)
Require Import PonyV.Base.PyBase.

Section Memo.
Variables I K V : Type.
Variable keqb : K -> K -> bool.
Variable key : I -> K.
Variable compute : I -> V.

Definition table := list (K * V).

Fixpoint lookup (t : table) (k : K) : option V :=
  match t with [] => None | (k', v) :: r => if keqb k' k then Some v else lookup r k end.

Definition drop (t : table) (k : K) : table := filter (fun e => negb (keqb (fst e) k)) t.

Inductive op : Type := Get (i : I) | Clear | Drop (k : K).

Definition step (t : table) (o : op) : table * option V :=
  match o with
  | Get i => match lookup t (key i) with
             | Some v => (t, Some v)
             | None => ((key i, compute i) :: t, Some (compute i))
             end
  | Clear => ([], None)
  | Drop k => (drop t k, None)
  end.

(* answers of a history of operations, starting from table t *)
Fixpoint run (t : table) (h : list op) : list (option V) :=
  match h with [] => [] | o :: r => let '(t', a) := step t o in a :: run t' r end.

(* what a cold cache answers *)
Definition fresh (o : op) : option V := match o with Get i => Some (compute i) | _ => None end.
End Memo.

Arguments Get {I K} i.
Arguments Clear {I K}.
Arguments Drop {I K} k.

(* ------------------------------------------------------------------------------------------- translator cache *)
Section Validated.
Variables C VT P VAL A : Type.        (* code key, vartypes, parameter key, parameter value, translator (SQL AST) *)
Variable ceqb : C -> C -> bool.
Variable vteqb : VT -> VT -> bool.
Variable valeqb : VAL -> VAL -> bool.

Definition vars := P -> VAL.
Definition fixed := list (P * VAL).   (* translator.fixed_param_values *)

(* the translation itself: SQLTranslator(tree, ..., vars, vartypes) -> (translator, the parameter values it baked in) *)
Variable tr : C -> VT -> vars -> A * fixed.

(* read-set hypothesis: the result depends on the parameter VALUES only through the keys it reports as fixed *)
Definition read_set : Prop :=
  forall c vt v1 v2, (forall p x, In (p, x) (snd (tr c vt v1)) -> v2 p = x) -> tr c vt v2 = tr c vt v1.
(* a reported fixed value is the value the parameter had *)
Definition self_consistent : Prop :=
  forall c vt v p x, In (p, x) (snd (tr c vt v)) -> v p = x.

Record req : Type := mkreq { r_code : C; r_vt : VT; r_vars : vars }.

Definition tkey := (C * VT)%type.
Definition tkeqb (a b : tkey) : bool := ceqb (fst a) (fst b) && vteqb (snd a) (snd b).
Definition tcache := list (tkey * (A * fixed)).

(* `for key, val in translator.fixed_param_values.items(): if val != new_vars[key]: del cache[query_key]; return None` *)
Definition still_valid (f : fixed) (v : vars) : bool := forallb (fun px => valeqb (snd px) (v (fst px))) f.

Inductive event : Type := Hit | Miss | Replaced.

Definition tstep (t : tcache) (r : req) : tcache * (A * fixed) * event :=
  let k := (r_code r, r_vt r) in
  match lookup _ _ tkeqb t k with
  | Some (a, f) =>
      if still_valid f (r_vars r) then (t, (a, f), Hit)
      else let res := tr (r_code r) (r_vt r) (r_vars r) in ((k, res) :: drop _ _ tkeqb t k, res, Replaced)
  | None => let res := tr (r_code r) (r_vt r) (r_vars r) in ((k, res) :: t, res, Miss)
  end.

Fixpoint trun (t : tcache) (h : list req) : list ((A * fixed) * event) :=
  match h with [] => [] | r :: rest => let '(t', res, ev) := tstep t r in (res, ev) :: trun t' rest end.

Definition tfresh (r : req) : A * fixed := tr (r_code r) (r_vt r) (r_vars r).

(* the SQL cache key of Query._construct_sql_and_arguments: query key + vartypes + fixed_param_values + the options
   (limit, offset, distinct, aggregate function, for_update, nowait, skip_locked, join syntax, attrs_to_prefetch) *)
Variables O S : Type.
Variable build : A -> O -> S.          (* construct_sql_ast + ast2sql *)
Definition sql_req := (req * O)%type.
Definition sql_compute (r : sql_req) : S := build (fst (tfresh (fst r))) (snd r).
Definition sql_key (r : sql_req) : C * VT * fixed * O := (r_code (fst r), r_vt (fst r), snd (tfresh (fst r)), snd r).
End Validated.

(* ------------------------------------------------------------------------------------------- session result cache *)
Section Session.
Variables DB W Q R : Type.             (* database state, a write, a query key (sql key + arguments), fetched items *)
Variable qeqb : Q -> Q -> bool.
Variable exec : DB -> Q -> R.
Variable apply : DB -> W -> DB.
Variable raw_clears : bool.            (* false = the code as it is; true = raw SQL writes would clear query_results *)
Variable aggr_flushes : bool.          (* false = the code as it is: Query._aggregate looks the cache up BEFORE
                                          prepare_connection_for_query_execution had a chance to flush *)

Inductive sop : Type :=
| SQuery (q : Q)                       (* Query._actual_fetch                                        *)
| SAggregate (q : Q)                   (* Query._aggregate: count / sum / min / max / avg / group_concat *)
| SModify (w : W)                      (* attribute assignment, create, obj.delete(): cache.modified *)
| SFlush | SCommit
| SBulkDelete (w : W)                  (* Query.delete(bulk=True)                                    *)
| SRaw (w : W).                        (* Database.execute / Database.insert with a writing statement *)

Record sess : Type := mksess { s_db : DB; s_pending : list W; s_cache : list (Q * R) }.

(* SessionCache.flush: nothing to do unless modified; otherwise query_results.clear() and the pending writes reach the db *)
Definition sflush (s : sess) : sess :=
  match s_pending s with
  | [] => s
  | ws => mksess (fold_left apply ws (s_db s)) [] []
  end.

Definition sstep (s : sess) (o : sop) : sess * option R :=
  match o with
  | SQuery q =>
      let s := sflush s in                      (* prepare_connection_for_query_execution *)
      match lookup _ _ qeqb (s_cache s) q with
      | Some r => (s, Some r)
      | None => let r := exec (s_db s) q in (mksess (s_db s) [] ((q, r) :: s_cache s), Some r)
      end
  | SAggregate q =>
      let s0 := if aggr_flushes then sflush s else s in
      match lookup _ _ qeqb (s_cache s0) q with
      | Some r => (s0, Some r)            (* cache.query_results[query_key] *)
      | None => let s1 := sflush s0 in    (* _exec_sql -> prepare_connection_for_query_execution -> flush *)
                let r := exec (s_db s1) q in (mksess (s_db s1) [] ((q, r) :: s_cache s1), Some r)
      end
  | SModify w => (mksess (s_db s) (s_pending s ++ [w]) (s_cache s), None)
  | SFlush => (sflush s, None)
  | SCommit => let s := sflush s in (mksess (s_db s) [] [], None)
  | SBulkDelete w => let s := sflush s in (mksess (apply (s_db s) w) [] [], None)
  | SRaw w => let s := sflush s in (mksess (apply (s_db s) w) [] (if raw_clears then [] else s_cache s), None)
  end.

Fixpoint srun (s : sess) (h : list sop) : list (option R) :=
  match h with [] => [] | o :: r => let '(s', a) := sstep s o in a :: srun s' r end.

(* the same history with a cold result cache: every query is executed against the current database state *)
Definition cold_step (db : DB) (pending : list W) (o : sop) : DB * list W * option R :=
  match o with
  | SQuery q | SAggregate q => let db' := fold_left apply pending db in (db', [], Some (exec db' q))
  | SModify w => (db, pending ++ [w], None)
  | SFlush | SCommit => (fold_left apply pending db, [], None)
  | SBulkDelete w | SRaw w => (apply (fold_left apply pending db) w, [], None)
  end.
Fixpoint cold_run (db : DB) (pending : list W) (h : list sop) : list (option R) :=
  match h with [] => [] | o :: r => let '(db', p', a) := cold_step db pending o in a :: cold_run db' p' r end.

Definition is_raw (o : sop) : bool := match o with SRaw _ => true | _ => false end.
Definition is_aggregate (o : sop) : bool := match o with SAggregate _ => true | _ => false end.
End Session.
