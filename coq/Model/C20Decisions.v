(* C20 - small decision tables of Entity._save_updated_ / _save_deleted_ (definitions only).

   _save_updated_:   optimistic_session = cache.db_session is None or cache.db_session.optimistic        (criteria are built iff this holds)
                     ...
                     if cursor.rowcount == 0 and optimistic_session: throw(OptimisticCheckError)       (repo commit 019826c; before: cache.db_session.optimistic,
                                                                                                        an AttributeError outside a db_session)
   `ds` = None: no db_session (interactive mode);  Some b: db_session.optimistic = b. *)
Inductive rc0 := RaiseOptimistic | RaiseAttributeError | NoError.

(* what the code does when the UPDATE reports rowcount 0 *)
Definition rowcount0_outcome (ds : option bool) : rc0 :=
  match ds with
  | None => RaiseOptimistic              (* optimistic_session is true without a db_session *)
  | Some true => RaiseOptimistic
  | Some false => NoError                (* a non-optimistic session holds the write lock from its first statement: the row cannot have changed *)
  end.

(* what the property asks for: whenever optimistic criteria were put into the WHERE clause, their failure is an OptimisticCheckError *)
Definition rowcount0_spec (ds : option bool) : rc0 :=
  match ds with
  | Some false => NoError
  | _ => RaiseOptimistic
  end.

(* _save_deleted_: DELETE ... WHERE pk, no optimistic criteria, rowcount not inspected (a delete is not an update: outside the statement) *)
Definition delete_where_is_pk_only : bool := true.
