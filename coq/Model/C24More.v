(* C24 - further pieces of the model: random(), Oracle's ROWNUM form of LIMIT/OFFSET, and the INTENDED (list) semantics of a query
   that iterates over a limited subquery, to compare with what process_query_qual does (nest, Model/C24Query.v).  Definitions only. *)
Require Import PonyV.Base.PyBase PonyV.Base.Seg PonyV.Gen.C24Window PonyV.Model.C24Query.

Section More.
Context {A : Type}.
Variable eqb : A -> A -> bool.

(* random(n): `query.order_by('random()')[:n]`; rk is the value random() takes on each row in this execution *)
Definition q_random (rk : A -> Z) (n : Z) (q : query) : list A :=
  ok_list (q_getitem eqb (add_order [rk] q) None (Some n)).

(* What `select(x for x in q.limit(l, o))` MEANS: a query over the rows of that window of list(q), in that order.  The outer query
   has its own DISTINCT rule (outer_tdistinct: automatic DISTINCT of its projection), no conditions, no order, no window yet. *)
Definition intended_nest (outer_tdistinct : bool) (q : query) (w : window) : query :=
  {| q_rows := fetch eqb q w; q_keep := fun _ => true; q_order := []; q_tdistinct := outer_tdistinct;
     q_distinct := None; q_window := no_window |}.

(* a window that keeps every row, or no row at all: the two cases in which merging it into the outer query is harmless *)
Definition transparent (w : window) : bool :=
  match w with (None, None) => true | (None, Some o) => o =? 0 | _ => false end.
Definition empty_window (w : window) : bool := match fst w with Some l => l =? 0 | None => false end.

End More.

(* Oracle: OraBuilder.SELECT turns the LIMIT section (limit, offset) into nested selects on ROWNUM:
   `if limit is None and not offset: <nothing>  elif not offset: ROWNUM <= limit  else: [ROWNUM <= limit + offset] and "row-num" > offset` *)
Inductive ora_shape := OraPlain | OraLe (n : Z) | OraWin (le : option Z) (gt : Z).
Definition falsy (x : option Z) : bool := match x with None => true | Some v => v =? 0 end.
Definition ora_select (sec : option (option Z * option Z)) : ora_shape :=
  match sec with
  | None => OraPlain
  | Some (l, o) =>
      if (match l with None => true | Some _ => false end) && falsy o then OraPlain
      else if falsy o then OraLe (match l with Some v => v | None => 0 end)
      else match o with
           | Some ov => OraWin (match l with Some lv => Some (lv + ov) | None => None end) ov
           | None => OraPlain
           end
  end.
(* ROWNUM numbers the rows of the (ordered) inner select 1, 2, ...; "row-num" is that number kept as a column *)
Definition ora_sem {A} (s : ora_shape) (R : list A) : list A :=
  match s with
  | OraPlain => R
  | OraLe n => firstn (Z.to_nat n) R
  | OraWin None gt => skipn (Z.to_nat gt) R
  | OraWin (Some le) gt => skipn (Z.to_nat gt) (firstn (Z.to_nat le) R)
  end.
(* the section Oracle's builder receives: construct_sql_ast leaves an omitted limit as None for it, as for PostgreSQL *)
Definition ora_section (w : window) : option (option Z * option Z) := limit_section DPostgreSQL w.

Definition ora_shape_eqb (a b : ora_shape) : bool :=
  match a, b with
  | OraPlain, OraPlain => true
  | OraLe x, OraLe y => x =? y
  | OraWin l1 g1, OraWin l2 g2 => oz_eqb l1 l2 && (g1 =? g2)
  | _, _ => false
  end.
