(* C04 - a model of Python's expression grammar as a parser over the token lists of Model/C04Expr.v.
   Recursive descent with precedence climbing, driven by the same level tables (prec / req) from which `ref_needs`
   is derived; fuel bounds the recursion depth (a token list of length n needs at most about n+1).
   This is REFERENCE SEMANTICS (hand-written): every run compares its result with CPython's `ast.parse` on the text of
   the same tokens, also on wrongly parenthesised output of the real printer.  Definitions only, no proofs.

   parse_e f lvl ts   one expression whose level is at least lvl, as far as it goes; returns the tree and the rest
   climb f lvl lhs ts continue after a complete operand: trailers, infix operators of level >= lvl, `if ... else`  *)
From Coq Require Import ZArith List Bool Arith.
Import ListNotations.
Require Import PonyV.Model.C04Expr.

Definition opt_list {A} (o : option A) : list A := match o with Some a => [a] | None => [] end.
Definition is_some {A} (o : option A) : bool := match o with Some _ => true | None => false end.

Definition mkslice (lo hi st : option expr) : expr :=
  Node (LSlice (is_some lo) (is_some hi) (is_some st)) (opt_list lo ++ opt_list hi ++ opt_list st).

(* tokens after which the upper bound of a slice is absent *)
Definition slice_stop (t : tok) : bool := match t with TColon | TComma | TTrail | TRB => true | _ => false end.

(* a parenthesised tuple standing alone between the brackets of a subscript is the index tuple itself (x[(a, b)] is x[a, b]) *)
Definition idx_norm (a : expr) : expr := match a with Node (LOp KTuple) cs => Node (LOp KIdxTuple) cs | _ => a end.

(* the rest of a slice: after the upper bound (optional `:step`), and after the first colon (optional upper bound);
   pe is the expression parser with the fuel of the caller *)
Definition slice_after_upper (pe : nat -> list tok -> option (expr * list tok)) (lo hi : option expr) (r2 : list tok)
  : option (expr * list tok) :=
  match r2 with
  | TColon :: r3 =>
      match pe (req KSlice 0) r3 with
      | Some (s, r4) => Some (mkslice lo hi (Some s), r4)
      | None => None
      end
  | _ => Some (mkslice lo hi None, r2)
  end.

Definition slice_after_lower (pe : nat -> list tok -> option (expr * list tok)) (lo : option expr) (r : list tok)
  : option (expr * list tok) :=
  match r with
  | t :: _ =>
      if slice_stop t then slice_after_upper pe lo None r
      else match pe (req KSlice 0) r with
           | Some (u, r2) => slice_after_upper pe lo (Some u) r2
           | None => None
           end
  | [] => None
  end.

Fixpoint parse_e (f lvl : nat) (ts : list tok) {struct f} : option (expr * list tok) :=
  match f with O => None | S f' =>
    match ts with
    | TName s :: r => climb f' lvl (Node (LName s) []) r
    | TConst s :: r => climb f' lvl (Node (LConst s) []) r
    | TUn k :: r =>
        if is_unary k && (lvl <=? prec k) then
          match parse_e f' (req k 0) r with
          | Some (a, r') => climb f' lvl (Node (LOp k) [a]) r'
          | None => None
          end
        else None
    | TLambda args :: r =>
        if lvl <=? prec KLambda then
          match parse_e f' (req KLambda 0) r with
          | Some (b, r') => climb f' lvl (Node (LLambda args) [b]) r'
          | None => None
          end
        else None
    | TLP :: TRP :: r => climb f' lvl (Node (LOp KTuple) []) r
    | TLP :: r =>
        match parse_elt f' r with
        | Some (a, TRP :: r') => if expr_kindb (ekind a) then climb f' lvl a r' else None       (* a parenthesised group *)
        | Some (a, TTrail :: TRP :: r') => climb f' lvl (Node (LOp KTuple) [a]) r'
        | Some (a, TComma :: r1) =>
            match parse_elts f' r1 with
            | Some (more, TRP :: r') => climb f' lvl (Node (LOp KTuple) (a :: more)) r'
            | _ => None
            end
        | _ => None
        end
    | TLB :: TRB :: r => climb f' lvl (Node (LOp KList) []) r
    | TLB :: r =>
        match parse_elts f' r with
        | Some (es, TRB :: r') => climb f' lvl (Node (LOp KList) es) r'
        | _ => None
        end
    | TFBegin :: TFLit l0 :: r =>
        match parse_fparts f' r with
        | Some (ls, fs, r') => climb f' lvl (Node (LJoined (l0 :: ls)) fs) r'
        | None => None
        end
    | _ => None
    end
  end

with climb (f lvl : nat) (lhs : expr) (ts : list tok) {struct f} : option (expr * list tok) :=
  match f with O => None | S f' =>
    match ts with
    | TDot n :: r => climb f' lvl (Node (LAttribute n) [lhs]) r
    | TLP :: r =>
        match parse_args f' r with
        | Some (args, r') => climb f' lvl (Node (LOp KCall) (lhs :: args)) r'
        | None => None
        end
    | TLB :: r =>
        match parse_index f' r with
        | Some (ix, r') => climb f' lvl (Node (LOp KSubscript) [lhs; ix]) r'
        | None => None
        end
    | TBin k :: r =>
        if is_binary k && (lvl <=? prec k) then
          match parse_e f' (req k 1) r with
          | Some (b, r') => climb f' lvl (Node (LOp k) [lhs; b]) r'
          | None => None
          end
        else Some (lhs, ts)
    | TBool k :: _ =>
        if is_bool k && (lvl <=? prec k) then
          match bool_chain f' k ts with
          | Some (more, r2) => climb f' lvl (Node (LOp k) (lhs :: more)) r2
          | None => None
          end
        else Some (lhs, ts)
    | TCmp _ :: _ =>
        if lvl <=? prec KCompare then
          match cmp_chain f' ts with
          | Some (ops, more, r2) => climb f' lvl (Node (LCompare ops) (lhs :: more)) r2
          | None => None
          end
        else Some (lhs, ts)
    | TIf :: r =>
        if lvl <=? prec KIfExp then
          match parse_e f' (req KIfExp 1) r with
          | Some (t, TElse :: r1) =>
              match parse_e f' (req KIfExp 2) r1 with
              | Some (e, r2) => climb f' lvl (Node (LOp KIfExp) [lhs; t; e]) r2
              | None => None
              end
          | _ => None
          end
        else Some (lhs, ts)
    | _ => Some (lhs, ts)
    end
  end

(* the operands after the first of `a or b or ...` / `a and b and ...`, each preceded by the operator *)
with bool_chain (f : nat) (k : kind) (ts : list tok) {struct f} : option (list expr * list tok) :=
  match f with O => None | S f' =>
    match ts with
    | TBool k' :: r =>
        if kind_eqb k k' then
          match parse_e f' (req k 0) r with
          | Some (b, r1) =>
              match bool_chain f' k r1 with
              | Some (more, r2) => Some (b :: more, r2)
              | None => None
              end
          | None => None
          end
        else Some ([], ts)
    | _ => Some ([], ts)
    end
  end

(* the links `op operand` of a comparison chain *)
with cmp_chain (f : nat) (ts : list tok) {struct f} : option (list cmpop * list expr * list tok) :=
  match f with O => None | S f' =>
    match ts with
    | TCmp o :: r =>
        match parse_e f' (req KCompare 0) r with
        | Some (b, r1) =>
            match cmp_chain f' r1 with
            | Some (ops, more, r2) => Some (o :: ops, b :: more, r2)
            | None => None
            end
        | None => None
        end
    | _ => Some ([], [], ts)
    end
  end

(* element of a list / tuple display *)
with parse_elt (f : nat) (ts : list tok) {struct f} : option (expr * list tok) :=
  match f with O => None | S f' =>
    match ts with
    | TStar :: r =>
        match parse_e f' (req KStarElt 0) r with
        | Some (v, r') => Some (Node (LOp KStarElt) [v], r')
        | None => None
        end
    | _ => parse_e f' (req KTuple 0) ts
    end
  end

(* one or more elements separated by commas *)
with parse_elts (f : nat) (ts : list tok) {struct f} : option (list expr * list tok) :=
  match f with O => None | S f' =>
    match parse_elt f' ts with
    | Some (a, TComma :: r1) =>
        match parse_elts f' r1 with
        | Some (more, r) => Some (a :: more, r)
        | None => None
        end
    | Some (a, r) => Some ([a], r)
    | None => None
    end
  end

(* call argument *)
with parse_arg (f : nat) (ts : list tok) {struct f} : option (expr * list tok) :=
  match f with O => None | S f' =>
    match ts with
    | TStar :: r =>
        match parse_e f' (req KStarArg 0) r with
        | Some (v, r') => Some (Node (LOp KStarArg) [v], r')
        | None => None
        end
    | TDStar :: r =>
        match parse_e f' (req KKeyword 0) r with
        | Some (v, r') => Some (Node (LKeyword None) [v], r')
        | None => None
        end
    | TKw n :: r =>
        match parse_e f' (req KKeyword 0) r with
        | Some (v, r') => Some (Node (LKeyword (Some n)) [v], r')
        | None => None
        end
    | _ => parse_e f' (req KCall 1) ts
    end
  end

(* arguments after the `(` of a call, up to and including `)` *)
with parse_args (f : nat) (ts : list tok) {struct f} : option (list expr * list tok) :=
  match f with O => None | S f' =>
    match ts with
    | TRP :: r => Some ([], r)
    | _ =>
        match parse_arg f' ts with
        | Some (a, TRP :: r) => Some ([a], r)
        | Some (a, TComma :: r1) =>
            match parse_args f' r1 with
            | Some (more, r) => Some (a :: more, r)
            | None => None
            end
        | _ => None
        end
    end
  end

(* one item inside `[...]` of a subscript: an expression or a slice lower:upper:step *)
with parse_sitem (f : nat) (ts : list tok) {struct f} : option (expr * list tok) :=
  match f with O => None | S f' =>
    match ts with
    | TColon :: r => slice_after_lower (parse_e f') None r
    | _ =>
        match parse_e f' (req KSubscript 1) ts with
        | Some (a, TColon :: r) => slice_after_lower (parse_e f') (Some a) r
        | Some (a, r) => Some (a, r)
        | None => None
        end
    end
  end

with parse_sitems (f : nat) (ts : list tok) {struct f} : option (list expr * list tok) :=
  match f with O => None | S f' =>
    match parse_sitem f' ts with
    | Some (a, TComma :: r1) =>
        match parse_sitems f' r1 with
        | Some (more, r) => Some (a :: more, r)
        | None => None
        end
    | Some (a, r) => Some ([a], r)
    | None => None
    end
  end

(* the index after the `[` of a subscript, up to and including `]` *)
with parse_index (f : nat) (ts : list tok) {struct f} : option (expr * list tok) :=
  match f with O => None | S f' =>
    match parse_sitem f' ts with
    | Some (a, TRB :: r) => Some (idx_norm a, r)
    | Some (a, TTrail :: TRB :: r) => Some (Node (LOp KIdxTuple) [a], r)
    | Some (a, TComma :: r1) =>
        match parse_sitems f' r1 with
        | Some (more, TRB :: r) => Some (Node (LOp KIdxTuple) (a :: more), r)
        | _ => None
        end
    | _ => None
    end
  end

(* replacement fields and literal segments of an f-string after the first literal, up to and including the end *)
with parse_fparts (f : nat) (ts : list tok) {struct f} : option (list str * list expr * list tok) :=
  match f with O => None | S f' =>
    match ts with
    | TFEnd :: r => Some ([], [], r)
    | TFOpen :: r =>
        match parse_e f' (req KFormatted 0) r with
        | Some (v, TFClose conv spec :: TFLit l :: r1) =>
            match parse_fparts f' r1 with
            | Some (ls, fs, r2) => Some (l :: ls, Node (LFormatted conv spec) [v] :: fs, r2)
            | None => None
            end
        | _ => None
        end
    | _ => None
    end
  end.

(* a whole token list as one expression *)
Definition parse_top (f : nat) (ts : list tok) : option expr :=
  match parse_e f 0 ts with Some (e, []) => Some e | _ => None end.

(* generous fuel for evaluation *)
Definition parse_auto (ts : list tok) : option expr := parse_top (4 + 2 * length ts) ts.
