(* C18 - executable model of pony.orm.core.DBSessionContextManager (definitions only, no proofs).

   Anchors (pony/orm/core.py): _enter, __exit__, _commit_or_rollback, _wrap_function (retry loop),
   _wrap_coroutine_or_generator_function (wrapped_interact), commit(), rollback();
   pony/flask/__init__.py (_enter_session/_exit_session); pony/orm/integration/bottle_plugin.py.

   What a body does is data: it writes marker rows (a `poisoned` write makes the flush inside commit() raise `cfail`)
   and then finishes or raises.  The database is abstracted to: the list of pending (uncommitted) writes of the
   thread's session cache and the list of committed markers.  Every call of core.commit()/core.rollback() is
   recorded in the trace with the number of writes that were pending, so that the trace is comparable with the
   real implementation (the harness wraps core.commit / core.rollback and counts cache.objects_to_save). *)
From Coq Require Import List Bool Arith.
Import ListNotations.

Inductive event :=
| EBegin                       (* outermost _enter: local.db_session is set *)
| ERun (i npend d : nat)       (* body of attempt / leaf i starts; npend = writes pending, d = db_context_counter then *)
| ECommit (n : nat)            (* core.commit() returned normally, n writes were pending *)
| ECommitFail (n : nat)        (* core.commit() raised (after having rolled back) *)
| ERollback (n : nat).         (* core.rollback() called, n writes were pending *)

Record st := mkst { depth : nat;                  (* local.db_context_counter *)
                    pend : list (nat * bool);     (* pending writes (marker, poisoned) *)
                    comm : list nat;              (* committed markers, in commit order *)
                    tr : list event }.

Definition st0 : st := mkst 0 [] [] [].

Definition emit (ev : event) (x : st) : st := mkst (depth x) (pend x) (comm x) (tr x ++ [ev]).
Definition set_depth (d : nat) (x : st) : st := mkst d (pend x) (comm x) (tr x).
Definition poisoned (x : st) : bool := existsb snd (pend x).

(* core.rollback() *)
Definition do_rollback (x : st) : st :=
  mkst (depth x) [] (comm x) (tr x ++ [ERollback (length (pend x))]).

Section Session.
Variable exc : Type.
Variable should_retry : exc -> bool.     (* getattr(exc, 'should_retry', False) *)
Variable cfail : exc.                    (* what a failing flush-at-commit raises *)
Variable is_exception : exc -> bool.     (* isinstance(e, Exception); false for SystemExit, KeyboardInterrupt, GeneratorExit and user
                                            classes derived directly from BaseException.  `exc` ranges over ALL BaseExceptions: the wrapper's
                                            handlers are bare `except:` clauses, so nothing in enter/exit_/loop/ginteract depends on this
                                            predicate - only user code that says `except Exception` does (PTry) *)

Inductive outcome := Ok | Raise (e : exc).

(* db_session options that take part in the decision (immediate/strict/serializable/optimistic/sql_debug do not) *)
Record sess := mksess { s_retry : nat; s_allowed : exc -> bool; s_retryable : exc -> bool }.

Definition do_retry (s : sess) (e : exc) : bool := should_retry e || s_retryable s e.

(* core.commit(): flush all caches; a failing flush goes through rollback_and_reraise *)
Definition do_commit (x : st) : st * outcome :=
  if poisoned x then (emit (ECommitFail (length (pend x))) (do_rollback x), Raise cfail)
  else (mkst (depth x) [] (comm x ++ map fst (pend x)) (tr x ++ [ECommit (length (pend x))]), Ok).

(* DBSessionContextManager._enter *)
Definition enter (x : st) : st :=
  if depth x =? 0 then emit EBegin (set_depth 1 x) else set_depth (S (depth x)) x.

(* DBSessionContextManager._commit_or_rollback(exc_type, exc, tb); the result is the exception it raises itself *)
Definition can_commit (s : sess) (o : outcome) : bool :=
  match o with Ok => true | Raise e => s_allowed s e end.
Definition commit_or_rollback (s : sess) (o : outcome) (x : st) : st * outcome :=
  if can_commit s o then do_commit x else (do_rollback x, Ok).

(* DBSessionContextManager.__exit__(exc_type, exc, tb) *)
Definition exit_ (s : sess) (o : outcome) (x : st) : st * outcome :=
  let x' := set_depth (pred (depth x)) x in
  if depth x' =? 0 then commit_or_rollback s o x' else (x', Ok).

(* __exit__ returns None: the body's exception propagates unless __exit__ itself raised *)
Definition after_exit (o oe : outcome) : outcome := match oe with Raise e' => Raise e' | Ok => o end.

Definition body := st -> st * outcome.

(* with db_session(...): b *)
Definition run_with (s : sess) (b : body) (x : st) : st * outcome :=
  let x1 := enter x in
  let '(x2, o) := b x1 in
  let '(x3, oe) := exit_ s o x2 in
  (x3, after_exit o oe).

(* the retry loop of _wrap_function.new_func; n = iterations left, i = index of this attempt,
   last = (exc_type, exc, tb) as left by the previous iteration (re-raised after the loop) *)
Fixpoint loop (s : sess) (k : nat -> body) (i n : nat) (last : outcome) (x : st) : st * outcome :=
  match n with
  | 0 => (x, last)
  | S n' =>
    let x1 := enter x in
    let '(x2, o) := k i x1 in
    let '(x3, o3) := match o with Ok => do_commit x2 | Raise e => (x2, Raise e) end in
    match o3 with
    | Ok => exit_ s Ok x3                           (* return result; finally: __exit__(None, None, None) *)
    | Raise e =>
      if do_retry s e then
        let x4 := do_rollback x3 in
        let '(x5, oe) := exit_ s (Raise e) x4 in    (* finally: __exit__(exc_type, exc, tb) *)
        match oe with
        | Raise e' => (x5, Raise e')
        | Ok => loop s k (S i) n' (Raise e) x5
        end
      else
        let '(x5, oe) := exit_ s (Raise e) x3 in    (* raise; finally: __exit__(exc_type, exc, tb) *)
        (x5, after_exit (Raise e) oe)
    end
  end.

(* calling a @db_session(...)-decorated function: inside a live session the function is called directly *)
Definition call (s : sess) (k : nat -> body) (x : st) : st * outcome :=
  if depth x =? 0 then loop s k 0 (S (s_retry s)) Ok x else k 0 x.

(* a leaf body: note the pending count, write marker i, finish with o *)
Definition leaf (i : nat) (poison : bool) (o : outcome) : body :=
  fun x => (mkst (depth x) (pend x ++ [(i, poison)]) (comm x) (tr x ++ [ERun i (length (pend x)) (depth x)]), o).

(* attempt i of a decorated function behaves as the i-th element of an outcome stream *)
Definition stream_body (str : list (bool * outcome)) : nat -> body :=
  fun i => let '(p, o) := nth i str (false, Ok) in leaf i p o.

Definition call_stream (s : sess) (str : list (bool * outcome)) : body := call s (stream_body str).

(* ---------------------------------------------------------------------------------------------
   structured programs: arbitrary nesting of sessions, decorated calls, sequencing and try/except *)
Inductive prog :=
| PLeaf (i : nat) (poison : bool) (o : outcome)
| PSeq (p q : prog)                 (* p; q   -- q runs only if p finished normally *)
| PTry (p : prog)                   (* try: p  except Exception: pass   (BaseException-only exceptions pass through) *)
| PWith (s : sess) (p : prog)       (* with db_session(...): p *)
| PCall (s : sess) (p : prog).      (* f() where f = db_session(...)(lambda: p) *)

(* try: ... except Exception: pass  -- a BaseException that is not an Exception goes through *)
Definition try_outcome (o : outcome) : outcome :=
  match o with Ok => Ok | Raise e => if is_exception e then Ok else Raise e end.

Fixpoint run (p : prog) : body :=
  match p with
  | PLeaf i b o => leaf i b o
  | PSeq p q => fun x => let '(x1, o) := run p x in match o with Ok => run q x1 | Raise e => (x1, Raise e) end
  | PTry p => fun x => let '(x1, o) := run p x in (x1, try_outcome o)
  | PWith s p => run_with s (run p)
  | PCall s p => call s (fun _ => run p)
  end.

(* writes made by p (marker, poisoned) when it is executed once inside a live session, and how it ends *)
Fixpoint writes (p : prog) : list (nat * bool) * outcome :=
  match p with
  | PLeaf i b o => ([(i, b)], o)
  | PSeq p q => let '(w, o) := writes p in
                match o with Ok => let '(w', o') := writes q in (w ++ w', o') | Raise e => (w, Raise e) end
  | PTry p => (fst (writes p), try_outcome (snd (writes p)))
  | PWith _ p => writes p
  | PCall _ p => writes p
  end.

(* ---------------------------------------------------------------------------------------------
   generator sessions: _wrap_coroutine_or_generator_function.wrapped_interact, one call per resumption *)
Inductive gop :=
| GWrite (i : nat) (poison : bool)
| GFlush          (* flush() or a query that auto-flushes: pending writes go to the database inside the open transaction;
                     afterwards cache.modified is False but cache.in_transaction is True *)
| GCommit.        (* the generator may call commit() itself *)
Inductive gend := GYield | GStop | GRaise (e : exc).
Definition gstep := (list gop * gend)%type.

Variable must_commit : exc.    (* TransactionError('You need to manually commit() changes before suspending the generator') *)

(* core.commit() when the open transaction already holds the flushed writes fl *)
Definition g_commit (fl : list nat) (x : st) : st * outcome :=
  if poisoned x then (emit (ECommitFail (length (pend x))) (do_rollback x), Raise cfail)
  else (mkst (depth x) [] (comm x ++ fl ++ map fst (pend x)) (tr x ++ [ECommit (length (pend x))]), Ok).

(* the body of the generator between two suspension points; fl = writes flushed into the still open transaction.
   A failing flush / manual commit() raises inside the generator *)
Fixpoint gops (ops : list gop) (x : st) (fl : list nat) : st * list nat * outcome :=
  match ops with
  | [] => (x, fl, Ok)
  | GWrite i b :: r => gops r (mkst (depth x) (pend x ++ [(i, b)]) (comm x) (tr x ++ [ERun i (length (pend x)) (depth x)])) fl
  | GFlush :: r => if poisoned x then (x, fl, Raise cfail)
                   else gops r (mkst (depth x) [] (comm x) (tr x)) (fl ++ map fst (pend x))
  | GCommit :: r => let '(x1, o) := g_commit fl x in match o with Ok => gops r x1 [] | Raise e => (x1, [], Raise e) end
  end.

(* `cache.modified or cache.in_transaction`: unflushed writes, or an open transaction holding flushed ones *)
Definition g_dirty (x : st) (fl : list nat) : bool :=
  match pend x, fl with [], [] => false | _, _ => true end.

(* the result says whether the generator is finished (Some outcome) or suspended (None) *)
Definition ginteract (stp : gstep) (x : st) : st * option outcome :=
  let x0 := emit EBegin (set_depth 1 x) in
  let '(x1, fl, o) := gops (fst stp) x0 [] in
  let fin (y : st) := set_depth 0 y in
  match o with
  | Raise e => (fin (do_rollback x1), Some (Raise e))                 (* except: rollback_and_reraise *)
  | Ok =>
    match snd stp with
    | GRaise e => (fin (do_rollback x1), Some (Raise e))
    | GStop => let '(x2, oc) := g_commit fl x1 in                      (* except StopIteration: commit(); release *)
               match oc with
               | Ok => (fin (do_rollback x2), Some Ok)                 (* raise e -> except: rollback (nothing left) *)
               | Raise e => (fin (do_rollback x2), Some (Raise e))
               end
    | GYield => if g_dirty x1 fl
                then (fin (do_rollback x1), Some (Raise must_commit))  (* refuses to suspend: the open transaction is rolled back *)
                else (fin x1, None)
    end
  end.

(* the consumer resumes the generator until it ends; steps after the end are never run *)
Fixpoint grun (steps : list gstep) (x : st) : st * option outcome :=
  match steps with
  | [] => (x, None)                      (* consumer stopped resuming; generator left suspended *)
  | stp :: r => let '(x1, res) := ginteract stp x in
                match res with None => grun r x1 | Some o => (x1, Some o) end
  end.

(* the consumer drops a suspended generator: close() throws GeneratorExit into new_gen_func, wrapped_interact closes the
   inner generator, rolls back (nothing is pending at a suspension point) and re-raises GeneratorExit *)
Definition gclose (x : st) : st := set_depth 0 (do_rollback (emit EBegin (set_depth 1 x))).
Definition grun_closed (steps : list gstep) (x : st) : st * option outcome :=
  let '(x1, res) := grun steps x in
  match res, steps with
  | None, _ :: _ => (gclose x1, None)
  | _, _ => (x1, res)
  end.

(* ---------------------------------------------------------------------------------------------
   web integrations *)

(* pony.flask: before_request -> session.__enter__(); teardown_request(exception) -> session.__exit__(...).
   `passes_exc_type` says whether _exit_session hands the exception's type to __exit__ (derived from the source
   on every run, Gen/C18Web.v). The session is the global db_session: nothing allowed. *)
Definition flask_sess : sess := mksess 0 (fun _ => false) (fun _ => false).
Definition flask_request (passes_exc_type : bool) (view : body) (x : st) : st * outcome :=
  let x1 := enter x in
  let '(x2, o) := view x1 in
  let seen := if passes_exc_type then o else Ok in
  let '(x3, oe) := exit_ flask_sess seen x2 in
  (x3, after_exit o oe).

(* bottle: PonyPlugin.apply = db_session(allowed_exceptions=is_allowed_exception)(callback) *)
Definition bottle_sess (is_allowed : exc -> bool) (is_transaction_error : exc -> bool) : sess :=
  mksess 0 is_allowed is_transaction_error.
Definition bottle_request (is_allowed is_te : exc -> bool) (p : bool) (o : outcome) : body :=
  call (bottle_sess is_allowed is_te) (fun _ => leaf 0 p o).

End Session.

Arguments Ok {exc}.
Arguments Raise {exc} e.
Arguments GYield {exc}.
Arguments GStop {exc}.
Arguments GRaise {exc} e.
