(* C07: bit-exact model of SQLite's timedelta storage.  SQLiteTimedeltaConverter.py2sql computes the double
       val.days + (val.seconds + val.microseconds / 1000000.0) / 86400.0
   SQLite stores the 8 bytes; sql2py is datetime.timedelta(days=x), i.e. CPython's delta_new/accum on a float:
   integral days, then trunc and round-half-even of 86400e6 * fractional part.  Modelled with Coq's primitive floats and
   63-bit integers (no Floats library, no axioms of mine); valid while |total microseconds| < 2^62 (about 53 million days).
   Definitions only.  The source text of both methods is pinned by tools/py2coq/codecs.py; every function here is compared
   bit for bit with CPython on every run. *)
From Coq Require Import ZArith List Bool PrimFloat Uint63.

Module F.
Local Open Scope uint63_scope.
(* trunc of a finite float 0 <= x < 2^62 as a native integer *)
Definition trunc (x : float) : int :=
  if PrimFloat.ltb x 1%float then 0 else
  let (fr, e) := PrimFloat.frshiftexp x in          (* x = fr * 2^(e - 2101), 1/2 <= fr < 1 *)
  let mant := PrimFloat.normfr_mantissa fr in        (* fr * 2^53 *)
  let ex := e - 2101 in
  if ex <=? 53 then mant >> (53 - ex) else mant << (ex - 53).
End F.

Definition us_day_i : int := 86400000000%uint63.
Definition f1e6 : float := Eval vm_compute in PrimFloat.of_uint63 1000000%uint63.
Definition f86400 : float := Eval vm_compute in PrimFloat.of_uint63 86400%uint63.
Definition fusday : float := Eval vm_compute in PrimFloat.of_uint63 86400000000%uint63.
Definition fhalf : float := Eval vm_compute in PrimFloat.div 1%float 2%float.

(* py2sql of a normalised timedelta with days = +-k (neg: days = -k), seconds, microseconds *)
Definition td_py2sql (neg : bool) (k secs us : int) : float :=
  let d := PrimFloat.of_uint63 k in
  PrimFloat.add (if neg then PrimFloat.opp d else d)
                (PrimFloat.div (PrimFloat.add (PrimFloat.of_uint63 secs) (PrimFloat.div (PrimFloat.of_uint63 us) f1e6)) f86400).

(* timedelta(days=x): (negative?, |total microseconds|) *)
Definition td_of_float_days (x : float) : bool * int :=
  let neg := PrimFloat.ltb x 0%float in
  let m := PrimFloat.abs x in
  let i := F.trunc m in
  let frac := PrimFloat.sub m (PrimFloat.of_uint63 i) in
  let sum := Uint63.mul i us_day_i in
  if PrimFloat.eqb frac 0%float then (neg, sum) else
  let d := PrimFloat.mul fusday frac in
  let i2 := F.trunc d in
  let left := PrimFloat.sub d (PrimFloat.of_uint63 i2) in
  let sum := Uint63.add sum i2 in
  if PrimFloat.eqb left 0%float then (neg, sum) else
  let r := if PrimFloat.ltb left fhalf then 0%uint63 else if PrimFloat.ltb fhalf left then 1%uint63
           else (if Uint63.eqb (Uint63.land sum 1) 1 then 1%uint63 else 0%uint63) in
  (neg, Uint63.add sum r).

(* |total microseconds| of the normalised timedelta (days = +-k, secs, us) *)
Definition td_total_mag (neg : bool) (k secs us : int) : int :=
  let frac := Uint63.add (Uint63.mul secs 1000000) us in
  if neg then Uint63.sub (Uint63.mul k us_day_i) frac else Uint63.add (Uint63.mul k us_day_i) frac.

(* does a new session read exactly the stored timedelta? *)
Definition td_float_exact (neg : bool) (k secs us : int) : bool :=
  let (n, t) := td_of_float_days (td_py2sql neg k secs us) in
  let want := td_total_mag neg k secs us in
  Uint63.eqb t want && (Bool.eqb n neg || Uint63.eqb want 0).

(* ---- enumeration of finite domains ------------------------------------------------------------------------------------------ *)
Fixpoint forall_from (n : nat) (s : int) (f : int -> bool) : bool :=
  match n with O => true | S k => f s && forall_from k (Uint63.add s 1) f end.
Definition n86400 : nat := Z.to_nat 86400.
Definition n1000000 : nat := Z.to_nat 1000000.
(* every whole-second timedelta with 0 <= days < D, and with -D <= days <= -1 *)
Definition whole_seconds_exact (D : nat) : bool :=
  forall_from D 0%uint63 (fun d => forall_from n86400 0%uint63 (fun s => td_float_exact false d s 0%uint63))
  && forall_from D 1%uint63 (fun d => forall_from n86400 0%uint63 (fun s => td_float_exact true d s 0%uint63)).
(* every microsecond value within one given second *)
Definition microseconds_exact (neg : bool) (k secs : int) : bool :=
  forall_from n1000000 0%uint63 (fun u => td_float_exact neg k secs u).

(* ---- correspondence checkers: bit patterns as (mantissa, shifted exponent) ---------------------------------------------- *)
Definition fbits (x : float) : int * int :=
  if PrimFloat.eqb x 0%float then (0%uint63, 0%uint63) else
  let (fr, e) := PrimFloat.frshiftexp (PrimFloat.abs x) in (PrimFloat.normfr_mantissa fr, e).
Definition chk_td_float (neg : bool) (k secs us : int) (xneg : bool) (mant ex : int) (rneg : bool) (rtotal : int) : bool :=
  let x := td_py2sql neg k secs us in
  let (m, e) := fbits x in
  Uint63.eqb m mant && Uint63.eqb e ex && Bool.eqb (PrimFloat.ltb x 0%float) xneg
  && (let (n, t) := td_of_float_days x in Uint63.eqb t rtotal && (Bool.eqb n rneg || Uint63.eqb rtotal 0)).

(* ---- the closed statements proved in Proofs/C07Float.v / C07FloatSweep.v (named here so that Props/Findings need no number notations) *)
(* every whole-second timedelta with -3 <= days < 3 (518,400 values) / -30 <= days < 30 (5,184,000 values) is read back exactly *)
Definition exact_whole_seconds_3 : bool := whole_seconds_exact 3.
Definition exact_whole_seconds_30 : bool := whole_seconds_exact 30.
(* every microsecond value (10^6 each) of: the first and the last second of day 0 *)
Definition exact_microseconds_day0 : bool := microseconds_exact false 0%uint63 0%uint63 && microseconds_exact false 0%uint63 86399%uint63.
(* ... and of the last second of day 29, of day 20000 (~54 years) and the first second of day -1 *)
Definition exact_microseconds_far : bool :=
  microseconds_exact false 29%uint63 86399%uint63 && microseconds_exact false 20000%uint63 86399%uint63 && microseconds_exact true 1%uint63 0%uint63.
(* timedelta(days=1000000, microseconds=1) and timedelta(days=77680, seconds=35904, microseconds=138270) *)
Definition exact_1e6_days_1us : bool := td_float_exact false 1000000%uint63 0%uint63 1%uint63.
Definition exact_77680_days : bool := td_float_exact false 77680%uint63 35904%uint63 138270%uint63.
