(* C03 - the dual family of nesting depth 3 (Proofs/C03Roundtrip3Dual.v): an `and` of clauses; a clause is an `or` of
   disjuncts (or a single literal); a disjunct is a literal or an `and`-group of literals.  Definitions only. *)
From Coq Require Import List Bool Arith.
Import ListNotations.
Require Import PonyV.Model.C03Bexp PonyV.Model.C03Decomp PonyV.Model.C03Family.

Definition mk_cl3 (ds : list (list lit)) : bexp := mk_or_of (map mk_and ds).          (* = dnf ds *)
Definition cnf3 (cls : list (list (list lit))) : bexp := mk_and_of (map mk_cl3 cls).
(* well-formedness is wf3 of C03Family.v read the other way round: at least two clauses, no empty group, and a clause with a
   single disjunct is a literal (an `and` directly under the outer `and` is flattened by Python) *)

(* the stream: every clause is compiled like a filter of its own - the code of the DNF family whose "body" is the end of
   the clause *)
Fixpoint cnf3_code (cls : list (list (list lit))) (p : nat) : list instr :=
  match cls with
  | [] => []
  | ds :: r => dnf_code ds p (p + total_lits ds) ++ cnf3_code r (p + total_lits ds)
  end.
