(* C03 - the dual family of nesting depth 3 (Proofs/C03Roundtrip3Dual.v): an `and` of clauses; a clause is an `or` of
   disjuncts (or a single literal); a disjunct is a literal or an `and`-group of literals.  Definitions only. *)
From Coq Require Import List Bool Arith.
Import ListNotations.
Require Import PonyV.Model.C03Bexp PonyV.Model.C03Decomp PonyV.Model.C03Family.

Definition mk_cl3 (ds : list (list lit)) : bexp := mk_or_of (map mk_and ds).          (* = dnf ds *)
Definition cnf3 (cls : list (list (list lit))) : bexp := mk_and_of (map mk_cl3 cls).
(* well-formedness is wf3 of C03Family.v read the other way round: at least two clauses, no empty group, and a clause with a
   single disjunct is a literal (an `and` directly under the outer `and` is flattened by Python) *)

(* the stream: every clause is compiled like a filter of its own - the code of the DNF family whose "body" is the end of
   the clause *)
Fixpoint cnf3_code (cls : list (list (list lit))) (p : nat) : list instr :=
  match cls with
  | [] => []
  | ds :: r => dnf_code ds p (p + total_lits ds) ++ cnf3_code r (p + total_lits ds)
  end.

(* ------------------------------------------------------------------------------------------------
   The class of the depth-3 theorems as a predicate on expressions (Proofs/C03Roundtrip3All.v): alternating and/or nestings
   over literals.  `alt_depth o d e`: e is a literal, or (d > 0 and) e is an `or` (o = true) resp. `and` (o = false) of at
   least two operands each of which is `alt_depth (negb o) (d - 1)`.  (A group directly under a group of the same kind -
   `a and (b and c)`, which Python keeps as a nested BoolOp - is not in the class.) *)
Definition litb (e : bexp) : bool :=
  match e with
  | Atom _ => true
  | Not (Atom _) => true
  | Cmp _ (Atom _) (Atom _) => true
  | Not (Cmp _ (Atom _) (Atom _)) => true
  | IsNone _ (Atom _) => true
  | _ => false
  end.

Fixpoint alt_depth (o : bool) (d : nat) (e : bexp) : bool :=
  litb e ||
  match d with
  | O => false
  | S d' => match e with
            | And l => negb o && Nat.leb 2 (length l) && forallb (alt_depth (negb o) d') l
            | Or l => o && Nat.leb 2 (length l) && forallb (alt_depth (negb o) d') l
            | _ => false
            end
  end.
