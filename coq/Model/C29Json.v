(* C29 - model of the JSON / array query helpers.
     pony/orm/sqlbuilding.py      SQLBuilder.eval_json_path               -> json_path
     pony/orm/dbproviders/postgres.py  PGSQLBuilder.eval_json_path         -> pg_json_path
     pony/orm/dbproviders/sqlite.py    json_path_re / _parse_path          -> parse_path
                                       _traverse                           -> traverse
                                       py_json_contains / py_json_array_length / JSON_NONZERO
                                       py_array_index / py_array_slice     (Python list indexing on the decoded array)
     pony/orm/sqltranslation.py   ArrayMixin._index                        -> index_const / index_expr
   Strings are lists of code points.  Definitions only; proofs in Proofs/C29Proofs.v. *)
From Coq Require Import ZArith List Bool Lia.
Require Import PonyV.Base.PyBase PonyV.Base.Seg.
#[local] Open Scope Z_scope.

Definition str := list Z.

(* ------------------------------------------------------------------ values *)
Inductive jv : Type :=
| JNull | JBool (b : bool) | JInt (z : Z)
| JFloat (neg : bool) (ip : Z) (fp : list Z)      (* text  [-]<ip>.<fp> ; ip >= 0, fp = fraction digits (code points), not empty *)
| JStr (s : str)
| JList (l : list jv)
| JDict (d : list (str * jv)).

Inductive pkey := KIdx (i : Z) | KKey (k : str).

(* ------------------------------------------------------------------ characters *)
Definition c_dollar := 36. Definition c_dot := 46. Definition c_quote := 34. Definition c_bslash := 92.
Definition c_lbr := 91. Definition c_rbr := 93. Definition c_minus := 45. Definition c_lbrace := 123. Definition c_rbrace := 125.
Definition c_comma := 44. Definition c_us := 95.

Definition is_digit (c : Z) : bool := (48 <=? c) && (c <=? 57).
Definition is_alpha (c : Z) : bool := ((65 <=? c) && (c <=? 90)) || ((97 <=? c) && (c <=? 122)).

Section Word.
(* \w of Python's re on str patterns for characters beyond ASCII (letters / digits of any script): an oracle.
   For ASCII it is [A-Za-z0-9_]. *)
Variable uni_word : Z -> bool.
Definition is_word (c : Z) : bool := if c <? 128 then is_alpha c || is_digit c || (c =? c_us) else uni_word c.

(* pony.utils.is_ident :  ^[A-Za-z_]\w*\Z *)
Definition is_ident (s : str) : bool :=
  match s with
  | [] => false
  | c :: r => (is_alpha c || (c =? c_us)) && forallb is_word r
  end.

(* ------------------------------------------------------------------ decimal printing ('%d') *)
Fixpoint digits_fuel (fuel : nat) (n : Z) : str :=
  match fuel with
  | O => []
  | S f => if n <? 10 then [48 + n] else digits_fuel f (n / 10) ++ [48 + n mod 10]
  end.
Definition digits (n : Z) : str := digits_fuel (S (Z.to_nat n)) n.          (* n >= 0 *)
Definition fmt_d (n : Z) : str := if n <? 0 then c_minus :: digits (- n) else digits n.

(* value.replace(DQ, BACKSLASH DQ)   where DQ is the double quote character *)
Definition esc_quote (s : str) : str := flat_map (fun c => if c =? c_quote then [c_bslash; c_quote] else [c]) s.

(* SQLBuilder.eval_json_path (int and str items; wildcards are not modelled) *)
Definition path_item (k : pkey) : str :=
  match k with
  | KIdx i => c_lbr :: fmt_d i ++ [c_rbr]
  | KKey s => if is_ident s then c_dot :: s else c_dot :: c_quote :: esc_quote s ++ [c_quote]
  end.
Definition json_path (keys : list pkey) : str := c_dollar :: flat_map path_item keys.

(* PGSQLBuilder.eval_json_path :  '{%s}' % ','.join(...) *)
Definition pg_item (k : pkey) : str :=
  match k with
  | KIdx i => fmt_d i
  | KKey s => if is_ident s then s else c_quote :: esc_quote s ++ [c_quote]
  end.
Fixpoint join_comma (l : list str) : str :=
  match l with [] => [] | [x] => x | x :: r => x ++ c_comma :: join_comma r end.
Definition pg_json_path (keys : list pkey) : str := c_lbrace :: join_comma (map pg_item keys) ++ [c_rbrace].

(* ------------------------------------------------------------------ sqlite._parse_path
   json_path_re: an int in square brackets, or a dot followed by a word, or a dot followed by a DQ-quoted run of non-DQ characters;
   matched repeatedly from position 1; any other text -> None *)
Fixpoint span (p : Z -> bool) (s : str) : str * str :=
  match s with
  | [] => ([], [])
  | c :: r => if p c then let '(a, b) := span p r in (c :: a, b) else ([], s)
  end.

Definition horner (ds : str) : Z := fold_left (fun acc d => 10 * acc + (d - 48)) ds 0.

(* one regex match at the head of s: the key and the rest *)
Definition match_item (s : str) : option (pkey * str) :=
  match s with
  | c :: r =>
      if c =? c_lbr then
        let '(neg, r1) := match r with m :: r' => if m =? c_minus then (true, r') else (false, r) | [] => (false, r) end in
        let '(ds, r2) := span is_digit r1 in
        match ds, r2 with
        | _ :: _, e :: r3 => if e =? c_rbr then Some (KIdx (if neg then - horner ds else horner ds), r3) else None
        | _, _ => None
        end
      else if c =? c_dot then
        let '(w, r1) := span is_word r in
        match w with
        | _ :: _ => Some (KKey w, r1)
        | [] => match r with
                | q :: r' => if q =? c_quote then
                               let '(body, r2) := span (fun x => negb (x =? c_quote)) r' in
                               match r2 with _ :: r3 => Some (KKey body, r3) | [] => None end
                             else None
                | [] => None
                end
        end
      else None
  | [] => None
  end.

Fixpoint parse_items (fuel : nat) (s : str) : option (list pkey) :=
  match s with
  | [] => Some []
  | _ => match fuel with
         | O => None
         | S f => match match_item s with
                  | Some (k, rest) => match parse_items f rest with Some ks => Some (k :: ks) | None => None end
                  | None => None
                  end
         end
  end.

Definition parse_path (p : str) : option (list pkey) :=
  match p with
  | c :: r => if c =? c_dollar then parse_items (length r) r else None
  | [] => None
  end.
End Word.

(* ------------------------------------------------------------------ sqlite._traverse and Python indexing *)
Fixpoint str_eqb (a b : str) : bool :=
  match a, b with [], [] => true | x :: a', y :: b' => (x =? y) && str_eqb a' b' | _, _ => false end.

Fixpoint assoc (k : str) (d : list (str * jv)) : option jv :=
  match d with [] => None | (k', x) :: d' => if str_eqb k k' then Some x else assoc k d' end.

Definition list_get (l : list jv) (i : Z) : option jv :=
  let n := zlen l in
  if (i <? - n) || (n <=? i) then None else nth_error l (Z.to_nat (if i <? 0 then i + n else i)).

(* result of _traverse: a value, SQL NULL (the function returns None), or an exception escaping the SQL function *)
Inductive tres := TVal (v : jv) | TNull | TRaise.

Fixpoint traverse (v : jv) (keys : list pkey) : tres :=
  match keys with
  | [] => TVal v
  | k :: ks =>
      match v, k with
      | JList l, KIdx i => match list_get l i with Some x => traverse x ks | None => TNull end     (* IndexError is caught *)
      | JList _, KKey _ => TRaise                                                                    (* TypeError is not caught *)
      | JDict d, KKey s => match assoc s d with Some x => traverse x ks | None => TNull end         (* KeyError is caught *)
      | JDict _, KIdx _ => TNull                                                                     (* int key: KeyError *)
      | _, _ => TNull                                                                                (* type(obj) not in (list, dict) *)
      end
  end.

(* the decoded Python value indexed the same way: None = Python raises (IndexError / KeyError / TypeError) *)
Fixpoint py_path (v : jv) (keys : list pkey) : option jv :=
  match keys with
  | [] => Some v
  | k :: ks =>
      match v, k with
      | JList l, KIdx i => match list_get l i with Some x => py_path x ks | None => None end
      | JDict d, KKey s => match assoc s d with Some x => py_path x ks | None => None end
      | _, _ => None
      end
  end.

(* ------------------------------------------------------------------ JSON text (json.dumps, separators=(',', ':')) and truthiness *)
Definition esc_json (s : str) : str :=
  flat_map (fun c => if c =? c_quote then [c_bslash; c_quote] else if c =? c_bslash then [c_bslash; c_bslash] else [c]) s.

Fixpoint join_with (sep : Z) (l : list str) : str :=
  match l with [] => [] | [x] => x | x :: r => x ++ sep :: join_with sep r end.

Definition t_null : str := [110; 117; 108; 108].
Definition t_true : str := [116; 114; 117; 101].
Definition t_false : str := [102; 97; 108; 115; 101].

Fixpoint jtext (v : jv) : str :=
  match v with
  | JNull => t_null
  | JBool b => if b then t_true else t_false
  | JInt z => fmt_d z
  | JFloat neg ip fp => (if neg then [c_minus] else []) ++ digits ip ++ c_dot :: fp
  | JStr s => c_quote :: esc_json s ++ [c_quote]
  | JList l => c_lbr :: join_with c_comma (map jtext l) ++ [c_rbr]
  | JDict d => c_lbrace :: join_with c_comma (map (fun kv => let '(k, x) := kv in c_quote :: esc_json k ++ c_quote :: 58 :: jtext x) d) ++ [c_rbrace]
  end.

(* SQLiteBuilder.JSON_NONZERO :  expr NOT IN ('null', 'false', '0', '0.0', '-0.0', 'DQDQ', '[]', '{}')  on the JSON text of the value
   (0.0 and -0.0, the texts json.dumps writes for float zeros, were added by fix 8c0b3e1) *)
Definition falsy_texts : list str :=
  [t_null; t_false; [48]; [48; c_dot; 48]; [c_minus; 48; c_dot; 48]; [c_quote; c_quote]; [c_lbr; c_rbr]; [c_lbrace; c_rbrace]].
Definition json_nonzero (v : jv) : bool := negb (existsb (str_eqb (jtext v)) falsy_texts).

Definition py_truthy (v : jv) : bool :=
  match v with
  | JNull => false | JBool b => b | JInt z => negb (z =? 0)
  | JFloat _ ip fp => negb ((ip =? 0) && forallb (fun c => c =? 48) fp)
  | JStr s => match s with [] => false | _ => true end
  | JList l => match l with [] => false | _ => true end
  | JDict d => match d with [] => false | _ => true end
  end.

Definition zero_float (v : jv) : bool :=
  match v with JFloat _ ip fp => (ip =? 0) && forallb (fun c => c =? 48) fp | _ => false end.
(* a float zero spelled otherwise than json.dumps spells it (0.00, 0.000 ..): only a document written by something else can hold it *)
Definition odd_zero_float (v : jv) : bool :=
  match v with JFloat _ ip fp => zero_float v && negb (str_eqb fp [48]) | _ => false end.
Definition float_wf (v : jv) : bool := match v with JFloat _ ip _ => 0 <=? ip | _ => true end.

(* PostgreSQL (documented semantics, not executed):  coalesce(expr, 'null') NOT IN ('null', 'false', '0', DQDQ, '[]', '{}')  over jsonb,
   whose equality compares numbers numerically (0.0 = 0) and containers structurally *)
Definition pg_jsonb_falsy (v : jv) : bool :=
  match v with
  | JNull => true
  | JBool b => negb b
  | JInt z => z =? 0
  | JFloat _ ip fp => (ip =? 0) && forallb (fun c => c =? 48) fp
  | JStr s => match s with [] => true | _ => false end
  | JList l => match l with [] => true | _ => false end
  | JDict d => match d with [] => true | _ => false end
  end.
Definition pg_json_nonzero (v : jv) : bool := negb (pg_jsonb_falsy v).

(* py_json_array_length / json_array_length: len(expr) if type(expr) is list else 0 ;  Python: len() *)
Definition json_array_length (v : jv) : Z := match v with JList l => zlen l | _ => 0 end.
Definition py_len (v : jv) : option Z :=
  match v with JList l => Some (zlen l) | JDict d => Some (zlen d) | JStr s => Some (zlen s) | _ => None end.

(* py_json_contains(expr, path, key) after _traverse: type(expr) in (list, dict) and key in expr ; key is a str *)
Definition jstr_is (k : str) (v : jv) : bool := match v with JStr s => str_eqb s k | _ => false end.
Definition json_contains (v : jv) (k : str) : bool :=
  match v with
  | JList l => existsb (jstr_is k) l
  | JDict d => existsb (fun kv => str_eqb (fst kv) k) d
  | _ => false
  end.

(* ------------------------------------------------------------------ arrays *)

(* ArrayMixin._index for a constant index: value >= 0 -> value + p ; else ARRAY_LENGTH - abs(value + p)   (p = from_one and plus_one) *)
Definition index_const (p : Z) (len v : Z) : Z := if v >=? 0 then v + p else len - Z.abs (v + p).
(* ... and for an expression: CASE WHEN v >= 0 THEN v + p ELSE ARRAY_LENGTH + (v + p) END *)
Definition index_expr (p : Z) (len v : Z) : Z := if v >=? 0 then v + p else len + (v + p).

Section Arr.
Context {A : Type}.
(* py_array_index: array[index], IndexError -> None.  py_array_slice: array[start:stop] *)
Definition arr_get (l : list A) (i : Z) : option A :=
  let n := zlen l in
  if (i <? - n) || (n <=? i) then None else nth_error l (Z.to_nat (if i <? 0 then i + n else i)).

(* the SQLite code path (from_one = False): since fix 3338ea9 ArrayMixin._index hands the index / bound over unchanged and
   py_array_index / py_array_slice index the decoded list themselves *)
Definition index_sqlite (len v : Z) : Z := v.
Definition sqlite_array_index (l : list A) (v : Z) : option A := arr_get l (index_sqlite (zlen l) v).
Definition sqlite_array_slice (l : list A) (a b : option Z) : list A :=
  py_slice l (option_map (index_sqlite (zlen l)) a) (option_map (index_sqlite (zlen l)) b).

(* PostgreSQL (documented semantics, not executed): 1-based subscripts; out of range -> NULL; slices are inclusive and clamped *)
Definition pg_subscript (l : list A) (i : Z) : option A := if (i <? 1) || (zlen l <? i) then None else nth_error l (Z.to_nat (i - 1)).
Definition pg_slice (l : list A) (a b : option Z) : list A :=
  let lo := match a with Some x => Z.max x 1 | None => 1 end in
  let hi := match b with Some x => Z.min x (zlen l) | None => zlen l end in
  seg l (lo - 1) (hi - lo + 1).
Definition pg_array_index (l : list A) (v : Z) : option A := pg_subscript l (index_const 1 (zlen l) v).
Definition pg_array_slice (l : list A) (a b : option Z) : list A :=
  pg_slice l (option_map (index_const 1 (zlen l)) a) (option_map (index_const 0 (zlen l)) b).
End Arr.

(* ------------------------------------------------------------------ for the correspondence run *)
Fixpoint pkeys_eqb (a b : list pkey) : bool :=
  match a, b with
  | [], [] => true
  | KIdx i :: a', KIdx j :: b' => (i =? j) && pkeys_eqb a' b'
  | KKey s :: a', KKey t :: b' => str_eqb s t && pkeys_eqb a' b'
  | _, _ => false
  end.
Definition opkeys_eqb (a b : option (list pkey)) : bool :=
  match a, b with Some x, Some y => pkeys_eqb x y | None, None => true | _, _ => false end.

Fixpoint jv_eqb (x y : jv) : bool :=
  match x, y with
  | JNull, JNull => true
  | JBool a, JBool b => Bool.eqb a b
  | JInt a, JInt b => a =? b
  | JFloat n1 i1 f1, JFloat n2 i2 f2 => Bool.eqb n1 n2 && (i1 =? i2) && str_eqb f1 f2
  | JStr a, JStr b => str_eqb a b
  | JList la, JList lb =>
      (fix go (l1 l2 : list jv) : bool :=
         match l1, l2 with [], [] => true | a :: l1', b :: l2' => jv_eqb a b && go l1' l2' | _, _ => false end) la lb
  | JDict da, JDict db =>
      (fix go (l1 l2 : list (str * jv)) : bool :=
         match l1, l2 with
         | [], [] => true
         | (k1, a) :: l1', (k2, b) :: l2' => str_eqb k1 k2 && jv_eqb a b && go l1' l2'
         | _, _ => false
         end) da db
  | _, _ => false
  end.

Definition tres_eqb (a b : tres) : bool :=
  match a, b with TVal x, TVal y => jv_eqb x y | TNull, TNull => true | TRaise, TRaise => true | _, _ => false end.
Definition ojv_eqb (a b : option jv) : bool :=
  match a, b with Some x, Some y => jv_eqb x y | None, None => true | _, _ => false end.
Definition oz_eqb (a b : option Z) : bool :=
  match a, b with Some x, Some y => x =? y | None, None => true | _, _ => false end.

(* ASCII instance of the \w oracle used by the correspondence run: nothing beyond ASCII is a word character there *)
Definition ascii_only (c : Z) : bool := false.

Fixpoint failing_from29 (k : nat) (l : list bool) : list nat :=
  match l with [] => [] | b :: l' => (if b then [] else [k]) ++ failing_from29 (S k) l' end.
Definition failing29 (l : list bool) : list nat := failing_from29 0 l.

(* ------------------------------------------------------------------ e.j[path] == constant  (SQLiteBuilder.JSON_VALUE: CAST(json_extract(..) AS integer / text))
   json_extract gives SQL NULL for null, 1 / 0 for true / false, the number for numbers, the bare string for strings, JSON text for containers;
   SQLite's CAST(text AS INTEGER) reads the longest numeric prefix (0 if there is none), CAST(real AS INTEGER) truncates. *)
Inductive sqlv := QNull | QInt (z : Z) | QReal (neg : bool) (ip : Z) (fp : str) | QText (s : str).

Definition json_extract_value (v : jv) : sqlv :=
  match v with
  | JNull => QNull
  | JBool b => QInt (if b then 1 else 0)
  | JInt z => QInt z
  | JFloat neg ip fp => QReal neg ip fp
  | JStr s => QText s
  | JList _ | JDict _ => QText (jtext v)
  end.

Definition int_prefix (s : str) : Z :=
  let '(neg, r) := match s with c :: r' => if c =? c_minus then (true, r') else if c =? 43 then (false, r') else (false, s) | [] => (false, s) end in
  let '(ds, _) := span is_digit r in
  if neg then - horner ds else horner ds.

Definition cast_int (q : sqlv) : option Z :=
  match q with
  | QNull => None
  | QInt z => Some z
  | QReal neg ip _ => Some (if neg then - ip else ip)
  | QText s => Some (int_prefix s)
  end.

Definition cast_text (q : sqlv) : option str :=
  match q with
  | QNull => None
  | QInt z => Some (fmt_d z)
  | QReal neg ip fp => Some ((if neg then [c_minus] else []) ++ digits ip ++ c_dot :: fp)
  | QText s => Some s
  end.

Definition json_eq_int (v : jv) (c : Z) : bool :=
  match cast_int (json_extract_value v) with Some z => z =? c | None => false end.
Definition json_eq_str (v : jv) (s : str) : bool :=
  match cast_text (json_extract_value v) with Some t => str_eqb t s | None => false end.

(* Python  value == c  for an int constant, value == s for a str constant *)
Definition py_eq_int (v : jv) (c : Z) : bool :=
  match v with
  | JInt z => z =? c
  | JBool b => (if b then 1 else 0) =? c
  | JFloat neg ip fp => forallb (fun d => d =? 48) fp && ((if neg then - ip else ip) =? c)
  | _ => false
  end.
Definition py_eq_str (v : jv) (s : str) : bool := match v with JStr t => str_eqb t s | _ => false end.

(* ------------------------------------------------------------------ SQLBuilder.build_json_path: the key under which the composite bind parameter of a
   parameterised JSON path is registered (SQLBuilder.make_param keeps one parameter per key and query):
       paramkey = tuple(item.paramkey if isinstance(item, Param) else None if type(item.value) is slice else item.value for item in items) *)
Inductive jitem := IParam (id : nat) | ILit (k : pkey) | IEllipsis | ISlice.      (* external expression | constant key / index | ... | [:] *)
Inductive kitem := KP (id : nat) | KV (k : pkey) | KEll | KNone.

Definition paramkey_item (i : jitem) : kitem :=
  match i with IParam id => KP id | ILit k => KV k | IEllipsis => KEll | ISlice => KNone end.
Definition paramkey (items : list jitem) : list kitem := map paramkey_item items.

(* the path a parameterised path denotes once the external values are known *)
Inductive ritem := RKey (k : pkey) | RAnyKey | RAnyIndex.
Definition resolve (env : nat -> pkey) (items : list jitem) : list ritem :=
  map (fun i => match i with IParam id => RKey (env id) | ILit k => RKey k | IEllipsis => RAnyKey | ISlice => RAnyIndex end) items.

Definition pkey_eqb (a b : pkey) : bool :=
  match a, b with KIdx i, KIdx j => i =? j | KKey s, KKey t => str_eqb s t | _, _ => false end.
Definition kitem_eqb (a b : kitem) : bool :=
  match a, b with KP i, KP j => Nat.eqb i j | KV x, KV y => pkey_eqb x y | KEll, KEll => true | KNone, KNone => true | _, _ => false end.
Fixpoint kitems_eqb (a b : list kitem) : bool :=
  match a, b with [], [] => true | x :: a', y :: b' => kitem_eqb x y && kitems_eqb a' b' | _, _ => false end.

(* e.j[p] < e.j[q] between two JSON items on SQLite: both sides are py_json_unwrap(json_extract(..)) = the JSON TEXT of the items, which
   SQLite orders as strings (memcmp) *)
Fixpoint str_ltb (a b : str) : bool :=
  match a, b with
  | _, [] => false
  | [], _ :: _ => true
  | x :: a', y :: b' => if x <? y then true else if y <? x then false else str_ltb a' b'
  end.
Definition json_items_lt (a b : jv) : bool := str_ltb (jtext a) (jtext b).

(* ------------------------------------------------------------------ PostgreSQL:  expr #> '{a,"b c",0}'   (documented semantics, not executed).
   The right operand is a text[] literal.  Array-literal syntax (PostgreSQL manual, 8.15.2 / 8.15.6): elements are separated by commas
   inside braces; an element is either double-quoted -- then a backslash makes the next character literal -- or unquoted, and an unquoted
   element spelled NULL in any letter case is the NULL element.  #> then walks the document: a text element is an object key, or, for
   an array, the decimal text of an index (negative: from the end).  No whitespace is generated, so whitespace rules are not modelled. *)
Inductive pgelem := PText (s : str) | PNull.

Definition lower (c : Z) : Z := if (65 <=? c) && (c <=? 90) then c + 32 else c.
Definition is_null_word (s : str) : bool := str_eqb (map lower s) t_null.

Definition pg_plain (c : Z) : bool :=
  negb ((c =? c_comma) || (c =? c_rbrace) || (c =? c_lbrace) || (c =? c_quote) || (c =? c_bslash)).

(* body of a quoted element, after the opening quote: the text and what follows the closing quote *)
Fixpoint pg_quoted (s : str) : option (str * str) :=
  match s with
  | [] => None
  | c :: r =>
      if c =? c_quote then Some ([], r)
      else if c =? c_bslash then
        match r with
        | x :: r' => match pg_quoted r' with Some (t, rest) => Some (x :: t, rest) | None => None end
        | [] => None
        end
      else match pg_quoted r with Some (t, rest) => Some (c :: t, rest) | None => None end
  end.

Fixpoint pg_elems (fuel : nat) (s : str) : option (list pgelem) :=
  match fuel with
  | O => None
  | S f =>
      let after (e : pgelem) (rest : str) : option (list pgelem) :=
        match rest with
        | c :: r => if c =? c_comma then match pg_elems f r with Some es => Some (e :: es) | None => None end
                    else if c =? c_rbrace then match r with [] => Some [e] | _ => None end
                    else None
        | [] => None
        end in
      match s with
      | c :: r =>
          if c =? c_quote then match pg_quoted r with Some (t, rest) => after (PText t) rest | None => None end
          else let '(w, rest) := span pg_plain s in
               match w with
               | [] => None
               | _ => after (if is_null_word w then PNull else PText w) rest
               end
      | [] => None
      end
  end.

Definition pg_array (s : str) : option (list pgelem) :=
  match s with
  | c :: r => if c =? c_lbrace then
                match r with
                | [c2] => if c2 =? c_rbrace then Some [] else pg_elems (length r) r
                | _ => pg_elems (length r) r
                end
              else None
  | [] => None
  end.

(* what each step of the Python path must arrive as *)
Definition pg_key_text (k : pkey) : str := match k with KIdx i => fmt_d i | KKey s => s end.
