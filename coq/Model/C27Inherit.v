(* C27 - model of Pony's entity inheritance (pony/orm/core.py: EntityMeta.__init__ computing _direct_bases_, _all_bases_,
   _subclasses_, _root_; Discriminator.process_entity_inheritance filling code2cls; EntityMeta._construct_discriminator_criteria_,
   _parse_row_, _get_from_identity_map_ class refinement; sqltranslation.py: FuncIsinstanceMonad.call).  Definitions only.

   A schema is the list of entity definitions, NEWEST FIRST (so every function below is structurally recursive); the class
   defined k-th has id k = length of the list of older definitions.  A definition names its direct entity bases (ids of older
   classes, in the order of the class statement) and its discriminator value. *)
From Coq Require Import ZArith List Bool Lia.
Require Import PonyV.Base.PyBase.
#[local] Open Scope nat_scope.

Record cdef := { d_bases : list nat; d_discr : Z }.
Definition schema := list cdef.            (* newest first *)

Definition nmem (x : nat) (l : list nat) : bool := existsb (Nat.eqb x) l.

Fixpoint bases_of (s : schema) (c : nat) : list nat :=
  match s with
  | [] => []
  | d :: older => if c =? length older then d_bases d else bases_of older c
  end.

Fixpoint discr_of (s : schema) (c : nat) : Z :=
  match s with
  | [] => 0%Z
  | d :: older => if c =? length older then d_discr d else discr_of older c
  end.

(* entity._all_bases_ :  for base in direct_bases: all_bases.update(base._all_bases_); all_bases.add(base) *)
Fixpoint all_bases (s : schema) (c : nat) : list nat :=
  match s with
  | [] => []
  | d :: older => if c =? length older then flat_map (fun b => all_bases older b ++ [b]) (d_bases d)
                  else all_bases older c
  end.

(* entity._subclasses_ :  when class id is defined,  for base in all_bases: base._subclasses_.add(entity) *)
Fixpoint subclasses (s : schema) (e : nat) : list nat :=
  match s with
  | [] => []
  | d :: older => let id := length older in
                  if nmem e (all_bases s id) then subclasses older e ++ [id] else subclasses older e
  end.

(* entity._root_ = direct_bases[0]._root_, or the entity itself *)
Fixpoint root_of (s : schema) (c : nat) : nat :=
  match s with
  | [] => c
  | d :: older => if c =? length older
                  then match d_bases d with [] => c | b0 :: _ => root_of older b0 end
                  else root_of older c
  end.

(* Discriminator.code2cls: filled in definition order by code2cls[value] = entity (a later class overwrites);
   one dict per root (the discriminator attribute belongs to the root) *)
Fixpoint code2cls (s : schema) (root : nat) (v : Z) : option nat :=
  match s with
  | [] => None
  | d :: older => let id := length older in
                  if (root_of s id =? root) && (d_discr d =? v)%Z then Some id else code2cls older root v
  end.

(* what EntityMeta.__init__ accepts: bases are older classes; all direct bases share one root (diamond rule); and, since fix
   d645930, Discriminator.process_entity_inheritance refuses a value that code2cls already maps to another entity of the tree *)
Fixpoint valid (s : schema) : bool :=
  match s with
  | [] => true
  | d :: older =>
      forallb (fun b => b <? length older) (d_bases d)
      && match d_bases d with
         | [] => true
         | b0 :: rest => forallb (fun b => root_of older b =? root_of older b0) rest
         end
      && match code2cls older (root_of s (length older)) (d_discr d) with None => true | Some _ => false end
      && valid older
  end.

(* _construct_discriminator_criteria_: the values of  IN (...)  *)
Definition criteria (s : schema) (e : nat) : list Z :=
  map (discr_of s) (subclasses s e) ++ [discr_of s e].

Definition zmem (v : Z) (l : list Z) : bool := existsb (Z.eqb v) l.

(* a stored row (created as class k, so holding discr_of k) is selected by a query over e *)
Definition selected (s : schema) (e : nat) (row_discr : Z) : bool := zmem row_discr (criteria s e).

(* _parse_row_: class chosen for a row *)
Definition reload_class (s : schema) (e : nat) (row_discr : Z) : option nat := code2cls s (root_of s e) row_discr.

(* FuncIsinstanceMonad.call *)
Inductive isinst_sql := IsTrue | IsFalse | IsIn (vals : list Z).

Definition isinstance_sql (s : schema) (e : nat) (cs : list nat) : isinst_sql :=
  let S := flat_map (fun c => if root_of s e =? root_of s c then c :: subclasses s c else []) cs in
  if nmem e S then IsTrue
  else let S' := filter (fun c => nmem c (subclasses s e)) S in
       match S' with
       | [] => IsFalse
       | _ => IsIn (map (discr_of s) S')
       end.

Definition isinst_eval (q : isinst_sql) (row_discr : Z) : bool :=
  match q with IsTrue => true | IsFalse => false | IsIn vs => zmem row_discr vs end.

(* Python: isinstance(obj, (c1..cn)) for an object whose class is k *)
Definition py_isinstance (s : schema) (k : nat) (cs : list nat) : bool :=
  existsb (fun c => (k =? c) || nmem c (all_bases s k)) cs.

(* _get_from_identity_map_: an object already in the identity map with class cur is met again as class real *)
Definition refine (s : schema) (cur real : nat) : option nat :=
  if cur =? real then Some cur
  else if nmem real (all_bases s cur) then Some cur            (* issubclass(obj.__class__, entity): keep *)
  else if nmem cur (all_bases s real) then Some real           (* issubclass(entity, obj.__class__): obj.__class__ = entity *)
  else None.                                                   (* TransactionError: unexpected class change *)

(* ------------------------------------------------------------------ for the correspondence run *)
Fixpoint nsorted_ins (x : nat) (l : list nat) : list nat :=
  match l with [] => [x] | y :: l' => if x <=? y then x :: l else y :: nsorted_ins x l' end.
Definition nsort (l : list nat) : list nat := fold_right nsorted_ins [] l.
Fixpoint nlist_eqb (a b : list nat) : bool :=
  match a, b with [] , [] => true | x :: a', y :: b' => (x =? y) && nlist_eqb a' b' | _, _ => false end.
Definition nset_eqb (a b : list nat) : bool := nlist_eqb (nsort (nodup Nat.eq_dec a)) (nsort (nodup Nat.eq_dec b)).

Fixpoint zsorted_ins (x : Z) (l : list Z) : list Z :=
  match l with [] => [x] | y :: l' => if (x <=? y)%Z then x :: l else y :: zsorted_ins x l' end.
Definition zsort (l : list Z) : list Z := fold_right zsorted_ins [] l.
Fixpoint zlist_eqb (a b : list Z) : bool :=
  match a, b with [] , [] => true | x :: a', y :: b' => (x =? y)%Z && zlist_eqb a' b' | _, _ => false end.
Definition zset_eqb (a b : list Z) : bool := zlist_eqb (zsort (nodup Z.eq_dec a)) (zsort (nodup Z.eq_dec b)).

Definition isinst_eqb (a b : isinst_sql) : bool :=
  match a, b with
  | IsTrue, IsTrue | IsFalse, IsFalse => true
  | IsIn x, IsIn y => zset_eqb x y
  | _, _ => false
  end.

Definition onat_eqb (a b : option nat) : bool :=
  match a, b with Some x, Some y => x =? y | None, None => true | _, _ => false end.

Fixpoint failing_from27 (k : nat) (l : list bool) : list nat :=
  match l with [] => [] | b :: l' => (if b then [] else [k]) ++ failing_from27 (S k) l' end.
Definition failing27 (l : list bool) : list nat := failing_from27 0 l.

(* ------------------------------------------------------------------ EntityMeta._find_in_cache_ : lookup by primary key through entity e when the
   identity map already holds an object of class cur for that key -- either loaded (cur is its real class) or an unloaded SEED created for
   a reference typed cur (then the row says `real`).
       if obj._discriminator_ is not None:                 (has_discr: the tree has a discriminator; a value such as 0 or '' counts)
           if obj._subclasses_:
               if not issubclass(entity, cls) and not issubclass(cls, entity):
                   if obj not in seeds or not cls._subclasses_.intersection(entity._subclasses_): ObjectNotFound      (since fix 8097451)
               if obj in seeds: obj._load_()               (the row is parsed; _get_from_identity_map_ refines the class)
           if not isinstance(obj, entity): ObjectNotFound                                                                             *)
Inductive found := Found (c : nat) | NotFound | ClassChangeError.

Definition issub (s : schema) (a b : nat) : bool := (a =? b) || nmem b (all_bases s a).       (* issubclass(a, b) *)

(* cls._subclasses_.intersection(entity._subclasses_) is not empty *)
Definition common_subclass (s : schema) (a b : nat) : bool := existsb (fun c => nmem c (subclasses s b)) (subclasses s a).

Definition find_in_cache (s : schema) (has_discr : bool) (e cur : nat) (seed : bool) (real : nat) : found :=
  if has_discr then
    let after : option (option nat) :=                       (* None = ObjectNotFound, Some None = class change error *)
      match subclasses s cur with
      | [] => Some (Some cur)
      | _ => if negb (issub s e cur) && negb (issub s cur e) && (negb seed || negb (common_subclass s cur e)) then None
             else if seed then Some (refine s cur real) else Some (Some cur)
      end in
    match after with
    | None => NotFound
    | Some None => ClassChangeError
    | Some (Some c) => if issub s c e then Found c else NotFound
    end
  else Found cur.

(* what a lookup must give: the object with its creation class if that class is e or below, nothing otherwise *)
Definition lookup_spec (s : schema) (e real : nat) : found := if issub s real e then Found real else NotFound.

Definition found_eqb (a b : found) : bool :=
  match a, b with Found x, Found y => x =? y | NotFound, NotFound => true | ClassChangeError, ClassChangeError => true | _, _ => false end.

(* ------------------------------------------------------------------ Attribute.get : reading a reference attribute.  The value is either already in
   obj._vals_ or fetched by attr.load(obj) (the owner itself was an unloaded placeholder); a value whose class has subclasses and which is
   still an unloaded seed is loaded -- and thereby refined (_get_from_identity_map_) -- before it is handed out.  [guarded] says whether
   the value takes the path through that guard (read from the source on every run for the attr.load path: Gen/C27AttrGet.v). *)
Definition attr_get_class (s : schema) (guarded : bool) (cur : nat) (seed : bool) (real : nat) : option nat :=
  if guarded then
    match subclasses s cur with
    | [] => Some cur
    | _ => if seed then refine s cur real else Some cur
    end
  else Some cur.

(* iterating a many-to-many collection IN A LIVE SESSION: since fix 50e342a Set.copy calls rentity._load_many_ on the placeholders built
   from the link table, which loads and thereby refines them; since 233f906 only while the owner's session is alive (a detached object
   hands out its already loaded collection as it is: C32's territory, outside this definition) *)
Definition collection_item_class (s : schema) (cur real : nat) : nat := match refine s cur real with Some c => c | None => cur end.
(* a reference restored from a pickle that carried only its primary key: since fix 3acf097 unpickle_entity leaves it an unloaded
   placeholder (it no longer calls _db_set_ with nothing to set, which used to drop it from cache.seeds), so reading it loads and refines it *)
Definition unpickled_ref_class (s : schema) (cur real : nat) : nat := match refine s cur real with Some c => c | None => cur end.

(* _get_from_identity_map_ when an object already in the map with class cur is met again through a reference whose declared type is d:
   as [refine]; and since fix cb35764 an unloaded placeholder is kept when the two classes are unrelated but share a subclass (both may be
   bases of the stored class: the row decides when the object is loaded) *)
Definition meet_again (s : schema) (cur : nat) (seed : bool) (d : nat) : option nat :=
  match refine s cur d with
  | Some c => Some c
  | None => if seed && common_subclass s cur d then Some cur else None
  end.

(* ------------------------------------------------------------------ a query over e whose condition reads an attribute declared by class c (e itself or one of
   its subclasses: ObjectMixin.getattr also looks in entity._subclass_adict_).  All classes of a tree share one table; the column of an
   attribute of c is NULL in rows of classes that do not have it, and a comparison with NULL selects nothing. *)
Definition sub_attr_selected (s : schema) (e c k : nat) (cond : bool) : bool :=
  selected s e (discr_of s k) && issub s k c && cond.
