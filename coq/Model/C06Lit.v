(* C06, literals other than str / bytes.  (1) Python's printing of the values Value.__str__ passes to str() / repr():
   int, integer-valued float, Decimal, date (reference models, compared with CPython on every run);  (2) the receiving side:
   readers of the literal forms the four Value classes write -- SQL numeric literal, null / boolean, DATE '..', TIMESTAMP '..',
   INTERVAL '..' HOUR TO SECOND (MySQL: HOUR_SECOND / HOUR_MICROSECOND), SQLite's plain quoted date / timestamp texts read by
   Pony's own converters.  Date / time / timedelta values, isoformat pieces, timestamp and timedelta parsers are the C07
   builder's (Model/C07Base.v, C07Fmt.v, C07Codec.v, Gen/C07Codec.v; read-only here).  Definitions only. *)
Require Import PonyV.Base.PyBase PonyV.Model.C07Base PonyV.Model.C07Fmt PonyV.Gen.C07Codec PonyV.Model.C07Codec
               PonyV.Model.C06Str PonyV.Model.C06Lex.

(* ---- printing ---------------------------------------------------------------------------------------------------------- *)
(* str(int) *)
Definition py_str_int (z : Z) : str := if z <? 0 then 45 :: print_nat (- z) else print_nat z.
(* repr(float(z)) for an integer z with |z| < 10^16: the digits and ".0" *)
Definition py_repr_float_int (z : Z) : str := py_str_int z ++ [46; 48].
(* str(date) = date.isoformat(): zero-padded year *)
Definition iso_date (d : date_v) : str := d4 (dy d) ++ 45 :: d2 (dm d) ++ 45 :: d2 (dd d).

(* str(Decimal) (decimal.Decimal.__str__, eng=False) for a finite Decimal with sign*coefficient c and exponent e
   (the negative zero is not representable here) *)
Definition zeros (n : nat) : str := repeat 48 n.
Definition py_str_decimal (d : dec) : str :=
  let c := fst d in let e := snd d in
  let digits := print_nat (Z.abs c) in
  let n := Z.of_nat (length digits) in
  let leftdigits := e + n in
  let dotplace := if (e <=? 0) && (-6 <? leftdigits) then leftdigits else 1 in
  let body :=
    if dotplace <=? 0 then 48 :: 46 :: zeros (Z.to_nat (- dotplace)) ++ digits
    else if n <=? dotplace then digits ++ zeros (Z.to_nat (dotplace - n))
    else firstn (Z.to_nat dotplace) digits ++ 46 :: skipn (Z.to_nat dotplace) digits in
  let ex := if leftdigits =? dotplace then [] else 69 :: (if leftdigits - dotplace <? 0 then 45 else 43) :: print_nat (Z.abs (leftdigits - dotplace)) in
  (if c <? 0 then [45] else []) ++ body ++ ex.

(* ---- reading ----------------------------------------------------------------------------------------------------------- *)
Fixpoint drop_prefix (p t : str) : option str :=
  match p, t with
  | [], _ => Some t
  | a :: p', b :: t' => if b =? a then drop_prefix p' t' else None
  | _ :: _, [] => None
  end.

Fixpoint span_digits (s : str) : str * str :=
  match s with
  | c :: r => if is_digit c then let (a, b) := span_digits r in (c :: a, b) else ([], s)
  | [] => ([], [])
  end.

(* SQL exact numeric literal without exponent: [-] digits [ . digits ]  ->  (signed coefficient, exponent) *)
Definition lex_decimal_unsigned (s : str) : option dec :=
  let (ip, r) := span_digits s in
  match ip with
  | [] => None
  | _ =>
      match r with
      | [] => Some (digits_value ip, 0)
      | c :: f => if (c =? 46) && all_digits f && nonempty f then Some (digits_value (ip ++ f), - Z.of_nat (length f)) else None
      end
  end.
Definition lex_decimal (s : str) : option dec :=
  match s with
  | c :: r => if c =? 45 then match lex_decimal_unsigned r with Some (v, e) => Some (- v, e) | None => None end
              else lex_decimal_unsigned s
  | [] => None
  end.
Definition lex_integer (s : str) : option Z := parse_int s.

Definition lex_null (s : str) : bool := str_eqb s [110; 117; 108; 108].
(* generic / SQLite / MySQL: 1 and 0;  PostgreSQL: true and false *)
Definition lex_bool01 (s : str) : option bool := if str_eqb s [49] then Some true else if str_eqb s [48] then Some false else None.
Definition lex_bool_pg (s : str) : option bool :=
  if str_eqb s [116; 114; 117; 101] then Some true else if str_eqb s [102; 97; 108; 115; 101] then Some false else None.

Definition kw_date : str := [68; 65; 84; 69; 32].
Definition kw_timestamp : str := [84; 73; 77; 69; 83; 84; 65; 77; 80; 32].
Definition kw_interval : str := [73; 78; 84; 69; 82; 86; 65; 76; 32].
Definition unit_hour_to_second : str := [32; 72; 79; 85; 82; 32; 84; 79; 32; 83; 69; 67; 79; 78; 68].
Definition unit_hour_second : str := [32; 72; 79; 85; 82; 95; 83; 69; 67; 79; 78; 68].
Definition unit_hour_microsecond : str := [32; 72; 79; 85; 82; 95; 77; 73; 67; 82; 79; 83; 69; 67; 79; 78; 68].

(* DATE 'YYYY-MM-DD' *)
Definition lex_date_lit (t : str) : option date_v :=
  match drop_prefix kw_date t with
  | Some r => match lex_std r with Some s => strptime_ymd s | None => None end
  | None => None
  end.
(* TIMESTAMP 'YYYY-MM-DD HH:MM:SS.ffffff' *)
Definition lex_timestamp_lit (t : str) : option datetime_v :=
  match drop_prefix kw_timestamp t with
  | Some r => match lex_std r with Some s => timestamp2datetime s | None => None end
  | None => None
  end.
(* INTERVAL '[-]h:m:s[.ffffff]' <unit> : the quoted text denotes sign * (h hours + m minutes + s seconds + fraction) *)
Definition lex_interval_lit (unit : str) (t : str) : option td_v :=
  match drop_prefix kw_interval t with
  | Some r =>
      match lex_quoted 39 r with
      | Some (s, rest) => if str_eqb rest unit then str2timedelta s else None
      | None => None
      end
  | None => None
  end.
(* SQLite: the text stored / compared is a plain string; what it denotes is what Pony's SQLite converters read from it *)
Definition lex_sqlite_date (t : str) : option date_v :=
  match lex_std t with Some s => match sqlite_date_sql2py s with RVal d => Some d | RStr _ => None end | None => None end.
Definition lex_sqlite_datetime (t : str) : option datetime_v :=
  match lex_std t with Some s => match sqlite_datetime_sql2py s with RVal d => Some d | RStr _ => None end | None => None end.

Definition dec_pair_eqb (a b : dec) : bool := (fst a =? fst b) && (snd a =? snd b).
