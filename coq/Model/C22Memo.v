(* C22 - generic memo table shared by any number of clients (threads): definitions only.
   Protocol of the process-wide set-only caches of Pony (core.string2ast_cache, core.adapted_sql_cache,
   decompiling.ast_cache, asttranslation.extractors_cache, Database._constructed_sql_cache, utils.lambda_args_cache):

       result = cache.get(key(input))            -- one atomic dict operation
       if result is not None: return result
       result = compute(input)                   -- thread-local
       cache[key(input)] = result                -- one atomic dict operation
       return result

   A scheduler is a list of client ids; each entry lets that client perform its next step. *)
From Coq Require Import List Bool Arith.
Import ListNotations.

Section MemoDefs.
  Variables I K V : Type.
  Variable keqb : K -> K -> bool.
  Variable key : I -> K.
  Variable compute : I -> V.

  (* pc 0: before the get; 1: after a miss, before compute + set; 2: returned *)
  Record client := { c_in : I; c_pc : nat; c_res : option V }.
  Record mstate := { m_cache : K -> option V; m_cl : nat -> client }.

  Definition cupd (f : nat -> client) (t : nat) (c : client) : nat -> client := fun u => if Nat.eqb u t then c else f u.
  Definition kupd (f : K -> option V) (k : K) (v : V) : K -> option V := fun k' => if keqb k' k then Some v else f k'.

  Definition mstep (s : mstate) (t : nat) : mstate :=
    let c := m_cl s t in
    match c_pc c with
    | 0 => match m_cache s (key (c_in c)) with
           | Some v => {| m_cache := m_cache s; m_cl := cupd (m_cl s) t {| c_in := c_in c; c_pc := 2; c_res := Some v |} |}
           | None => {| m_cache := m_cache s; m_cl := cupd (m_cl s) t {| c_in := c_in c; c_pc := 1; c_res := None |} |}
           end
    | 1 => let v := compute (c_in c) in
           {| m_cache := kupd (m_cache s) (key (c_in c)) v; m_cl := cupd (m_cl s) t {| c_in := c_in c; c_pc := 2; c_res := Some v |} |}
    | _ => s
    end.

  Definition mrun (s : mstate) (sched : list nat) : mstate := fold_left mstep sched s.

  Definition minit (c0 : K -> option V) (inputs : nat -> I) : mstate :=
    {| m_cache := c0; m_cl := fun t => {| c_in := inputs t; c_pc := 0; c_res := None |} |}.

  (* a cache content that only holds correct entries (e.g. the empty cache, or any cache filled by earlier requests) *)
  Definition cache_ok (c : K -> option V) : Prop := forall i v, c (key i) = Some v -> v = compute i.
End MemoDefs.

Arguments c_in {I V} _.
Arguments c_pc {I V} _.
Arguments c_res {I V} _.
Arguments m_cache {I K V} _.
Arguments m_cl {I K V} _.
