(* C06 "no value or name changes the structure of the statement": a small SQL tokeniser (one pass, structural recursion)
   and the statement skeletons SQLBuilder produces for INSERT / UPDATE / DELETE / SELECT-by-key (the statements of
   _save_created_ / _save_updated_ / _save_deleted_ / loading by key): fixed keyword texts with slots for quoted names,
   string literals, integer literals and placeholders.  Definitions only. *)
Require Import PonyV.Base.PyBase PonyV.Model.C07Base PonyV.Model.C06Str PonyV.Model.C06Lex PonyV.Model.C06Params
               PonyV.Gen.C06Quote PonyV.Model.C06Lit.

(* token classes: string literal, quoted identifier, number, word (keyword / bare name), punctuation character, lexical error *)
Inductive tclass : Type := TStr | TIdent | TNum | TWord | TPunct (c : Z) | TErr.

Definition tclass_eqb (a b : tclass) : bool :=
  match a, b with
  | TStr, TStr | TIdent, TIdent | TNum, TNum | TWord, TWord | TErr, TErr => true
  | TPunct x, TPunct y => x =? y
  | _, _ => false
  end.

Definition is_space (c : Z) : bool := (c =? 32) || (c =? 10) || (c =? 9) || (c =? 13).
Definition is_wstart (c : Z) : bool := ((65 <=? c) && (c <=? 90)) || ((97 <=? c) && (c <=? 122)) || (c =? 95).
Definition is_wchar (c : Z) : bool := is_wstart c || is_digit c.
Definition is_quote (c : Z) : bool := (c =? 39) || (c =? 34) || (c =? 96).

Inductive tmode : Type :=
| MNone                (* between tokens *)
| MStr (d : Z)         (* inside a quoted token delimited by d *)
| MStrQ (d : Z)        (* inside a quoted token, the previous character was d: either a doubled d or the end of the token *)
| MNum | MWord.

(* one character per step.  A token class is emitted when the token starts. *)
Fixpoint tok (m : tmode) (s : str) : list tclass :=
  match s with
  | [] => match m with MStr _ => [TErr] | _ => [] end
  | c :: r =>
      let start :=
        if is_space c then tok MNone r
        else if c =? 39 then TStr :: tok (MStr 39) r
        else if (c =? 34) || (c =? 96) then TIdent :: tok (MStr c) r
        else if is_digit c then TNum :: tok MNum r
        else if is_wstart c then TWord :: tok MWord r
        else TPunct c :: tok MNone r in
      match m with
      | MNone => start
      | MStr d => if c =? d then tok (MStrQ d) r else tok (MStr d) r
      | MStrQ d => if c =? d then tok (MStr d) r else start
      | MNum => if is_digit c then tok MNum r else start
      | MWord => if is_wchar c then tok MWord r else start
      end
  end.

Definition tokenize (s : str) : list tclass := tok MNone s.

(* ---- the fixed texts of the builder ------------------------------------------------------------------------------------ *)
Inductive kw : Type :=
| KInsertInto | KOpenCols | KComma | KValues | KClose | KUpdate | KSet | KEq | KWhere | KAnd | KDeleteFrom | KSelect | KFrom | KEnd.

Definition kw_text (k : kw) : str :=
  match k with
  | KInsertInto => [73; 78; 83; 69; 82; 84; 32; 73; 78; 84; 79; 32]          (* INSERT INTO  *)
  | KOpenCols => [32; 40]                                                     (*  (           *)
  | KComma => [44; 32]                                                        (* ,            *)
  | KValues => [41; 32; 86; 65; 76; 85; 69; 83; 32; 40]                       (* ) VALUES (   *)
  | KClose => [41]                                                            (* )            *)
  | KUpdate => [85; 80; 68; 65; 84; 69; 32]                                   (* UPDATE       *)
  | KSet => [10; 83; 69; 84; 32]                                              (* \nSET        *)
  | KEq => [32; 61; 32]                                                       (*  =           *)
  | KWhere => [10; 87; 72; 69; 82; 69; 32]                                    (* \nWHERE      *)
  | KAnd => [10; 32; 32; 65; 78; 68; 32]                                      (* \n  AND      *)
  | KDeleteFrom => [68; 69; 76; 69; 84; 69; 32; 70; 82; 79; 77; 32]           (* DELETE FROM  *)
  | KSelect => [83; 69; 76; 69; 67; 84; 32]                                   (* SELECT       *)
  | KFrom => [10; 70; 82; 79; 77; 32]                                         (* \nFROM       *)
  | KEnd => []
  end.

Definition kw_classes (k : kw) : list tclass := tokenize (kw_text k).

(* a text that may follow a slot: empty, or starting with a character that cannot continue a name, a number or a quoted token *)
Definition sep_start (t : str) : bool :=
  match t with [] => true | c :: _ => negb (is_wchar c || is_quote c) end.

(* ---- slots ----------------------------------------------------------------------------------------------------------------- *)
Inductive slot : Type :=
| SName (n : str)       (* a table / column name: quote_name *)
| SStr (s : str)        (* a string value rendered inline: quote_str *)
| SInt (z : Z)          (* an integer value rendered inline *)
| SPh (id : Z).         (* a bound parameter: Param.__str__ *)

Definition ph_text (st : paramstyle) (id : Z) : str :=
  match param_str st id with
  | PQ => [63]
  | PF => [37; 115]
  | PNum n => 58 :: print_nat n
  | PNam n => 58 :: 112 :: print_nat n
  | PPy n => [37; 40; 112] ++ print_nat n ++ [41; 115]
  | PErr => []
  end.

Definition slot_text (st : paramstyle) (q : Z) (sl : slot) : str :=
  match sl with
  | SName n => quote_name q n
  | SStr s => quote_str st s
  | SInt z => py_str_int z
  | SPh id => ph_text st id
  end.

(* the token classes of a slot: they depend on the KIND of the slot, the paramstyle and the sign of an integer only *)
Definition slot_classes (st : paramstyle) (sl : slot) : list tclass :=
  match sl with
  | SName _ => [TIdent]
  | SStr _ => [TStr]
  | SInt z => if z <? 0 then [TPunct 45; TNum] else [TNum]
  | SPh _ =>
      match st with
      | Qmark => [TPunct 63]
      | Format => [TPunct 37; TWord]
      | Numeric => [TPunct 58; TNum]
      | Named => [TPunct 58; TWord]
      | Pyformat => [TPunct 37; TPunct 40; TWord; TPunct 41; TWord]
      end
  end.

(* a statement: keyword text, slot, keyword text, slot, ..., final keyword text *)
Definition stmt : Type := (list (kw * slot) * kw)%type.

Definition stmt_text (st : paramstyle) (q : Z) (s : stmt) : str :=
  flat_map (fun ks => kw_text (fst ks) ++ slot_text st q (snd ks)) (fst s) ++ kw_text (snd s).

Definition stmt_classes (st : paramstyle) (s : stmt) : list tclass :=
  flat_map (fun ks => kw_classes (fst ks) ++ slot_classes st (snd ks)) (fst s) ++ kw_classes (snd s).

(* every keyword text after the first starts with a separator; parameter ids are positive *)
Definition sep_mid (t : str) : bool := match t with [] => false | _ => sep_start t end.     (* between two slots there must be some text *)
Definition tail_ok (l : list (kw * slot)) (fin : kw) : bool :=
  forallb (fun ks => sep_mid (kw_text (fst ks))) l && sep_start (kw_text fin).
Definition stmt_ok (s : stmt) : bool :=
  match fst s with
  | [] => true
  | _ :: r => tail_ok r (snd s)
  end
  && forallb (fun ks => match snd ks with SPh id => 0 <=? id | _ => true end) (fst s).

(* shape: what is left of a statement when names and values are forgotten *)
Inductive slot_shape : Type := HName | HStr | HInt (neg : bool) | HPh.
Definition shape_of (sl : slot) : slot_shape :=
  match sl with SName _ => HName | SStr _ => HStr | SInt z => HInt (z <? 0) | SPh _ => HPh end.
Definition stmt_shape (s : stmt) : list (kw * slot_shape) * kw := (map (fun ks => (fst ks, shape_of (snd ks))) (fst s), snd s).

(* ---- the skeletons --------------------------------------------------------------------------------------------------------- *)
Fixpoint interleave (first sep : kw) (slots : list slot) : list (kw * slot) :=
  match slots with
  | [] => []
  | x :: r => (first, x) :: interleave sep sep r
  end.

(* INSERT INTO t (c1, c2) VALUES (v1, v2)      -- at least one column *)
Definition insert_stmt (table : str) (cols : list str) (vals : list slot) : stmt :=
  ((KInsertInto, SName table) :: interleave KOpenCols KComma (map SName cols) ++ interleave KValues KComma vals, KClose).

(* name = value pairs *)
Fixpoint pairs (first sep : kw) (l : list (str * slot)) : list (kw * slot) :=
  match l with
  | [] => []
  | (n, v) :: r => (first, SName n) :: (KEq, v) :: pairs sep sep r
  end.

(* UPDATE t SET c1 = v1, c2 = v2 WHERE k1 = w1 AND k2 = w2 *)
Definition update_stmt (table : str) (sets keys : list (str * slot)) : stmt :=
  ((KUpdate, SName table) :: pairs KSet KComma sets ++ pairs KWhere KAnd keys, KEnd).
(* DELETE FROM t WHERE k1 = w1 AND ... *)
Definition delete_stmt (table : str) (keys : list (str * slot)) : stmt :=
  ((KDeleteFrom, SName table) :: pairs KWhere KAnd keys, KEnd).
(* SELECT c1, c2 FROM t WHERE k1 = w1 AND ... *)
Definition select_stmt (cols : list str) (table : str) (keys : list (str * slot)) : stmt :=
  (interleave KSelect KComma (map SName cols) ++ (KFrom, SName table) :: pairs KWhere KAnd keys, KEnd).
