(* C31 - how serialization.Bag.to_dict walks the objects it was given (hand-written model of Bag.to_dict / _process_object,
   tied by the correspondence run).  Objects are numbers; `rel o` lists the objects o refers to (its to-one references and the
   items of its collections), in attribute order; `order` is the iteration order of bag.objects.  Definitions only. *)
Require Import PonyV.Base.PyBase PonyV.Model.C31Codec PonyV.Gen.C31Reduce.

(* what the result holds for an object: all configured attributes, or (processed as a related object only) no collections *)
Inductive mark := Full | Partial.
Definition marks := nat -> option mark.            (* bag.dicts *)
Definition no_marks : marks := fun _ => None.
Definition set_mark (o : nat) (k : mark) (m : marks) : marks := fun x => if Nat.eqb x o then Some k else m x.

(* _process_object(obj): every related object is (re)processed with process_related=False and stored, overwriting whatever was there
   -- unless (skip) it was itself given to the bag; then obj itself is stored with all attributes.
   skip = bag_skips_given_related, scanned from /repo: the original guard `if related_obj not in bag.dicts` tested an object against a
   dict keyed by entities and never skipped, and the to-one branch had no guard at all *)
Definition memb (x : nat) (l : list nat) : bool := existsb (Nat.eqb x) l.
Definition process_gen (skip : bool) (rel : nat -> list nat) (given : list nat) (o : nat) (m : marks) : marks :=
  set_mark o Full (fold_left (fun m r => if skip && memb r given then m else set_mark r Partial m) (rel o) m).

(* to_dict(): `for obj in objects: if obj not in dicts: bag._process_object(obj)` *)
Definition bag_step_gen (skip : bool) (rel : nat -> list nat) (given : list nat) (m : marks) (o : nat) : marks :=
  match m o with Some _ => m | None => process_gen skip rel given o m end.
Definition bag_to_dict_gen (skip : bool) (rel : nat -> list nat) (order : list nat) : marks :=
  fold_left (bag_step_gen skip rel order) order no_marks.
Definition bag_to_dict (rel : nat -> list nat) (order : list nat) : marks := bag_to_dict_gen bag_skips_given_related rel order.

(* dictionary keys of the result: Bag.to_dict flushes the session first (as Entity.to_dict does), so every object -- also one
   created in this session with an automatic key -- has its primary key when the result keys are read *)
Definition bag_keys {K : Type} (pks : list K) : list (option K) := map Some pks.

Definition mark_eqb (a b : option mark) : bool :=
  match a, b with None, None => true | Some Full, Some Full => true | Some Partial, Some Partial => true | _, _ => false end.
