(* C04 - the (parent kind, position class, child kind) triples at which the unchanged PythonTranslator is known NOT to
   parenthesise a child although Python's grammar requires it (known_findings/C04.json).  Definitions only.
   Proofs/C04Table.v proves that this list is exact: the code's rule covers the grammar's rule on every other triple, and
   every listed triple is a real gap. *)
From Coq Require Import List Bool Arith.
Import ListNotations.
Require Import PonyV.Model.C04Expr.

(* expression kinds below the level of a primary: as receiver of .attr, (...) or [...] they need parentheses *)
Definition below_primary : list kind :=
  [KNegConst; KOr; KAnd; KNot; KCompare; KBitOr; KBitXor; KBitAnd; KLShift; KRShift; KAdd; KSub; KMult; KDiv; KFloorDiv; KMod;
   KUSub; KUAdd; KInvert; KPow; KIfExp; KLambda].

(* postAttribute / postCall / postSubscript have no @priority decorator: (x + y).upper() is printed x + y.upper() *)
Definition known_receiver_attribute : list (kind * nat * kind) := map (fun c => (KAttribute, 0, c)) below_primary.
Definition known_receiver_call : list (kind * nat * kind) := map (fun c => (KCall, 0, c)) below_primary.
Definition known_receiver_subscript : list (kind * nat * kind) := map (fun c => (KSubscript, 0, c)) below_primary.

(* positions parsed above the level of a conditional expression / lambda (receivers are listed above) *)
Definition operand_positions : list (kind * nat) :=
  [(KOr, 0); (KAnd, 0); (KNot, 0); (KCompare, 0); (KBitOr, 0); (KBitOr, 1); (KBitXor, 0); (KBitXor, 1); (KBitAnd, 0); (KBitAnd, 1);
   (KLShift, 0); (KLShift, 1); (KRShift, 0); (KRShift, 1); (KAdd, 0); (KAdd, 1); (KSub, 0); (KSub, 1); (KMult, 0); (KMult, 1);
   (KDiv, 0); (KDiv, 1); (KFloorDiv, 0); (KFloorDiv, 1); (KMod, 0); (KMod, 1); (KUSub, 0); (KUAdd, 0); (KInvert, 0);
   (KPow, 0); (KPow, 1); (KIfExp, 0); (KIfExp, 1); (KStarElt, 0)].

(* postIfExp / postLambda set no priority: x == (a if c else b) + 1 is printed x == a if c else b + 1 *)
Definition known_ifexp_child : list (kind * nat * kind) := map (fun pi => (fst pi, snd pi, KIfExp)) operand_positions.
Definition known_lambda_child : list (kind * nat * kind) := map (fun pi => (fst pi, snd pi, KLambda)) operand_positions.

(* a folded negative constant has the priority of an atom: (-1) ** y is printed -1 ** y *)
Definition known_negconst_pow_base : list (kind * nat * kind) := [(KPow, 0, KNegConst)].

(* postStarred has no decorator: [*(a or b)] is printed [*a or b] (a syntax error) *)
Definition known_starred_element : list (kind * nat * kind) :=
  [(KStarElt, 0, KOr); (KStarElt, 0, KAnd); (KStarElt, 0, KNot); (KStarElt, 0, KCompare)].

Definition known_bad_list : list (kind * nat * kind) :=
  known_receiver_attribute ++ known_receiver_call ++ known_receiver_subscript ++ known_ifexp_child ++ known_lambda_child
  ++ known_negconst_pow_base ++ known_starred_element.

Definition triple_eqb (a b : kind * nat * kind) : bool :=
  let '(p1, i1, c1) := a in let '(p2, i2, c2) := b in kind_eqb p1 p2 && Nat.eqb i1 i2 && kind_eqb c1 c2.

Definition known_bad (p : kind) (i : nat) (c : kind) : bool := existsb (triple_eqb (p, i, c)) known_bad_list.

(* a tree that contains none of the listed triples *)
Fixpoint avoids_known_children (k : kind) (i : nat) (cs : list expr) : bool :=
  match cs with [] => true | c :: cs' => negb (known_bad k (pos_of k i) (ekind c)) && avoids_known_children k (S i) cs' end.
Fixpoint avoids_known (e : expr) : bool :=
  match e with Node l cs => avoids_known_children (kind_of l) 0 cs && forallb avoids_known cs end.
