(* C26 - model of the naming functions of pony/orm/dbapiprovider.py (normalize_name per dialect, default table / column /
   m2m / index / foreign-key names), of the name registry of pony/orm/dbschema.py (schema.tables / schema.names with
   their duplicate checks), of Column registration and of DBSchema.order_tables_to_create.  Definitions only.
   Strings are lists of code points; case mapping is modelled for ASCII only (theorems and correspondence inputs are ASCII). *)
Require Import PonyV.Base.PyBase.
Open Scope Z_scope.

Definition str := list Z.

Inductive casefold : Type := Keep | Lower | Upper.
Record dialect : Type := mkdialect { max_len : nat; cfold : casefold }.
Definition SQLite := mkdialect 1024 Keep.
Definition PostgreSQL := mkdialect 63 Lower.
Definition MySQL := mkdialect 64 Lower.
Definition Oracle := mkdialect 30 Upper.

Definition lower_c (c : Z) : Z := if (65 <=? c) && (c <=? 90) then c + 32 else c.
Definition upper_c (c : Z) : Z := if (97 <=? c) && (c <=? 122) then c - 32 else c.
Definition lower (s : str) : str := map lower_c s.
Definition upper (s : str) : str := map upper_c s.
Definition fold_case (f : casefold) (s : str) : str :=
  match f with Keep => s | Lower => lower s | Upper => upper s end.

(* provider.normalize_name:  name[:max_name_len]  then  .lower() / .upper() / nothing *)
Definition normalize (d : dialect) (s : str) : str := fold_case (cfold d) (firstn (max_len d) s).

Definition us : str := [95].            (* "_" *)
Fixpoint join (sep : str) (l : list str) : str :=
  match l with [] => [] | [x] => x | x :: r => x ++ sep ++ join sep r end.

Definition default_entity_table (d : dialect) (entity : str) : str := normalize d entity.
Definition default_m2m_table (d : dialect) (e1 e2 : str) : str := normalize d (e1 ++ us ++ e2).
(* get_default_column_names(attr, reverse_pk_columns) *)
Definition default_column_names (d : dialect) (attr : str) (rev_pk : option (list str)) : list str :=
  match rev_pk with
  | None => [normalize d attr]
  | Some [_] => [normalize d attr]
  | Some cols => map (fun c => normalize d (attr ++ us ++ c)) cols
  end.
Definition default_m2m_column_names (d : dialect) (entity : str) (pk_cols : list str) : list str :=
  match pk_cols with
  | [_] => [normalize d (lower entity)]
  | _ => map (fun c => normalize d (lower entity ++ us ++ c)) pk_cols
  end.
(* Set.get_m2m_columns for a symmetric / self-referencing relationship:  reverse_columns = [ column + '_2' ... ] *)
Definition s_2 : str := [95; 50].                        (* "_2" *)
Definition m2m_reverse_columns (d : dialect) (entity : str) (pk_cols : list str) : list str :=
  map (fun c => c ++ s_2) (default_m2m_column_names d entity pk_cols).
Definition s_pk : str := [112; 107; 95].                 (* "pk_" *)
Definition s_unq : str := [117; 110; 113; 95].           (* "unq_" *)
Definition s_idx : str := [105; 100; 120; 95].           (* "idx_" *)
Definition s_fk : str := [102; 107; 95].                 (* "fk_" *)
Definition us2 : str := [95; 95].
Definition default_index_name (d : dialect) (table : str) (cols : list str) (is_pk is_unique m2m : bool) : str :=
  normalize d (lower (if is_pk then s_pk ++ table
                      else if is_unique then s_unq ++ table ++ us2 ++ join us cols
                      else if m2m then s_idx ++ table
                      else s_idx ++ table ++ us2 ++ join us cols)).
Definition default_fk_name (d : dialect) (child : str) (cols : list str) : str :=
  normalize d (lower (s_fk ++ child ++ us2 ++ join us2 cols)).

(* where a registered name comes from *)
Inductive name_src : Type :=
| Explicit (s : str)                                     (* _table_ = .., column=.., index='..', table=.. : taken as written *)
| DefTable (entity : str)
| DefM2MTable (e1 e2 : str)
| M2MSeq (e1 e2 : str) (k : nat)                         (* default m2m table name already taken:  name + '_%d' *)
| DefIndex (table : str) (cols : list str) (is_pk is_unique m2m : bool)
| DefFk (child : str) (cols : list str).

Fixpoint digits_fuel (fuel n : nat) (acc : str) : str :=
  match fuel with
  | O => acc
  | S f => let acc' := (48 + Z.of_nat (Nat.modulo n 10)) :: acc in
           if Nat.leb n 9 then acc' else digits_fuel f (Nat.div n 10) acc'
  end.
Definition decimal (n : nat) : str := digits_fuel (S n) n [].

Definition name_of (d : dialect) (s : name_src) : str :=
  match s with
  | Explicit x => x
  | DefTable e => default_entity_table d e
  | DefM2MTable e1 e2 => default_m2m_table d e1 e2
  | M2MSeq e1 e2 k => default_m2m_table d e1 e2 ++ us ++ decimal k
  | DefIndex t cols pk un m2m => default_index_name d t cols pk un m2m
  | DefFk c cols => default_fk_name d c cols
  end.

(* names whose length the code controls *)
Definition bounded_src (d : dialect) (s : name_src) : Prop :=
  match s with
  | Explicit x => (length x <= max_len d)%nat       (* explicit names are the user's: assumed within the limit *)
  | M2MSeq _ _ _ => False                           (* known finding: the suffix is added after the truncation *)
  | _ => True
  end.

(* ------------------------------------------------------------------ registry: schema.tables / schema.names *)
Fixpoint str_eqb (a b : str) : bool :=
  match a, b with [], [] => true | x :: r, y :: s => (x =? y) && str_eqb r s | _, _ => false end.
Definition mem (n : str) (l : list str) : bool := existsb (str_eqb n) l.

Record registry : Type := mkreg { r_tables : list str; r_names : list str }.
Definition empty_reg := mkreg [] [].

Inductive add_op : Type :=
| AddTable (n : str)                 (* Table.__init__ *)
| AddConstraint (n : option str).    (* DBIndex / ForeignKey .__init__ -> Constraint.__init__ (None: unnamed, not registered) *)

Definition add (r : registry) (op : add_op) : option registry :=
  match op with
  | AddTable n => if mem n (r_tables r) || mem n (r_names r) then None else Some (mkreg (n :: r_tables r) (n :: r_names r))
  | AddConstraint None => Some r
  | AddConstraint (Some n) => if mem n (r_names r) then None else Some (mkreg (r_tables r) (n :: r_names r))
  end.
Fixpoint build (r : registry) (ops : list add_op) : option registry :=
  match ops with [] => Some r | op :: rest => match add r op with None => None | Some r' => build r' rest end end.

Definition op_of (d : dialect) (x : bool * option name_src) : add_op :=
  match x with
  | (true, Some s) => AddTable (name_of d s)
  | (true, None) => AddConstraint None
  | (false, s) => AddConstraint (option_map (name_of d) s)
  end.

(* ------------------------------------------------------------------ columns *)
Record attr : Type := mkattr { a_cols : list str; a_nullable : bool }.
Definition table_columns (attrs : list attr) : list (str * bool) :=
  flat_map (fun a => map (fun c => (c, negb (a_nullable a))) (a_cols a)) attrs.
(* Column.__init__: "Column %r already exists in table" *)
Fixpoint add_columns (acc : list (str * bool)) (cols : list (str * bool)) : option (list (str * bool)) :=
  match cols with
  | [] => Some acc
  | (n, nn) :: r => if mem n (map fst acc) then None else add_columns (acc ++ [(n, nn)]) r
  end.
Definition build_columns (attrs : list attr) : option (list (str * bool)) := add_columns [] (table_columns attrs).

(* ------------------------------------------------------------------ order_tables_to_create *)
Record tbl : Type := mktbl { tid : nat; parents : list nat }.     (* parent_tables never contains the table itself *)
Definition nmem (n : nat) (l : list nat) : bool := existsb (Nat.eqb n) l.
Definition ready (created : list nat) (t : tbl) : bool := forallb (fun p => nmem p created) (parents t).
(* first table whose parents are all created, with the tables before and after it *)
Fixpoint find_split (created : list nat) (pre l : list tbl) : option (list tbl * tbl * list tbl) :=
  match l with
  | [] => None
  | t :: r => if ready created t then Some (pre, t, r) else find_split created (pre ++ [t]) r
  end.
Definition dummy_tbl := mktbl 0 [].
Fixpoint order (fuel : nat) (todo : list tbl) (created : list nat) : list tbl :=
  match fuel with
  | O => []
  | S f =>
      match todo with
      | [] => []
      | _ => match find_split created [] todo with
             | Some (pre, t, post) => t :: order f (pre ++ post) (tid t :: created)
             | None => last todo dummy_tbl :: order f (removelast todo) created     (* tables_to_create.pop(): a cycle is broken *)
             end
      end
  end.
Definition order_tables (sorted_tables : list tbl) : list tbl := order (length sorted_tables) sorted_tables [].

(* executable comparisons *)
Fixpoint strs_eqb (a b : list str) : bool :=
  match a, b with [], [] => true | x :: r, y :: s => str_eqb x y && strs_eqb r s | _, _ => false end.
Fixpoint nats_eqb (a b : list nat) : bool :=
  match a, b with [], [] => true | x :: r, y :: s => Nat.eqb x y && nats_eqb r s | _, _ => false end.
Fixpoint cols_eqb (a b : list (str * bool)) : bool :=
  match a, b with [], [] => true | (x, p) :: r, (y, q) :: s => str_eqb x y && Bool.eqb p q && cols_eqb r s | _, _ => false end.
Definition opt_cols_eqb (a : option (list (str * bool))) (b : list (str * bool)) : bool :=
  match a with Some x => cols_eqb x b | None => false end.
Fixpoint failing_from (n : nat) (l : list bool) : list nat :=
  match l with [] => [] | b :: r => (if b then [] else [n]) ++ failing_from (S n) r end.
Definition failing (l : list bool) : list nat := failing_from 0 l.
