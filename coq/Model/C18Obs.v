(* C18 - instantiation of the session model used by the correspondence run (definitions only):
   exceptions are the harness' kinds 0..8 (kinds 4 and 5 carry should_retry=True; kinds 6, 7, 8 derive from BaseException only,
   not from Exception), 100 = "must commit before suspend". *)
From Coq Require Import List Bool Arith.
Import ListNotations.
Require Import PonyV.Model.C18Session.

Definition in_set (l : list nat) (e : nat) : bool := existsb (Nat.eqb e) l.
Definition sr (e : nat) : bool := in_set [4; 5] e.
Definition must_commit_kind : nat := 100.
Definition is_exc (e : nat) : bool := negb (in_set [6; 7; 8] e).

Definition S_ (retry : nat) (allowed retryable : list nat) : sess nat := mksess nat retry (in_set allowed) (in_set retryable).

Definition event_eqb (a b : event) : bool :=
  match a, b with
  | EBegin, EBegin => true
  | ERun i n d, ERun i' n' d' => (i =? i') && (n =? n') && (d =? d')
  | ECommit n, ECommit n' => n =? n'
  | ECommitFail n, ECommitFail n' => n =? n'
  | ERollback n, ERollback n' => n =? n'
  | _, _ => false
  end.

Fixpoint list_eqb {A} (f : A -> A -> bool) (a b : list A) : bool :=
  match a, b with
  | [], [] => true
  | x :: a', y :: b' => f x y && list_eqb f a' b'
  | _, _ => false
  end.

Definition is_begin (e : event) : bool := match e with EBegin => true | _ => false end.
Definition visible (t : list event) : list event := filter (fun e => negb (is_begin e)) t.

(* what the harness observes: trace without EBegin, committed markers, propagated exception, counter and pending writes afterwards *)
Definition obs := (list event * list nat * option nat * nat * nat)%type.

Definition out_opt (o : outcome nat) : option nat := match o with Ok => None | Raise e => Some e end.
Definition observe (r : st * outcome nat) : obs :=
  (visible (tr (fst r)), comm (fst r), out_opt (snd r), depth (fst r), length (pend (fst r))).

Definition opt_eqb (a b : option nat) : bool :=
  match a, b with None, None => true | Some x, Some y => x =? y | _, _ => false end.

Definition obs_eqb (a b : obs) : bool :=
  let '(t, c, e, d, p) := a in let '(t', c', e', d', p') := b in
  list_eqb event_eqb t t' && list_eqb Nat.eqb c c' && opt_eqb e e' && (d =? d') && (p =? p').

(* generator observation: additionally whether the generator ended *)
Definition gobserve (r : st * option (outcome nat)) : obs * bool :=
  let '(x, res) := r in
  ((visible (tr x), comm x, match res with Some o => out_opt o | None => None end, depth x, length (pend x)),
   match res with Some _ => true | None => false end).
Definition gobs_eqb (a b : obs * bool) : bool := obs_eqb (fst a) (fst b) && Bool.eqb (snd a) (snd b).

Definition run_stream (cf : nat) (s : sess nat) (str : list (bool * outcome nat)) : obs :=
  observe (call_stream nat sr cf s str st0).
Definition run_prog (cf : nat) (p : prog nat) : obs := observe (run nat sr cf is_exc p st0).
Definition run_gen (cf : nat) (steps : list (gstep nat)) : obs * bool := gobserve (grun_closed nat cf must_commit_kind steps st0).
Definition run_flask (cf : nat) (passes : bool) (p : bool) (o : outcome nat) : obs :=
  observe (flask_request nat cf passes (leaf nat 0 p o) st0).
(* bottle kinds: 0 other exception, 1 HTTPResponse, 2 HTTPError (a subclass of HTTPResponse), 3 a TransactionError *)
Definition run_bottle (cf : nat) (is_allowed : nat -> bool) (p : bool) (o : outcome nat) : obs :=
  observe (bottle_request nat (fun _ => false) cf is_allowed (fun e => e =? 3) p o st0).

Fixpoint failing_from (i : nat) (l : list bool) : list nat :=
  match l with [] => [] | b :: r => if b then failing_from (S i) r else i :: failing_from (S i) r end.
Definition failing (l : list bool) : list nat := failing_from 0 l.

(* short constructor names for the generated case files *)
Definition Lf := PLeaf nat.
Definition Sq := PSeq nat.
Definition Tr := PTry nat.
Definition Wi := PWith nat.
Definition Ca := PCall nat.

(* faults in the machinery (Model/C18Faults.v): one attempt, retry = 0; 101 = RollbackException *)
Require Import PonyV.Model.C18Faults.
Definition rb_kind : nat := 101.
Definition eff_exc (cf : nat) (p : bool) (o : outcome nat) : option nat :=
  match o with Raise e => Some e | Ok => if p then Some cf else None end.
Definition run_fault_decor (cf : nat) (allowed retryable : pres nat) (rb_ok p : bool) (o : outcome nat) : obs :=
  let '(x, r) := attempt_f nat cf rb_kind allowed retryable rb_ok (leaf nat 0 p o) st0 in
  (visible (tr x), comm x,
   match r with ADone o' => out_opt o' | ARetry => eff_exc cf p o end,      (* retry = 0: the loop is over, the attempt's exception is re-raised *)
   depth x, length (pend x)).
Definition run_fault_with (cf : nat) (allowed : pres nat) (rb_ok p : bool) (o : outcome nat) : obs :=
  observe (with_f nat cf rb_kind allowed rb_ok (leaf nat 0 p o) st0).
