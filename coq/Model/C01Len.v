(* C01/C02 - the size of a to-many collection in a condition: len(g.members) / count(g.members) over the schema of
   Model/C01Join.v and Model/C01Coll.v.  Unlike count(m for m in g.members if c) (a scalar subquery, Model/C01Coll.v) the
   translator takes the "optimize" path here (AttrSetMonad.count -> _aggregated_scalar_subselect with translator.optimize):

       select(<proj> for g in G if <w1> and ... and <h1> and ...)
       SELECT <proj> FROM G g LEFT JOIN P p ON g.id = p.group WHERE <w..> GROUP BY g.id [, <proj>] HAVING <h..>

   where the conditions h mention COUNT(DISTINCT p.id) (column 30 of the environment) and the conditions w do not.
   Definitions only: the shape, the relational meaning of LEFT JOIN + WHERE + GROUP BY + HAVING, and the Python meaning. *)
Require Import PonyV.Base.PyBase PonyV.Model.C01Expr PonyV.Model.C01Sql PonyV.Model.C01Translate PonyV.Model.C01Eqb
               PonyV.Model.C01Query PonyV.Model.C01Join PonyV.Model.C01Coll.

(* conditions of a list of `if` parts, in order *)
Fixpoint tr_filters (d : dname) (es : list expr) : option (list qx) :=
  match es with
  | [] => Some []
  | e :: r => match tr_filter d e, tr_filters d r with Some c, Some cs => Some (c ++ cs) | _, _ => None end
  end.

(* WHERE and HAVING as the translator fills them: the loop over the ifs of SQLTranslator.init sends a condition to HAVING when its
   monad is marked `aggregated`, i.e. when it mentions the aggregate (since repo commit 809623a NumericMixin.nonzero / negate carry
   the mark over like StringMixin's; before, `if len(g.members)` put COUNT(..) <> 0 into WHERE and the database rejected it).
   ws: the `if` items that do not mention the count, hs: those that do. *)
Definition tr_len_raw (d : dname) (ws hs : list expr) : option (list qx * list qx) :=
  match tr_filters d ws, tr_filters d hs with
  | Some w, Some h => Some (w, h)
  | _, _ => None
  end.

(* a statement with an aggregate in WHERE would be rejected by every database ("misuse of aggregate") *)
Definition valid_len (wh : list qx * list qx) : bool :=
  forallb (fun q => negb (mentions cnt_col q)) (fst wh) && forallb (mentions cnt_col) (snd wh) && negb (match snd wh with [] => true | _ => false end).

(* (join columns, WHERE, HAVING) of a statement the database accepts *)
Definition tr_len (d : dname) (ws hs : list expr) : option ((nat * nat) * list qx * list qx) :=
  match tr_len_raw d ws hs with
  | Some wh => if valid_len wh then Some (sub_join, fst wh, snd wh) else None
  | None => None
  end.

Section Sem.
Variable d : dname.
Variable params : nat -> pyv.
Variable db : jdb.

(* G g LEFT JOIN P p ON g.id = p.group *)
Definition lj_ext (g : row) : list (option row) :=
  match joined db sub_join g with [] => [None] | l => map Some l end.
Definition lj_rows : list (row * option row) := flat_map (fun g => map (pair g) (lj_ext g)) (tG db).

Definition gkey (r : row * option row) : qv := enc d (fst r 0%nat).
Definition pid (r : row * option row) : qv := match snd r with Some m => enc d (m 0%nat) | None => NullV end.

Definition group_by (rows : list (row * option row)) : list (list (row * option row)) :=
  map (fun k => filter (fun r => qv_eqb (gkey r) k) rows) (dedup qv_eqb (map gkey rows)).

Definition group_env (grp : list (row * option row)) : option env :=
  match grp with
  | [] => None
  | r :: _ => Some (cenv params (fst r) None (PInt (Z.of_nat (count_distinct (map pid grp)))))
  end.

Definition sql_len_rows (w h : list qx) (q : qx) : list qv :=
  let rows := filter (fun r => where_truth d (encenv d (cenv params (fst r) (snd r) PNone)) w) lj_rows in
  let kept := filter (fun grp => match group_env grp with Some en => where_truth d (encenv d en) h | None => false end) (group_by rows) in
  map (fun grp => match group_env grp with Some en => qeval d (encenv d en) q | None => NullV end) kept.

(* Python: len(g.members) is the number of P objects whose group is g *)
Definition len_env (g : row) : env := cenv params g None (PInt (Z.of_nat (length (members db g)))).
Definition py_len_rows (ws hs : list expr) (proj : expr) : list pyv :=
  map (fun g => ref_eval (len_env g) proj)
      (filter (fun g => forallb (fun e => py_truthy e (ref_eval (len_env g) e)) (ws ++ hs)) (tG db)).
End Sem.
