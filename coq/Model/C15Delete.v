(* C15 - deletion honours cascade rules and leaves no dangling references: executable model (definitions only).
   Objects and links (one stored link per related pair, on the side that holds the column / the first m2m side),
   per-relationship flags as Pony derives them (Attribute.linked: default cascade_delete = is_collection and reverse.is_required;
   Attribute.get_columns: which side of a one-to-one holds the column), Entity._delete_ as a recursive procedure, the ON DELETE
   clause chosen by Database.generate_mapping and SQLite's enforcement of it for bulk deletes, and the table view with FK values. *)
From Coq Require Import List Bool Arith Lia.
Import ListNotations.

Definition oid := nat.

Inductive akind := KRef | KSet.

Record attr := mkattr {
  a_kind : akind;
  a_required : bool;
  a_target : nat;                 (* entity on the other side *)
  a_reverse : nat;                (* attribute index on the other side *)
  a_cascade_opt : option bool     (* cascade_delete=... as declared (None = not given) *)
}.
Definition entity := list attr.
Definition schema := list entity.

Definition dummy := mkattr KRef false 0 0 None.
Definition get_attr (sch : schema) (e a : nat) : attr := nth a (nth e sch []) dummy.
Definition rev_attr (sch : schema) (e a : nat) : attr := get_attr sch (a_target (get_attr sch e a)) (a_reverse (get_attr sch e a)).
Definition is_set (x : attr) : bool := match a_kind x with KSet => true | KRef => false end.

(* Attribute.linked *)
Definition cascade (sch : schema) (e a : nat) : bool :=
  match a_cascade_opt (get_attr sch e a) with
  | Some b => b
  | None => is_set (get_attr sch e a) && a_required (rev_attr sch e a)
  end.

(* Attribute.get_columns: does attribute (e, a) have a column?  (entity names are E0, E1, ...: name order = index order) *)
Definition has_column (sch : schema) (e a : nat) : bool :=
  let x := get_attr sch e a in
  let r := rev_attr sch e a in
  match a_kind x, a_kind r with
  | KSet, _ => false
  | KRef, KSet => true
  | KRef, KRef => if a_required x then true
                  else if a_required r then false
                  else negb (Nat.ltb (a_target x) e)          (* attr.entity.__name__ > reverse.entity.__name__ : no column *)
  end.

(* the side that stores the link in this model *)
Definition canon (sch : schema) (e a : nat) : bool :=
  let x := get_attr sch e a in
  match a_kind x, a_kind (rev_attr sch e a) with
  | KSet, KSet => Nat.ltb e (a_target x) || (Nat.eqb e (a_target x) && Nat.leb a (a_reverse x))
  | _, _ => has_column sch e a
  end.

(* Database.generate_mapping: the ON DELETE clause of the foreign key of column attribute (e, a) *)
Inductive on_delete := OdCascade | OdSetNull | OdNone.
Definition fk_on_delete (sch : schema) (e a : nat) : on_delete :=
  if cascade sch (a_target (get_attr sch e a)) (a_reverse (get_attr sch e a)) then OdCascade
  else if negb (a_required (get_attr sch e a)) then OdSetNull
  else OdNone.

(* ------------------------------------------------------------------------------------------------ state *)
Record link := mklink { l_e : nat; l_a : nat; l_x : oid; l_y : oid }.      (* object x (entity e) is related through attribute a to y *)
Record st := mkst { objs : list (oid * nat); links : list link }.

Definition ent_of (s : st) (o : oid) : option nat :=
  match find (fun p => Nat.eqb (fst p) o) (objs s) with Some p => Some (snd p) | None => None end.
Definition alive (s : st) (o : oid) : bool := match ent_of s o with Some _ => true | None => false end.

Definition link_is (e a : nat) (l : link) : bool := Nat.eqb (l_e l) e && Nat.eqb (l_a l) a.

(* the objects related to o through attribute a of its entity e, looked up from whichever side stores the link *)
Definition partners (sch : schema) (s : st) (o : oid) (e a : nat) : list oid :=
  let x := get_attr sch e a in
  if canon sch e a
  then map l_y (filter (fun l => link_is e a l && Nat.eqb (l_x l) o) (links s))
  else map l_x (filter (fun l => link_is (a_target x) (a_reverse x) l && Nat.eqb (l_y l) o) (links s)).

Definition mentions (o : oid) (l : link) : bool := Nat.eqb (l_x l) o || Nat.eqb (l_y l) o.

(* remove the links of o through attribute a *)
Definition unlink (sch : schema) (s : st) (o : oid) (e a : nat) : st :=
  let x := get_attr sch e a in
  mkst (objs s)
       (if canon sch e a
        then filter (fun l => negb (link_is e a l && Nat.eqb (l_x l) o)) (links s)
        else filter (fun l => negb (link_is (a_target x) (a_reverse x) l && Nat.eqb (l_y l) o)) (links s)).

Definition kill (s : st) (o : oid) : st := mkst (filter (fun p => negb (Nat.eqb (fst p) o)) (objs s)) (links s).

(* ------------------------------------------------------------------------------------------------ removal with a policy *)
Inductive action := ACascade | AUnlink | ARefuse.

(* Entity._delete_: what happens to the partners through attribute (e, a) of the object being deleted *)
Definition mem_policy (sch : schema) (e a : nat) : action :=
  let x := get_attr sch e a in
  let r := rev_attr sch e a in
  match a_kind x with
  | KSet => if cascade sch e a then ACascade else if negb (a_required r) then AUnlink else ARefuse
  | KRef => match a_kind r with
            | KSet => AUnlink                                        (* reverse.reverse_remove *)
            | KRef => if cascade sch e a then ACascade else if negb (a_required r) then AUnlink else ARefuse
            end
  end.

(* SQLite executing DELETE on the row of o: rows that reference it follow the ON DELETE clause of their foreign key;
   the row's own foreign key values and its many-to-many link rows (ON DELETE CASCADE) go away with it *)
Definition db_policy (sch : schema) (e a : nat) : action :=
  let x := get_attr sch e a in
  if has_column sch e a then AUnlink
  else match a_kind x, a_kind (rev_attr sch e a) with
       | KSet, KSet => AUnlink
       | _, _ => match fk_on_delete sch (a_target x) (a_reverse x) with
                 | OdCascade => ACascade
                 | OdSetNull => AUnlink
                 | OdNone => ARefuse
                 end
       end.

Definition attr_ids (sch : schema) (e : nat) (k : akind) : list nat :=
  map fst (filter (fun p => match a_kind (snd p), k with KSet, KSet | KRef, KRef => true | _, _ => false end)
                  (combine (seq 0 (length (nth e sch []))) (nth e sch []))).

(* the order of _delete_: collection attributes first, then the others *)
Definition attr_order (sch : schema) (e : nat) : list nat := attr_ids sch e KSet ++ attr_ids sch e KRef.

Fixpoint fold_opt {A S} (f : A -> S -> option S) (xs : list A) (s : S) : option S :=
  match xs with
  | [] => Some s
  | x :: xs' => match f x s with Some s' => fold_opt f xs' s' | None => None end
  end.

Section Remove.
Variable sch : schema.
Variable policy : nat -> nat -> action.

Definition step_attr (rm : oid -> st -> option st) (o : oid) (e a : nat) (s : st) : option st :=
  let ps := partners sch s o e a in
  match ps with
  | [] => Some s
  | _ => match policy e a with
         | ACascade => fold_opt rm ps s
         | AUnlink => Some (unlink sch s o e a)
         | ARefuse => None
         end
  end.

(* None = refused (ConstraintError / IntegrityError) or out of fuel; the caller keeps the old state *)
Fixpoint remove (fuel : nat) (o : oid) (s : st) : option st :=
  match fuel with
  | O => None
  | S f =>
      match ent_of s o with
      | None => Some s                                             (* already deleted: nothing to do *)
      | Some e =>
          match fold_opt (fun a => step_attr (remove f) o e a) (attr_order sch e) s with
          | Some s' => Some (kill s' o)
          | None => None
          end
      end
  end.
End Remove.

Definition fuel0 := 40.

(* ------------------------------------------------------------------------------------------------ operations *)
Inductive op :=
| ONew (o : oid) (e : nat) (refs : list (nat * oid))        (* constructor: object o of entity e, attribute -> partner for its links *)
| ODelete (o : oid)                                         (* obj.delete() *)
| OBulk (os : list oid).                                    (* DELETE ... WHERE pk IN (os), executed by the database *)

Definition add_links (sch : schema) (o : oid) (e : nat) (refs : list (nat * oid)) (ls : list link) : list link :=
  fold_left (fun acc r => let a := fst r in let y := snd r in
                          if canon sch e a then mklink e a o y :: acc
                          else mklink (a_target (get_attr sch e a)) (a_reverse (get_attr sch e a)) y o :: acc) refs ls.

Inductive result := ROk | RRefused.

Definition step (sch : schema) (s : st) (o : op) : st * result :=
  match o with
  | ONew x e refs => (mkst ((x, e) :: objs s) (add_links sch x e refs (links s)), ROk)
  | ODelete x => match remove sch (mem_policy sch) fuel0 x s with Some s' => (s', ROk) | None => (s, RRefused) end
  | OBulk xs => match fold_opt (remove sch (db_policy sch) fuel0) xs s with Some s' => (s', ROk) | None => (s, RRefused) end
  end.

Definition run (sch : schema) (ops : list op) : st := fold_left (fun s o => fst (step sch s o)) ops (mkst [] []).

(* ------------------------------------------------------------------------------------------------ the table view
   A foreign key value: the row of x (entity e) holds y in column attribute a; or a link-table row (x, y) for many-to-many.
   Both are exactly the stored links; a value dangles when the row it points to (or the row that holds it) is missing. *)
Definition dangling (s : st) (l : link) : bool := negb (alive s (l_x l) && alive s (l_y l)).
Definition no_dangling (s : st) : Prop := forall l, In l (links s) -> dangling s l = false.

(* well-formed creation: the new handle is fresh and every partner exists *)
Definition op_ok (s : st) (o : op) : bool :=
  match o with
  | ONew x e refs => negb (alive s x) && forallb (fun r => alive s (snd r) && negb (Nat.eqb (snd r) x)) refs
  | _ => true
  end.

(* ------------------------------------------------------------------------------------------------ well-formedness (computable) *)
Definition wf_attr (sch : schema) (e a : nat) : bool :=
  let x := get_attr sch e a in
  let te := a_target x in
  let ra := a_reverse x in
  Nat.ltb te (length sch) && Nat.ltb ra (length (nth te sch []))
  && Nat.eqb (a_target (get_attr sch te ra)) e && Nat.eqb (a_reverse (get_attr sch te ra)) a
  && Bool.eqb (canon sch e a) (negb (canon sch te ra)).

Definition wf_schema (sch : schema) : bool :=
  forallb (fun e => forallb (fun a => wf_attr sch e a) (seq 0 (length (nth e sch [])))) (seq 0 (length sch)).

(* a stored link is on its canonical side and joins two live objects of the right entities *)
Definition typed (sch : schema) (s : st) (l : link) : Prop :=
  canon sch (l_e l) (l_a l) = true /\ l_e l < length sch /\ l_a l < length (nth (l_e l) sch []) /\
  ent_of s (l_x l) = Some (l_e l) /\ ent_of s (l_y l) = Some (a_target (get_attr sch (l_e l) (l_a l))).
Definition inv (sch : schema) (s : st) : Prop := forall l, In l (links s) -> typed sch s l.

Definition new_ok (sch : schema) (s : st) (o : op) : bool :=
  match o with
  | ONew x e refs => negb (alive s x) && Nat.ltb e (length sch)
                     && forallb (fun r => Nat.ltb (fst r) (length (nth e sch []))
                                          && match ent_of s (snd r) with Some t => Nat.eqb t (a_target (get_attr sch e (fst r))) | None => false end) refs
  | _ => true
  end.
