(* C20 - model `Opt`: optimistic concurrency control of pony/orm/core.py, one shared object (one table row),
   any number of optimistic sessions interleaved at operation granularity.  Definitions only, no proofs.

   Modelled code (core.py):
     Attribute.__get__          value = vals[a]; if wbits is not None and not wbits & bit: rbits |= bit   (bit = 0 for volatile)
     Attribute.__set__          wbits |= bit; vals[a] = new value            (simple attribute: no old/new comparison)
     Entity._db_set_ (first load of the row: vals = dbvals = row, rbits = wbits = 0)
     Entity._construct_optimistic_criteria_   for a in attrs with rbit: optimistic = attr.optimistic if not None else converter.optimistic;
                                              (col, 'IS_NULL' if dbval is None else EQ, dbval)
     Entity._save_updated_      UPDATE t SET <attrs with wbit> = vals WHERE pk AND <criteria>; rowcount = 0 -> OptimisticCheckError
     db_session.__exit__        commit = flush + COMMIT, or ROLLBACK on OptimisticCheckError / on an exception of the body
   The SQLite write lock is taken by the first UPDATE and released by COMMIT/ROLLBACK; with the operations below both
   happen inside the single `Commit` step, so no session holds the lock between two steps. *)
From Coq Require Import ZArith List Bool.
Import ListNotations.
Open Scope Z_scope.

Definition val := option Z.                  (* None = NULL / Python None *)
Definition row := nat -> val.                (* attribute number -> value *)
Definition bits := nat -> bool.

Record attr := { a_decl : option bool;       (* the attribute's own `optimistic=` option (None = not given) *)
                 a_conv : bool;              (* Converter.optimistic of its converter class (False for float) *)
                 a_vol  : bool }.            (* volatile=True *)
Definition schema := nat -> attr.
Definition schema_of (l : list attr) : schema := fun a => nth a l {| a_decl := None; a_conv := true; a_vol := false |}.

(* `attr.optimistic if attr.optimistic is not None else converters[0].optimistic` *)
Definition a_opt (x : attr) : bool := match a_decl x with Some b => b | None => a_conv x end.
(* an attribute whose reads are protected by the optimistic check *)
Definition checked (sch : schema) (a : nat) : bool := a_opt (sch a) && negb (a_vol (sch a)).

Definition val_eqb (x y : val) : bool :=
  match x, y with
  | None, None => true
  | Some p, Some q => Z.eqb p q
  | _, _ => false
  end.

Definition upd {A} (f : nat -> A) (i : nat) (x : A) : nat -> A := fun j => if Nat.eqb j i then x else f j.

Inductive expr := EConst (v : val) | EPlus (a : nat) (d : Z).      (* obj.a + d, read through __get__ *)
Inductive op := Read (a : nat) | Write (a : nat) (e : expr) | Commit.

Inductive status := Active | Committed | Failed (err : nat).        (* 1 = OptimisticCheckError, 2 = TypeError (None + int) *)
Definition E_OPT : nat := 1%nat.
Definition E_TYPE : nat := 2%nat.

Record sess := { loaded : bool; vals : row; dbvals : row; rbits : bits; wbits : bits; st : status }.

Definition sess0 : sess :=
  {| loaded := false; vals := fun _ => None; dbvals := fun _ => None; rbits := fun _ => false; wbits := fun _ => false; st := Active |}.

Inductive event :=
| EvObs (s a : nat) (v : val) (fromdb : bool)                       (* the program of session s saw value v for attribute a *)
| EvUpdate (s : nat) (sets wher : list (nat * val)) (applied : bool)  (* UPDATE ... SET sets WHERE pk AND wher; rowcount = 1 ? *)
| EvEnd (s : nat) (r : status).

Record state := { sdb : row; ss : nat -> sess; progs : nat -> list op; trace : list event (* newest first *) }.

(* first access to the object in a session: SELECT of the whole row *)
Definition do_load (d : row) (x : sess) : sess :=
  if loaded x then x
  else {| loaded := true; vals := d; dbvals := d; rbits := rbits x; wbits := wbits x; st := st x |}.

(* Attribute.__get__ *)
Definition do_get (sch : schema) (x : sess) (a : nat) : sess * val * bool :=
  let v := vals x a in
  let w := wbits x a in
  let x' := if w || a_vol (sch a) then x
            else {| loaded := loaded x; vals := vals x; dbvals := dbvals x; rbits := upd (rbits x) a true; wbits := wbits x; st := st x |} in
  (x', v, negb w).

(* Attribute.__set__ *)
Definition do_set (x : sess) (a : nat) (v : val) : sess :=
  {| loaded := loaded x; vals := upd (vals x) a v; dbvals := dbvals x; rbits := rbits x; wbits := upd (wbits x) a true; st := st x |}.

Definition set_status (x : sess) (r : status) : sess :=
  {| loaded := loaded x; vals := vals x; dbvals := dbvals x; rbits := rbits x; wbits := wbits x; st := r |}.

(* _construct_optimistic_criteria_ : (column, value read) in attribute order *)
Definition criteria (k : nat) (sch : schema) (x : sess) : list (nat * val) :=
  map (fun a => (a, dbvals x a)) (filter (fun a => rbits x a && a_opt (sch a)) (seq 0 k)).

Definition set_list (k : nat) (x : sess) : list (nat * val) :=
  map (fun a => (a, vals x a)) (filter (fun a => wbits x a) (seq 0 k)).

(* the row satisfies `col = v` / `col IS NULL` for every criterion *)
Definition matches (d : row) (w : list (nat * val)) : bool := forallb (fun p => val_eqb (d (fst p)) (snd p)) w.

Definition apply_sets (d : row) (sets : list (nat * val)) : row := fold_left (fun r p => upd r (fst p) (snd p)) sets d.

Definition put (stt : state) (s : nat) (x : sess) (rest : list op) (evs : list event) (d : row) : state :=
  {| sdb := d; ss := upd (ss stt) s x; progs := upd (progs stt) s rest; trace := evs ++ trace stt |}.

(* one operation of session s (nothing happens if s is finished or has no operation left) *)
Definition step (k : nat) (sch : schema) (stt : state) (s : nat) : state :=
  let x := ss stt s in
  match st x, progs stt s with
  | Active, o :: rest =>
      match o with
      | Read a =>
          let '(x2, v, fdb) := do_get sch (do_load (sdb stt) x) a in
          put stt s x2 rest [EvObs s a v fdb] (sdb stt)
      | Write a (EConst v) =>
          put stt s (do_set (do_load (sdb stt) x) a v) rest [] (sdb stt)
      | Write a (EPlus b d) =>
          let '(x2, v, fdb) := do_get sch (do_load (sdb stt) x) b in
          match v with
          | Some z => put stt s (do_set x2 a (Some (z + d))) rest [EvObs s b v fdb] (sdb stt)
          | None => put stt s (set_status x2 (Failed E_TYPE)) rest [EvEnd s (Failed E_TYPE); EvObs s b v fdb] (sdb stt)
          end
      | Commit =>
          let sets := set_list k x in
          match sets with
          | [] => put stt s (set_status x Committed) rest [EvEnd s Committed] (sdb stt)
          | _ =>
              let w := criteria k sch x in
              if matches (sdb stt) w
              then put stt s (set_status x Committed) rest [EvEnd s Committed; EvUpdate s sets w true] (apply_sets (sdb stt) sets)
              else put stt s (set_status x (Failed E_OPT)) rest [EvEnd s (Failed E_OPT); EvUpdate s sets w false] (sdb stt)
          end
      end
  | _, _ => stt
  end.

Definition run (k : nat) (sch : schema) (stt : state) (sched : list nat) : state := fold_left (step k sch) sched stt.

Definition init (d : row) (pr : nat -> list op) : state := {| sdb := d; ss := fun _ => sess0; progs := pr; trace := [] |}.

(* a session running alone from row d until its program ends *)
Definition alone (k : nat) (sch : schema) (d : row) (p : list op) : state :=
  run k sch (init d (fun _ => p)) (repeat 0%nat (length p)).

(* ---------------------------------------------------------------- a session seen alone (for the serial formulation)
   the session-local effect of one non-commit operation, reading the row d if the object has to be loaded *)
Definition sess_op (sch : schema) (d : row) (x : sess) (o : op) : sess :=
  match st x with
  | Active =>
      match o with
      | Read a => fst (fst (do_get sch (do_load d x) a))
      | Write a (EConst v) => do_set (do_load d x) a v
      | Write a (EPlus b dl) =>
          match do_get sch (do_load d x) b with
          | (x2, Some z, _) => do_set x2 a (Some (z + dl))
          | (x2, None, _) => set_status x2 (Failed E_TYPE)
          end
      | Commit => x
      end
  | _ => x
  end.
Definition sess_fold (sch : schema) (d : row) (x : sess) (ops : list op) : sess := fold_left (sess_op sch d) ops x.
Definition is_commit (o : op) : bool := match o with Commit => true | _ => false end.

(* the row after running the operations p and then committing, alone, on row d (a session alone always passes its own check) *)
Definition serial_row (k : nat) (sch : schema) (d : row) (p : list op) : row :=
  let x := sess_fold sch d sess0 p in
  match st x with Active => apply_sets d (set_list k x) | _ => d end.

(* ---------------------------------------------------------------- executable interface for the correspondence run *)

Definition row_of (l : list val) : row := fun a => nth a l None.
Definition progs_of (l : list (list op)) : nat -> list op := fun s => nth s l [].
Definition row_list (k : nat) (r : row) : list val := map r (seq 0 k).

Definition status_eqb (x y : status) : bool :=
  match x, y with
  | Active, Active | Committed, Committed => true
  | Failed p, Failed q => Nat.eqb p q
  | _, _ => false
  end.

Fixpoint list_eqb {A} (e : A -> A -> bool) (x y : list A) : bool :=
  match x, y with
  | [], [] => true
  | p :: x', q :: y' => e p q && list_eqb e x' y'
  | _, _ => false
  end.

Definition pair_eqb (p q : nat * val) : bool := Nat.eqb (fst p) (fst q) && val_eqb (snd p) (snd q).

(* the fromdb flag of an observation is internal to the model and not compared *)
Definition event_eqb (x y : event) : bool :=
  match x, y with
  | EvObs s a v _, EvObs s' a' v' _ => Nat.eqb s s' && Nat.eqb a a' && val_eqb v v'
  | EvUpdate s se w ap, EvUpdate s' se' w' ap' => Nat.eqb s s' && list_eqb pair_eqb se se' && list_eqb pair_eqb w w' && Bool.eqb ap ap'
  | EvEnd s r, EvEnd s' r' => Nat.eqb s s' && status_eqb r r'
  | _, _ => false
  end.

(* outcome of a whole case: final row, status of each session, events oldest first *)
Definition outcome (k n : nat) (schl : list attr) (d0 : list val) (pr : list (list op)) (sched : list nat)
  : list val * list status * list event :=
  let f := run k (schema_of schl) (init (row_of d0) (progs_of pr)) sched in
  (row_list k (sdb f), map (fun s => st (ss f s)) (seq 0 n), rev (trace f)).

Definition outcome_eqb (x y : list val * list status * list event) : bool :=
  list_eqb val_eqb (fst (fst x)) (fst (fst y)) && list_eqb status_eqb (snd (fst x)) (snd (fst y)) && list_eqb event_eqb (snd x) (snd y).

Fixpoint failing_from (i : nat) (l : list bool) : list nat :=
  match l with
  | [] => []
  | b :: r => if b then failing_from (S i) r else i :: failing_from (S i) r
  end.
Definition failing (l : list bool) : list nat := failing_from 0 l.
