(* C13 - the session cache as a heap of locations, undo closures as data, and the execution monad.
   Model only (no proofs).  Mirrors pony/orm/core.py: every `undo_func` closure is a list of undo actions
   (`uact`); `undo_funcs` is a list of closures; a failing top-level call replays them. *)
From Coq Require Import ZArith NArith List Bool Lia.
Import ListNotations.

Definition oid := nat.

Inductive value := VNone | VInt (z : Z) | VRef (o : oid).

(* object statuses of core.py; SAbsent = no such object *)
Inductive status := SAbsent | SCreated | SInserted | SUpdated | SModified | SMarked | SDeleted | SCancelled.

Inductive err := EValue | EType | ECacheIndex | EConstraint | ETransaction | EDeleted | EAssert | EInjected | EKey | EFuel.

(* Locations of the session state.
   LNext            number of objects the program holds (next handle)
   LQueue           cache.objects_to_save
   LCls o           entity index of object o
   LStatus/LWbits/LSavePos o   obj._status_ / _wbits_ (bit mask over attribute indexes, None for created objects) / _save_pos_
   LVal o a         obj._vals_[a] for a non-collection attribute
   LItem o a x      x in obj._vals_[a] (SetData);  LAdded / LRemoved: x in setdata.added / setdata.removed
   LIdx e spec key  cache.indexes[spec of entity e][key]   (spec = attribute indexes; [0] is the primary key)
   LMod e a o       o in cache.modified_collections[attribute a of entity e] *)
Inductive loc :=
| LNext | LQueue
| LCls (o : oid) | LStatus (o : oid) | LWbits (o : oid) | LSavePos (o : oid)
| LVal (o : oid) (a : nat)
| LItem (o : oid) (a : nat) (x : oid) | LAdded (o : oid) (a : nat) (x : oid) | LRemoved (o : oid) (a : nat) (x : oid)
| LIdx (e : nat) (spec : list nat) (key : list value)
| LMod (e : nat) (a : nat) (o : oid).

Inductive cell :=
| CNone
| CNat (n : nat)
| CStatus (s : status)
| CBits (b : option N)
| CPos (p : option nat)
| CVal (v : value)
| CBool (b : bool)
| CObj (o : option oid)
| CQueue (q : list (option oid)).

(* ---------------------------------------------------------------- decidable equalities (boolean, fast under vm_compute) *)
Definition value_eqb (a b : value) : bool :=
  match a, b with
  | VNone, VNone => true
  | VInt x, VInt y => Z.eqb x y
  | VRef x, VRef y => Nat.eqb x y
  | _, _ => false
  end.

Fixpoint list_eqb {A} (f : A -> A -> bool) (xs ys : list A) : bool :=
  match xs, ys with
  | [], [] => true
  | x :: xs', y :: ys' => f x y && list_eqb f xs' ys'
  | _, _ => false
  end.

Definition loc_eqb (a b : loc) : bool :=
  match a, b with
  | LNext, LNext => true
  | LQueue, LQueue => true
  | LCls o, LCls o' => Nat.eqb o o'
  | LStatus o, LStatus o' => Nat.eqb o o'
  | LWbits o, LWbits o' => Nat.eqb o o'
  | LSavePos o, LSavePos o' => Nat.eqb o o'
  | LVal o a, LVal o' a' => Nat.eqb o o' && Nat.eqb a a'
  | LItem o a x, LItem o' a' x' => Nat.eqb o o' && Nat.eqb a a' && Nat.eqb x x'
  | LAdded o a x, LAdded o' a' x' => Nat.eqb o o' && Nat.eqb a a' && Nat.eqb x x'
  | LRemoved o a x, LRemoved o' a' x' => Nat.eqb o o' && Nat.eqb a a' && Nat.eqb x x'
  | LIdx e s k, LIdx e' s' k' => Nat.eqb e e' && list_eqb Nat.eqb s s' && list_eqb value_eqb k k'
  | LMod e a o, LMod e' a' o' => Nat.eqb e e' && Nat.eqb a a' && Nat.eqb o o'
  | _, _ => false
  end.

Definition status_eqb (a b : status) : bool :=
  match a, b with
  | SAbsent, SAbsent | SCreated, SCreated | SInserted, SInserted | SUpdated, SUpdated
  | SModified, SModified | SMarked, SMarked | SDeleted, SDeleted | SCancelled, SCancelled => true
  | _, _ => false
  end.

Definition opt_eqb {A} (f : A -> A -> bool) (a b : option A) : bool :=
  match a, b with
  | None, None => true
  | Some x, Some y => f x y
  | _, _ => false
  end.

Definition cell_eqb (a b : cell) : bool :=
  match a, b with
  | CNone, CNone => true
  | CNat x, CNat y => Nat.eqb x y
  | CStatus x, CStatus y => status_eqb x y
  | CBits x, CBits y => opt_eqb N.eqb x y
  | CPos x, CPos y => opt_eqb Nat.eqb x y
  | CVal x, CVal y => value_eqb x y
  | CBool x, CBool y => Bool.eqb x y
  | CObj x, CObj y => opt_eqb Nat.eqb x y
  | CQueue x, CQueue y => list_eqb (opt_eqb Nat.eqb) x y
  | _, _ => false
  end.

(* ---------------------------------------------------------------- the heap *)
Definition state := loc -> cell.
Definition empty : state := fun _ => CNone.
Definition upd (s : state) (l : loc) (c : cell) : state := fun l' => if loc_eqb l l' then c else s l'.

Fixpoint apply_writes (w : list (loc * cell)) (s : state) : state :=
  match w with
  | [] => s
  | (l, c) :: w' => apply_writes w' (upd s l c)
  end.

(* typed readers (CNone = default) *)
Definition g_next (s : state) : nat := match s LNext with CNat n => n | _ => 0 end.
Definition g_queue (s : state) : list (option oid) := match s LQueue with CQueue q => q | _ => [] end.
Definition g_cls (s : state) (o : oid) : nat := match s (LCls o) with CNat n => n | _ => 0 end.
Definition g_status (s : state) (o : oid) : status := match s (LStatus o) with CStatus x => x | _ => SAbsent end.
Definition g_wbits (s : state) (o : oid) : option N := match s (LWbits o) with CBits b => b | _ => None end.
Definition g_savepos (s : state) (o : oid) : option nat := match s (LSavePos o) with CPos p => p | _ => None end.
Definition g_val (s : state) (o : oid) (a : nat) : value := match s (LVal o a) with CVal v => v | _ => VNone end.
Definition g_bool (s : state) (l : loc) : bool := match s l with CBool b => b | _ => false end.
Definition g_idx (s : state) (e : nat) (spec : list nat) (key : list value) : option oid :=
  match s (LIdx e spec key) with CObj o => o | _ => None end.

(* the typed view of a location: what can be observed there (a cell of the wrong shape reads as the default) *)
Definition view (s : state) (l : loc) : cell :=
  match l with
  | LNext => CNat (g_next s)
  | LQueue => CQueue (g_queue s)
  | LCls o => CNat (g_cls s o)
  | LStatus o => CStatus (g_status s o)
  | LWbits o => CBits (g_wbits s o)
  | LSavePos o => CPos (g_savepos s o)
  | LVal o a => CVal (g_val s o a)
  | LItem _ _ _ | LAdded _ _ _ | LRemoved _ _ _ | LMod _ _ _ => CBool (g_bool s l)
  | LIdx e spec key => CObj (g_idx s e spec key)
  end.

(* the normal form of a cell stored at l (view s l = norm l (s l)) *)
Definition norm (l : loc) (c : cell) : cell := view (fun _ => c) l.

Definition members (s : state) (f : oid -> loc) : list oid := filter (fun x => g_bool s (f x)) (seq 0 (g_next s)).

(* ---------------------------------------------------------------- undo actions and closures
   UW l c            restore location l to the captured value c
   UQPop o           obj2 = objects_to_save.pop(); assert obj2 is o and o._save_pos_ == len(objects_to_save)   (Attribute.__set__, Entity.set)
   UDelQueue o vac psp   _delete_'s undo:  if o._status_ == 'marked_to_delete': pop (assert it is o);
                                            if a slot was vacated (status was 'created' / 'modified'): assert queue[vac] is None; queue[vac] = o;
                                            o._save_pos_ = psp   (the value _save_pos_ had right before the final step) *)
Inductive uact :=
| UW (l : loc) (c : cell)
| UQPop (o : oid)
| UDelQueue (o : oid) (vac : option nat) (psp : option nat).

Definition closure := list uact.

Fixpoint set_nth {A} (l : list A) (i : nat) (x : A) : list A :=
  match l, i with
  | [], _ => []
  | _ :: t, O => x :: t
  | h :: t, S j => h :: set_nth t j x
  end.

Definition del_slot (s : state) (q' : list (option oid)) (o : oid) (vac psp : option nat) : state * bool :=
  match vac with
  | Some i =>
      match nth_error q' i with
      | Some None => (upd (upd s LQueue (CQueue (set_nth q' i (Some o)))) (LSavePos o) (CPos psp), true)
      | _ => (upd s LQueue (CQueue q'), false)
      end
  | None => (upd (upd s LQueue (CQueue q')) (LSavePos o) (CPos psp), true)
  end.

Definition undo_uact (u : uact) (s : state) : state * bool :=
  match u with
  | UW l c => (upd s l c, true)
  | UQPop o =>
      match rev (g_queue s) with
      | o' :: r =>
          let q' := rev r in
          let s' := upd s LQueue (CQueue q') in            (* the pop happens, then the assertion is evaluated *)
          (s', opt_eqb Nat.eqb o' (Some o) && opt_eqb Nat.eqb (g_savepos s o) (Some (length q')))
      | [] => (s, false)                                    (* assert objects_to_save *)
      end
  | UDelQueue o vac psp =>
      if status_eqb (g_status s o) SMarked then
        match rev (g_queue s) with
        | o' :: r =>
            let q' := rev r in
            if opt_eqb Nat.eqb o' (Some o) then del_slot s q' o vac psp else (upd s LQueue (CQueue q'), false)
        | [] => (s, false)
        end
      else del_slot s (g_queue s) o vac psp
  end.

(* run the actions of one closure in order; an assertion failure aborts *)
Fixpoint undo_closure (c : closure) (s : state) : state * bool :=
  match c with
  | [] => (s, true)
  | u :: c' => let '(s', ok) := undo_uact u s in if ok then undo_closure c' s' else (s', false)
  end.

(* replay a list of closures in list order (the log keeps the newest closure first, so this is `reversed(undo_funcs)`) *)
Fixpoint replay (cs : list closure) (s : state) : state * bool :=
  match cs with
  | [] => (s, true)
  | c :: cs' => let '(s', ok) := undo_closure c s in if ok then replay cs' s' else (s', false)
  end.

(* ---------------------------------------------------------------- "taints": marks for runs about which nothing is claimed.
   The code sites that mutated without a (correct) undo (TSetReverse, TRemFlag, TDelNested, TNewPk, TDelCreated and, earlier, the three
   Entity.set sites) have been repaired in /repo; what is left is the marker for states that are not in the shape the code asserts. *)
Inductive taint :=
| TInconsistent. (* a dictionary / queue was not in the shape the code assumes (KeyError / stale entry): nothing is claimed *)

(* ---------------------------------------------------------------- execution context and monad *)
Record ctx := mkctx {
  c_st : state;
  c_log : list closure;      (* undo_funcs, newest first *)
  c_taint : list taint;
  c_nidx : nat;              (* calls of update_simple_index / update_composite_index so far *)
  c_nradd : nat              (* calls of reverse_add so far *)
}.

Inductive res (A : Type) :=
| ROk (a : A) (c : ctx)
| RErr (e : err) (c : ctx).
Arguments ROk {A} a c.
Arguments RErr {A} e c.

Definition M (A : Type) := ctx -> res A.

Definition ret {A} (a : A) : M A := fun c => ROk a c.
Definition bind {A B} (m : M A) (f : A -> M B) : M B :=
  fun c => match m c with ROk a c' => f a c' | RErr e c' => RErr e c' end.
Definition fail {A} (e : err) : M A := fun c => RErr e c.
Definition gets {A} (f : state -> A) : M A := fun c => ROk (f (c_st c)) c.

Definition set_st (c : ctx) (s : state) : ctx := mkctx s (c_log c) (c_taint c) (c_nidx c) (c_nradd c).
Definition set_log (c : ctx) (l : list closure) : ctx := mkctx (c_st c) l (c_taint c) (c_nidx c) (c_nradd c).

(* raw, unlogged writes *)
Definition writes (w : list (loc * cell)) : M unit := fun c => ROk tt (set_st c (apply_writes w (c_st c))).
(* undo_funcs.append(closure) *)
Definition push (cl : closure) : M unit := fun c => ROk tt (set_log c (cl :: c_log c)).
(* a block of writes whose undo closure is appended in the same step *)
Definition block (w : list (loc * cell)) (cl : closure) : M unit :=
  fun c => ROk tt (mkctx (apply_writes w (c_st c)) (cl :: c_log c) (c_taint c) (c_nidx c) (c_nradd c)).
Definition add_taint (t : taint) : M unit :=
  fun c => ROk tt (mkctx (c_st c) (c_log c) (t :: c_taint c) (c_nidx c) (c_nradd c)).
Definition taint_if (b : bool) (t : taint) : M unit := if b then add_taint t else ret tt.
(* extend the closure that sits at position `id` counted from the oldest end of the log (mutable `undo_list` of _delete_) *)
Fixpoint amend_at (l : list closure) (k : nat) (extra : closure) : list closure :=
  match l with
  | [] => []
  | c :: t => match k with O => (c ++ extra) :: t | S k' => c :: amend_at t k' extra end
  end.
Definition amend (id : nat) (extra : closure) : M unit :=
  fun c => ROk tt (set_log c (amend_at (c_log c) (length (c_log c) - 1 - id) extra)).
(* writes for which the code registers no undo: the run is tainted when one of them visibly changes the state *)
Definition changes (s : state) (w : list (loc * cell)) : bool :=
  existsb (fun lc => negb (cell_eqb (view s (fst lc)) (norm (fst lc) (snd lc)))) w.
Definition unlogged_writes (t : taint) (w : list (loc * cell)) : M unit :=
  fun c => ROk tt (mkctx (apply_writes w (c_st c)) (c_log c) (if changes (c_st c) w then t :: c_taint c else c_taint c) (c_nidx c) (c_nradd c)).
Definition log_len : M nat := fun c => ROk (length (c_log c)) c.
Definition get_log : M (list closure) := fun c => ROk (c_log c) c.

Notation "x <- m ;; f" := (bind m (fun x => f)) (at level 61, m at next level, right associativity).
Notation "m ;;; f" := (bind m (fun _ => f)) (at level 61, right associativity).

Fixpoint iterM {A} (f : A -> M unit) (xs : list A) : M unit :=
  match xs with
  | [] => ret tt
  | x :: xs' => f x ;;; iterM f xs'
  end.

Definition guard (b : bool) (e : err) : M unit := if b then ret tt else fail e.

(* fault injection: the k-th call (1-based) of a site raises InjectedFault instead of executing *)
Definition tick_idx (flt : option (nat * nat)) : M unit :=
  fun c => let n := S (c_nidx c) in
           let c' := mkctx (c_st c) (c_log c) (c_taint c) n (c_nradd c) in
           match flt with
           | Some (0, k) => if Nat.eqb n k then RErr EInjected c' else ROk tt c'
           | _ => ROk tt c'
           end.
Definition tick_radd (flt : option (nat * nat)) : M unit :=
  fun c => let n := S (c_nradd c) in
           let c' := mkctx (c_st c) (c_log c) (c_taint c) (c_nidx c) n in
           match flt with
           | Some (1, k) => if Nat.eqb n k then RErr EInjected c' else ROk tt c'
           | _ => ROk tt c'
           end.
