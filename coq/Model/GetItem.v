(* Hand-written model of pony/orm/sqltranslation.py StringMixin.__getitem__ (the part that decides what SQL AST a
   string slice / index becomes).  Tied to the code by the structural correspondence of check C25 (the real
   translator's AST for generated queries is compared node for node, per provider).  Definitions only. *)
Require Import PonyV.Base.PyBase PonyV.Base.Seg PonyV.Sql.SqlAst PonyV.Sql.Dialect.

(* A bound after param_to_const: external parameters have been pinned to their current value and are constants. *)
Inductive bshape : Type :=
| BOmit                    (* s[:j], s[i:]                                     *)
| BConst (z : Z)           (* integer literal or pinned external parameter     *)
| BExpr (x : sx).          (* anything else of type int: column, arithmetic... *)

Definition bsql (b : bshape) : option sx :=
  match b with BOmit => None | BConst z => Some (SValue z) | BExpr x => Some x end.

Inductive plan : Type :=
| PWhole                                   (* `return monad`: the string itself *)
| PSlice (start stop : option sx).         (* ['STRING_SLICE', expr, start, stop] *)

(* As written in the source:
     start_value = stop_value = None
     if start is None: start_value = 0
     if stop_value is None: stop_value = -1          <- always taken: -1 doubles as "no stop"
     if isinstance(start, ConstMonad): start_value = start.value
     if isinstance(stop, ConstMonad): stop_value = stop.value
     if start_value == 0 and stop_value == -1: return monad *)
Definition getitem_plan (start stop : bshape) : plan :=
  let start_value := match start with BOmit => Some 0 | BConst z => Some z | BExpr _ => None end in
  let stop_value := match stop with BConst z => z | _ => -1 end in
  match start_value with
  | Some 0 => if stop_value =? -1 then PWhole else PSlice (bsql start) (bsql stop)
  | _ => PSlice (bsql start) (bsql stop)
  end.

(* index form s[i]: ['SUBSTR', expr, index_sql, ['VALUE', 1]] *)
Definition getitem_index (pg : bool) (expr : sx) (idx : bshape) : option sx :=
  match idx with
  | BOmit => None
  | BConst v =>
      let index_sql :=
        if pg && (v <? 0)
        then (if v <? -1 then SSub (SLength expr) (SValue (- (v + 1))) else SLength expr)
        else SValue (if v >=? 0 then v + 1 else v) in
      Some (SSubstr expr index_sql (Some (SValue 1)))
  | BExpr x =>
      let then_ := SAdd x (SValue 1) in
      let else_ := if pg then SAdd (SLength expr) then_ else x in
      Some (SSubstr expr (SIf (SGe x (SValue 0)) then_ else_) (Some (SValue 1)))
  end.

(* what a bound denotes for a row *)
Definition bval (d : dialect) (env : nat -> sval) (b : bshape) : option (option Z) :=
  match b with
  | BOmit => Some None
  | BConst z => Some (Some z)
  | BExpr x => match eval d env x with VInt z => Some (Some z) | _ => None end
  end.

(* the value of the query expression s[start:stop] for a row, per dialect (pg: generic builder with the PostgreSQL
   branch; generic: MySQL/Oracle; SQLite: py_string_slice) *)
Inductive path := PathPg | PathMySQL | PathSQLite.
Definition path_dialect (p : path) : dialect :=
  match p with PathPg => PostgreSQL | PathMySQL => MySQL | PathSQLite => SQLite end.
