(* C17 - PostgreSQL: autocommit switching (pony/orm/dbproviders/postgres.py: PGProvider.set_transaction_mode, PGPool.release)
   around SessionCache.connect / prepare_connection_for_query_execution / Database._exec_sql / commit / rollback / close, WITH a
   fault oracle: every driver call (execute, commit, rollback, close) may raise a database error for which
   PGProvider.should_reconnect is False (ProgrammingError, IntegrityError, ...: cache.reconnect re-raises it).  Definitions only.
   psycopg2: with connection.autocommit = False the first statement opens a transaction - also when that statement fails - that
   lasts until commit() / rollback(); with autocommit = True every statement is its own transaction; assigning autocommit
   inside a transaction is an error.  Not executable in this sandbox against a server: tied on every run to the real
   PGProvider / PGPool / SessionCache code driven with a recording, fault-injecting stub connection. *)
From Coq Require Import List Bool Arith.
Import ListNotations.
Require Import PonyV.Model.C19Txn.

Inductive pstmt := PSetSerializable | PSel | PWr | PDiscard.
Inductive pcall := PExecute (q : pstmt) | PCommit | PRollback | PSetAutocommit (b : bool) | PClose.
(* call, did it succeed, connection.autocommit at the time, is a driver-level transaction open at the time *)
Record pevent : Type := PEv { pe_call : pcall; pe_ok : bool; pe_ac : bool; pe_dtx : bool }.

Record pst : Type := mkP {
  g_has : bool;        (* cache.connection is not None *)
  g_pool : bool;       (* pool.con is not None *)
  g_ac : bool;         (* connection.autocommit *)
  g_dtx : bool;        (* driver-level transaction open *)
  g_reg : bool;        (* a cache is registered *)
  g_imm : bool; g_intx : bool;
  g_bad : bool;        (* autocommit assigned inside a transaction *)
  g_n : nat;           (* index of the next driver call *)
  g_trace : list pevent
}.
Definition pres := (bool * pst)%type.       (* true = completed, false = raised *)

Section WithOracle.
Variable oracle : nat -> bool.

Definition pcallf (c : pcall) (s : pst) : pres :=
  let ok := negb (oracle (g_n s)) in
  let tr := PEv c ok (g_ac s) (g_dtx s) :: g_trace s in
  let dtx := match c with
             | PExecute _ => if g_ac s then g_dtx s else true          (* BEGIN is sent before the statement, also if it then fails *)
             | PCommit | PRollback => if ok then false else g_dtx s
             | PClose => false
             | PSetAutocommit _ => g_dtx s
             end in
  (ok, mkP (g_has s) (g_pool s) (g_ac s) dtx (g_reg s) (g_imm s) (g_intx s) (g_bad s) (S (g_n s)) tr).
(* connection.autocommit = b : an attribute assignment, it does not fail by itself *)
Definition p_set_ac (b : bool) (s : pst) : pst :=
  mkP (g_has s) (g_pool s) b (g_dtx s) (g_reg s) (g_imm s) (g_intx s) (g_bad s || g_dtx s) (g_n s)
      (PEv (PSetAutocommit b) true (g_ac s) (g_dtx s) :: g_trace s).
Definition p_set_imm b s := mkP (g_has s) (g_pool s) (g_ac s) (g_dtx s) (g_reg s) b (g_intx s) (g_bad s) (g_n s) (g_trace s).
Definition p_set_intx b s := mkP (g_has s) (g_pool s) (g_ac s) (g_dtx s) (g_reg s) (g_imm s) b (g_bad s) (g_n s) (g_trace s).
Definition p_set_has b s := mkP b (g_pool s) (g_ac s) (g_dtx s) (g_reg s) (g_imm s) (g_intx s) (g_bad s) (g_n s) (g_trace s).
Definition p_set_reg b s := mkP (g_has s) (g_pool s) (g_ac s) (g_dtx s) b (g_imm s) (g_intx s) (g_bad s) (g_n s) (g_trace s).

Definition pbind (m : pst -> pres) (f : pst -> pres) : pst -> pres := fun s => match m s with (true, s') => f s' | r => r end.
Definition pret (s : pst) : pres := (true, s).
Definition pfail (s : pst) : pres := (false, s).

Definition shape_ser (sh : shape) : bool := match sh with ShSer => true | _ => false end.

(* Pool.drop: pool.con = None; con.close() (a new connection starts with autocommit off) *)
Definition pg_pool_drop (s : pst) : pres :=
  let (ok, s1) := pcallf PClose s in
  (ok, mkP (g_has s1) false false false (g_reg s1) (g_imm s1) (g_intx s1) (g_bad s1) (g_n s1) (g_trace s1)).
(* DBAPIProvider.drop *)
Definition pg_drop (s : pst) : pres := pbind pg_pool_drop (fun s1 => pret (p_set_intx false s1)) s.

(* PGProvider.set_transaction_mode *)
Definition pg_stm (sh : shape) (s : pst) : pres :=
  let s1 := if g_imm s && g_ac s then p_set_ac false s else s in
  pbind (fun s1 => if shape_ser sh then pcallf (PExecute PSetSerializable) s1
                   else pret (if negb (g_imm s1) && negb (g_ac s1) then p_set_ac true s1 else s1))
        (fun s2 => pret (if shape_ser sh || shape_ddl sh then p_set_intx true s2 else s2)) s1.

Definition pg_get_cache (sh : shape) (s : pst) : pst :=
  if g_reg s then s else mkP false (g_pool s) (g_ac s) (g_dtx s) true (shape_imm sh) false (g_bad s) (g_n s) (g_trace s).
(* SessionCache.connect: pool.connect() (a fresh psycopg2 connection when the pool has none), set_transaction_mode, drop on failure *)
Definition pg_connect (sh : shape) (s : pst) : pres :=
  let s0 := if g_pool s then s else mkP (g_has s) true false false (g_reg s) (g_imm s) (g_intx s) (g_bad s) (g_n s) (g_trace s) in
  match pg_stm sh s0 with
  | (true, s1) => pret (p_set_has true s1)
  | (false, s1) => match pg_drop s1 with (_, s2) => pfail s2 end
  end.
Definition pg_prepare (sh : shape) (s : pst) : pres :=
  if negb (g_has s) then pg_connect sh s
  else if g_imm s && negb (g_intx s) then pg_stm sh s      (* on failure cache.reconnect(e) re-raises e *)
  else pret s.
(* Database._exec_sql *)
Definition pg_exec (sh : shape) (start : bool) (q : pstmt) (s : pst) : pres :=
  let s0 := pg_get_cache sh s in
  let s1 := if start then p_set_imm true s0 else s0 in
  pbind (pg_prepare sh) (pbind (pcallf (PExecute q)) (fun s3 => pret (if g_imm s3 then p_set_intx true s3 else s3))) s1.
(* PGPool.release: try: rollback; autocommit = True; DISCARD ALL; autocommit = False  except: pool.drop(con); raise *)
Definition pg_pool_release (s : pst) : pres :=
  match pcallf PRollback s with
  | (false, s1) => match pg_pool_drop s1 with (_, s2) => pfail s2 end
  | (true, s1) =>
      match pcallf (PExecute PDiscard) (p_set_ac true s1) with
      | (false, s2) => match pg_pool_drop s2 with (_, s3) => pfail s3 end
      | (true, s2) => pret (p_set_ac false s2)
      end
  end.
(* SessionCache.close *)
Definition pg_close (sh : shape) (rb : bool) (s : pst) : pres :=
  let s0 := p_set_reg false s in
  if negb (g_has s0) then pret s0
  else let s1 := p_set_has false s0 in
       pbind (fun s1 => if rb then match pcallf PRollback s1 with
                                   | (true, s2) => pret (p_set_intx false s2)
                                   | (false, s2) => match pg_drop s2 with (_, s3) => pfail s3 end
                                   end
                        else pret s1)
             (fun s2 => if shape_ddl sh then pg_drop s2 else pg_pool_release s2) s1.
(* SessionCache.commit: provider.commit; on failure cache.rollback() and re-raise *)
Definition pg_commit (sh : shape) (s : pst) : pres :=
  if g_reg s then
    match (if g_intx s then match pcallf PCommit s with (true, s1) => pret (p_set_intx false s1) | r => r end else pret s) with
    | (true, s1) => pret (p_set_imm true s1)
    | (false, s1) => match pg_close sh true s1 with (_, s2) => pfail s2 end
    end
  else pret s.
Definition pg_rollback (sh : shape) (s : pst) : pres := if g_reg s then pg_close sh true s else pret s.

Inductive pop := PoSelect | PoWrite | PoCommit | PoRollback.
Definition pg_op (sh : shape) (o : pop) (s : pst) : pres :=
  match o with
  | PoSelect => pg_exec sh false PSel s
  | PoWrite => pg_exec sh true PWr s
  | PoCommit => pg_commit sh s
  | PoRollback => pg_rollback sh s
  end.
(* the body: (operation, does the body catch its exception) *)
Fixpoint pg_body (sh : shape) (b : list (pop * bool)) (s : pst) : pres :=
  match b with
  | [] => pret s
  | (o, c) :: b' => match pg_op sh o s with
                    | (true, s1) => pg_body sh b' s1
                    | (false, s1) => if c then pg_body sh b' s1 else pfail s1
                    end
  end.
(* db_session exit *)
Definition pg_exit (sh : shape) (r : pres) : pres :=
  let (ok, s1) := r in
  if ok then pbind (pg_commit sh) (fun s2 => if g_reg s2 then pg_close sh false s2 else pret s2) s1
  else match pg_rollback sh s1 with (_, s2) => pfail s2 end.
Definition pg_session (s : pst) (x : shape * list (pop * bool) * bool) : pst :=
  let '(sh, body, raises) := x in
  let r := pg_body sh body s in
  snd (pg_exit sh (if raises then (false, snd r) else r)).
Definition pg_run (l : list (shape * list (pop * bool) * bool)) (s : pst) : pst := fold_left pg_session l s.
End WithOracle.

Definition pg_init (ac : bool) : pst := mkP false true ac false false false false false 0 [].

(* every successful write was executed with autocommit off, i.e. inside a driver transaction that only commit() ends;
   every COMMIT is issued with autocommit off *)
Definition pg_writes_ok (tr : list pevent) : bool :=
  forallb (fun e => match pe_call e with
                    | PExecute PWr => negb (pe_ac e)
                    | PCommit => negb (pe_ac e)
                    | _ => true end) tr.

Definition pcall_eqb (a b : pcall) : bool :=
  match a, b with
  | PExecute PSetSerializable, PExecute PSetSerializable | PExecute PSel, PExecute PSel | PExecute PWr, PExecute PWr
  | PExecute PDiscard, PExecute PDiscard | PCommit, PCommit | PRollback, PRollback | PClose, PClose => true
  | PSetAutocommit x, PSetAutocommit y => eqb x y
  | _, _ => false
  end.
Definition pevent_eqb (a b : pevent) : bool :=
  pcall_eqb (pe_call a) (pe_call b) && eqb (pe_ok a) (pe_ok b) && eqb (pe_ac a) (pe_ac b) && eqb (pe_dtx a) (pe_dtx b).
