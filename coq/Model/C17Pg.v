(* C17 - PostgreSQL: autocommit switching (pony/orm/dbproviders/postgres.py: PGProvider.set_transaction_mode, PGPool.release)
   around SessionCache.prepare_connection_for_query_execution / Database._exec_sql / commit / rollback / release.
   Fault-free model, definitions only.  psycopg2: with connection.autocommit = False the first statement opens a transaction
   that lasts until commit() / rollback(); with autocommit = True every statement is its own transaction; assigning
   autocommit inside a transaction is an error.  Not executable in this sandbox against a server: tied on every run to the real
   PGProvider / PGPool code driven with a recording stub connection. *)
From Coq Require Import List Bool Arith.
Import ListNotations.
Require Import PonyV.Model.C19Txn.

Inductive pstmt := PSetSerializable | PSel | PWr | PDiscard.
Inductive pcall := PExecute (q : pstmt) | PCommit | PRollback | PSetAutocommit (b : bool) | PClose.
(* call, connection.autocommit at the time, is a driver-level transaction open at the time *)
Record pevent : Type := PEv { pe_call : pcall; pe_ac : bool; pe_dtx : bool }.

Record pst : Type := mkP {
  g_has : bool;        (* cache.connection is not None *)
  g_ac : bool;         (* connection.autocommit *)
  g_dtx : bool;        (* driver-level transaction open *)
  g_reg : bool;        (* a cache is registered *)
  g_imm : bool; g_intx : bool;
  g_bad : bool;        (* autocommit assigned inside a transaction *)
  g_trace : list pevent
}.
Definition plog (c : pcall) (s : pst) : pst :=
  mkP (g_has s) (g_ac s) (g_dtx s) (g_reg s) (g_imm s) (g_intx s) (g_bad s) (PEv c (g_ac s) (g_dtx s) :: g_trace s).
Definition p_exec (q : pstmt) (s : pst) : pst :=
  let s1 := plog (PExecute q) s in
  mkP (g_has s1) (g_ac s1) (if g_ac s1 then g_dtx s1 else true) (g_reg s1) (g_imm s1) (g_intx s1) (g_bad s1) (g_trace s1).
Definition p_set_ac (b : bool) (s : pst) : pst :=
  let s1 := plog (PSetAutocommit b) s in
  mkP (g_has s1) b (g_dtx s1) (g_reg s1) (g_imm s1) (g_intx s1) (g_bad s1 || g_dtx s1) (g_trace s1).
Definition p_end (c : pcall) (s : pst) : pst :=      (* connection.commit() / rollback() *)
  let s1 := plog c s in
  mkP (g_has s1) (g_ac s1) false (g_reg s1) (g_imm s1) (g_intx s1) (g_bad s1) (g_trace s1).
Definition p_set_imm b s := mkP (g_has s) (g_ac s) (g_dtx s) (g_reg s) b (g_intx s) (g_bad s) (g_trace s).
Definition p_set_intx b s := mkP (g_has s) (g_ac s) (g_dtx s) (g_reg s) (g_imm s) b (g_bad s) (g_trace s).
Definition p_set_has b s := mkP b (g_ac s) (g_dtx s) (g_reg s) (g_imm s) (g_intx s) (g_bad s) (g_trace s).

Definition shape_ser (sh : shape) : bool := match sh with ShSer => true | _ => false end.

(* PGProvider.set_transaction_mode *)
Definition pg_stm (sh : shape) (s : pst) : pst :=
  let s1 := if g_imm s && g_ac s then p_set_ac false s else s in
  let s2 := if shape_ser sh then p_exec PSetSerializable s1
            else if negb (g_imm s1) && negb (g_ac s1) then p_set_ac true s1 else s1 in
  if shape_ser sh || shape_ddl sh then p_set_intx true s2 else s2.

Definition pg_get_cache (sh : shape) (s : pst) : pst :=
  if g_reg s then s else mkP false (g_ac s) (g_dtx s) true (shape_imm sh) false (g_bad s) (g_trace s).
Definition pg_prepare (sh : shape) (s : pst) : pst :=
  if negb (g_has s) then p_set_has true (pg_stm sh s)          (* cache.connect(): the pool's connection *)
  else if g_imm s && negb (g_intx s) then pg_stm sh s else s.
(* Database._exec_sql *)
Definition pg_exec (sh : shape) (start : bool) (q : pstmt) (s : pst) : pst :=
  let s0 := pg_get_cache sh s in
  let s1 := if start then p_set_imm true s0 else s0 in
  let s2 := p_exec q (pg_prepare sh s1) in
  if g_imm s2 then p_set_intx true s2 else s2.
(* PGPool.release: rollback; autocommit = True; DISCARD ALL; autocommit = False *)
Definition pg_pool_release (s : pst) : pst := p_set_ac false (p_exec PDiscard (p_set_ac true (p_end PRollback s))).
(* DBAPIProvider.release of a ddl session: provider.drop -> Pool.drop -> close(); the next session gets a new connection
   (psycopg2: autocommit off, no transaction) *)
Definition pg_drop (s : pst) : pst :=
  let s1 := plog PClose s in
  mkP (g_has s1) false false (g_reg s1) (g_imm s1) (g_intx s1) (g_bad s1) (g_trace s1).
(* SessionCache.close *)
Definition pg_close (sh : shape) (rb : bool) (s : pst) : pst :=
  let s0 := mkP (g_has s) (g_ac s) (g_dtx s) false (g_imm s) (g_intx s) (g_bad s) (g_trace s) in
  if negb (g_has s0) then s0
  else let s1 := p_set_has false s0 in
       let s2 := if rb then p_set_intx false (p_end PRollback s1) else s1 in
       if shape_ddl sh then pg_drop s2 else pg_pool_release s2.
(* SessionCache.commit *)
Definition pg_commit (s : pst) : pst :=
  if g_reg s then
    let s1 := if g_intx s then p_set_intx false (p_end PCommit s) else s in
    p_set_imm true s1
  else s.
Definition pg_rollback (sh : shape) (s : pst) : pst := if g_reg s then pg_close sh true s else s.

Inductive pop := PoSelect | PoWrite | PoCommit | PoRollback.
Definition pg_op (sh : shape) (o : pop) (s : pst) : pst :=
  match o with
  | PoSelect => pg_exec sh false PSel s
  | PoWrite => pg_exec sh true PWr s
  | PoCommit => pg_commit s
  | PoRollback => pg_rollback sh s
  end.
Definition pg_session (s : pst) (x : shape * list pop * bool) : pst :=
  let '(sh, body, fail) := x in
  let s1 := fold_left (fun a o => pg_op sh o a) body s in
  if fail then pg_rollback sh s1
  else let s2 := pg_commit s1 in if g_reg s2 then pg_close sh false s2 else s2.
Definition pg_run (l : list (shape * list pop * bool)) (s : pst) : pst := fold_left pg_session l s.

Definition pg_init (ac : bool) : pst := mkP false ac false false false false false [].

(* every write is executed with autocommit off, i.e. inside a transaction that only commit() ends; autocommit is never
   switched inside a transaction *)
Definition pg_writes_ok (tr : list pevent) : bool :=
  forallb (fun e => match pe_call e with PExecute PWr => negb (pe_ac e) | _ => true end) tr.

Definition pcall_eqb (a b : pcall) : bool :=
  match a, b with
  | PExecute PSetSerializable, PExecute PSetSerializable | PExecute PSel, PExecute PSel | PExecute PWr, PExecute PWr
  | PExecute PDiscard, PExecute PDiscard | PCommit, PCommit | PRollback, PRollback | PClose, PClose => true
  | PSetAutocommit x, PSetAutocommit y => eqb x y
  | _, _ => false
  end.
Definition pevent_eqb (a b : pevent) : bool := pcall_eqb (pe_call a) (pe_call b) && eqb (pe_ac a) (pe_ac b) && eqb (pe_dtx a) (pe_dtx b).
