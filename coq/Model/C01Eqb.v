(* C01/C02 - boolean equalities used by the correspondence runs (model output vs serialised implementation output)
   and by the executable statements of the theorems.  Definitions only. *)
Require Import PonyV.Base.PyBase PonyV.Model.C01Expr PonyV.Model.C01Sql PonyV.Model.C01Translate.

Fixpoint zlist_eqb (a b : list Z) : bool :=
  match a, b with [], [] => true | x :: a', y :: b' => (x =? y) && zlist_eqb a' b' | _, _ => false end.

Definition qlit_eqb (a b : qlit) : bool :=
  match a, b with
  | QLInt x, QLInt y => x =? y
  | QLStr x, QLStr y => zlist_eqb x y
  | QLBool x, QLBool y => Bool.eqb x y
  | QLNone, QLNone => true
  | _, _ => false
  end.

Definition qbin_code (o : qbin) : nat :=
  match o with QAdd => 0 | QSub => 1 | QMul => 2 | QDiv => 3 | QFloorDiv => 4 | QMod => 5 | QConcat => 6
             | QEq => 7 | QNe => 8 | QLt => 9 | QLe => 10 | QGt => 11 | QGe => 12 end%nat.
Definition qun_code (o : qun) : nat :=
  match o with QNeg => 0 | QAbs => 1 | QLen => 2 | QToInt => 3 | QNot => 4 | QIsNull => 5 | QIsNotNull => 6 end%nat.

Fixpoint qx_eqb (a b : qx) {struct a} : bool :=
  let fix go (l1 l2 : list qx) : bool :=
    match l1, l2 with
    | [], [] => true
    | x :: r1, y :: r2 => qx_eqb x y && go r1 r2
    | _, _ => false
    end in
  match a, b with
  | QVal x, QVal y => qlit_eqb x y
  | QCol i, QCol j | QParam i, QParam j => Nat.eqb i j
  | QBin o1 x1 x2, QBin o2 y1 y2 => Nat.eqb (qbin_code o1) (qbin_code o2) && qx_eqb x1 y1 && qx_eqb x2 y2
  | QUn o1 x, QUn o2 y => Nat.eqb (qun_code o1) (qun_code o2) && qx_eqb x y
  | QAnd l1, QAnd l2 | QOr l1, QOr l2 | QCoalesce l1, QCoalesce l2 => go l1 l2
  | QIn n1 x l1, QIn n2 y l2 => Bool.eqb n1 n2 && qx_eqb x y && go l1 l2
  | QCase c1 t1 f1, QCase c2 t2 f2 => qx_eqb c1 c2 && qx_eqb t1 t2 && qx_eqb f1 f2
  | QMinMax m1 l1, QMinMax m2 l2 => Bool.eqb m1 m2 && go l1 l2
  | _, _ => false
  end.

Fixpoint qxs_eqb (l1 l2 : list qx) : bool :=
  match l1, l2 with [], [] => true | x :: r1, y :: r2 => qx_eqb x y && qxs_eqb r1 r2 | _, _ => false end.

Definition oqxs_eqb (a b : option (list qx)) : bool :=
  match a, b with None, None => true | Some x, Some y => qxs_eqb x y | _, _ => false end.
Definition oqx_eqb (a b : option qx) : bool :=
  match a, b with None, None => true | Some x, Some y => qx_eqb x y | _, _ => false end.

Definition qv_eqb (a b : qv) : bool :=
  match a, b with
  | NullV, NullV | ErrV, ErrV => true
  | IntV x, IntV y => x =? y
  | StrV x, StrV y => zlist_eqb x y
  | BoolV x, BoolV y => Bool.eqb x y
  | FracV n1 d1, FracV n2 d2 => (n1 =? n2) && (d1 =? d2)
  | _, _ => false
  end.

Definition pyv_eqb (a b : pyv) : bool :=
  match a, b with
  | PNone, PNone => true
  | PInt x, PInt y => x =? y
  | PStr x, PStr y => zlist_eqb x y
  | PBool x, PBool y => Bool.eqb x y
  | _, _ => false
  end.

Fixpoint failing_from (n : nat) (l : list bool) : list nat :=
  match l with [] => [] | b :: r => (if b then [] else [n]) ++ failing_from (S n) r end.
Definition failing (l : list bool) : list nat := failing_from 0 l.

(* The statements of the C01 theorems as executable checks (used by the search to hunt for counterexamples of the
   model itself before and after they are proved; a `false` here on a typed, safe input would contradict Props/C01.v) *)
Definition filter_agrees (d : dname) (en : env) (e : expr) : bool :=
  match tr_filter d e with
  | Some conds => Bool.eqb (where_truth d (encenv d en) conds) (py_truthy e (reval true en e))
  | None => false
  end.
Definition project_agrees (d : dname) (en : env) (e : expr) : bool :=
  match tr_project d e with
  | Some q => qv_eqb (qeval d (encenv d en) q) (enc d (reval true en e))
  | None => false
  end.
